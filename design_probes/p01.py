import random
from sqlfluff.core import FluffConfig
from sqlfluff.core.parser.lexer import PyLexer
from sqlfluff.core.dialects import dialect_readout
random.seed(11)
alpha=list("ab1 _\t\n'\"`-/*#$@:;,.()[]{}<>=!+%\\~^|&?é  \x00\r\x0b")
from collections import Counter
kinds=Counter(); n=0
for rec in dialect_readout():
    cfg=FluffConfig(overrides={"dialect":rec.label}); lx=PyLexer(config=cfg)
    for _ in range(400):
        s="".join(random.choice(alpha) for _ in range(random.randint(0,14)))
        n+=1
        try: toks,errs=lx.lex(s)
        except Exception as e: kinds["raise:"+type(e).__name__]+=1; continue
        if "".join(t.raw for t in toks)!=s: kinds["concat"]+=1
        p=0
        for t in toks:
            pm=t.pos_marker
            if pm.templated_slice.start!=p: kinds["tpl-gap"]+=1
            if pm.templated_slice.stop-pm.templated_slice.start!=len(t.raw): kinds["tpl-len"]+=1
            if pm.source_slice!=pm.templated_slice: kinds["src!=tpl"]+=1
            p=pm.templated_slice.stop
        if p!=len(s): kinds["end"]+=1
        nun=sum(1 for t in toks if t.is_type("unlexable"))
        if nun!=len(errs): kinds["lxr-count"]+=1
print("n",n,dict(kinds))
