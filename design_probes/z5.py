import time
from z3 import *
s = Array('s', IntSort(), IntSort()); slen=Int('slen'); NL=10
L = Array('L', IntSort(), IntSort()); n=Int('n')
i,j,k,p = Ints('i j k p'); init=Int('init'); nl=Int('nl')
isnl = lambda e: s[e]==NL
def sorted_(L,n): return ForAll([i,j], Implies(And(0<=i, i<j, j<n), L[i] < L[j]))
def inrange(L,n): return ForAll([i], Implies(And(0<=i,i<n), And(0<=L[i], L[i]<slen, isnl(L[i]))))
idx = Function('idx', IntSort(), IntSort())
def complete_upto(L,n,hi,idxf): return ForAll([k], Implies(And(0<=k,k<=hi,k<slen,isnl(k)), And(0<=idxf(k),idxf(k)<n,L[idxf(k)]==k)))
# find contract: nl = s.find("\n", init+1)
start = init+1
find_post = And(Or(nl==-1, And(start<=nl, nl<slen, isnl(nl))),
                ForAll([p], Implies(And(start<=p, p<If(nl==-1, slen, nl), 0<=p), Not(isnl(p)))))
inv = And(slen>=0, n>=0, -1<=init, init<slen, sorted_(L,n), inrange(L,n), complete_upto(L,n,init,idx),
          ForAll([i], Implies(And(0<=i,i<n), L[i]<=init)))
L2 = Store(L, n, nl); n2 = n+1
idx2 = Function('idx2', IntSort(), IntSort())
goals = [("sorted", sorted_(L2,n2)), ("inrange", inrange(L2,n2)),
         ("complete", ForAll([k], Implies(And(0<=k,k<=nl,k<slen,isnl(k)), Exists([i], And(0<=i,i<n2,L2[i]==k))))),
         ("bound", ForAll([i], Implies(And(0<=i,i<n2), L2[i]<=nl)))]
for nm,g in goals:
    sol=Solver(); sol.set("timeout",30000); sol.add(inv, find_post, nl>=0, Not(g))
    t=time.time(); print("step-"+nm, sol.check(), round(time.time()-t,3))
# exit: nl == -1 => complete up to slen-1
g = ForAll([k], Implies(And(0<=k,k<slen,isnl(k)), Exists([i], And(0<=i,i<n,L[i]==k))))
sol=Solver(); sol.set("timeout",30000); sol.add(inv, find_post, nl==-1, Not(g)); t=time.time(); print("exit-complete", sol.check(), round(time.time()-t,3))
