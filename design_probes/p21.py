import fnmatch, itertools, random
from sqlfluff.core import FluffConfig, Linter
from sqlfluff.core.rules import get_ruleset
rs = get_ruleset()
refmap = rs.rule_reference_map()
codes = sorted(rs._register.keys())
def expand(refs):
    out=set()
    for r in refs:
        if r in refmap: out |= refmap[r]
        else:
            for k in refmap:
                if fnmatch.fnmatchcase(k, r) if False else fnmatch.fnmatch(k, r): out |= refmap[k]
    return out
sel = ["LT01","layout","core","L0*","capitalisation.keywords","L010","all","AL*","*.spacing","ST0?","nonexistent","aliasing"]
random.seed(0); bad=0; n=0
for _ in range(150):
    a = random.sample(sel, random.randint(0,3)); d = random.sample(sel, random.randint(0,2))
    ov={"dialect":"ansi"}
    if a: ov["rules"]=",".join(a)
    if d: ov["exclude_rules"]=",".join(d)
    cfg = FluffConfig(overrides=ov)
    got=[r.code for r in rs.get_rulepack(cfg).rules]
    allow = expand(a) if a else set(codes)
    exp = sorted(c for c in codes if c in allow and c not in expand(d))
    n+=1
    if got!=exp: bad+=1; print("MISMATCH",a,d,got[:5],exp[:5])
print("n",n,"bad",bad, "keys", len(refmap))
