import random, itertools
from sqlfluff.core import FluffConfig
from sqlfluff.core.templaters.placeholder import PlaceholderTemplater, KNOWN_STYLES
def valid(tf):
    src, tpl = tf.source_str, tf.templated_str
    pos=0
    for r in tf.raw_sliced:
        if r.source_idx!=pos: return "raw-gap"
        if src[pos:pos+len(r.raw)]!=r.raw: return "raw-text"
        pos+=len(r.raw)
    if pos!=len(src): return "raw-end"
    tpos=0
    for s in tf.sliced_file:
        if s.templated_slice.start!=tpos: return "tpl-gap"
        if s.templated_slice.stop<s.templated_slice.start: return "tpl-neg"
        tpos=s.templated_slice.stop
        if not (0<=s.source_slice.start<=s.source_slice.stop<=len(src)): return "src-bounds"
        if s.slice_type=="literal" and tpl[s.templated_slice]!=src[s.source_slice]: return "literal-text"
    if tpos!=len(tpl): return "tpl-end"
    # source slices in order
    sp=0
    for s in tf.sliced_file:
        if s.source_slice.start!=sp: return "src-order"
        sp=s.source_slice.stop
    if sp!=len(src): return "src-end"
    return None
random.seed(5)
alpha=list(":$%?&{}()s1ab_ '\"\\\n")
bad=0;n=0
for style,rx in KNOWN_STYLES.items():
    for _ in range(3000):
        s="".join(random.choice(alpha) for _ in range(random.randint(0,12)))
        ctx={"param_style":style,"a":"X","1":"ONE","ab":""}
        t=PlaceholderTemplater(override_context=ctx)
        tf,_=t.process(in_str=s,fname="f",config=FluffConfig(overrides={"dialect":"ansi"}))
        n+=1
        v=valid(tf)
        # subst spec
        out="";last=0;cnt=1
        for m in rx.finditer(s):
            gd=m.groupdict()
            if "param_name" not in gd: name=str(cnt); cnt+=1
            else: name=m["param_name"]
            rep=str(ctx[name]) if name in ctx else name
            if "quotation" in gd: rep=m["quotation"]+rep+m["quotation"]
            out+=s[last:m.start()]+rep; last=m.end()
        out+=s[last:]
        if v or out!=tf.templated_str:
            bad+=1
            if bad<6: print(style,repr(s),v,repr(out),repr(tf.templated_str))
print("n",n,"bad",bad)
