import itertools, random
from sqlfluff.core.errors import SQLLintError, SQLParseError, SQLTemplaterError, SQLBaseError
from sqlfluff.core.linter.linted_file import LintedFile, TMP_PRS_ERROR_TYPES
from sqlfluff.core.linter.linted_dir import LintedDir
from sqlfluff.core.linter.linting_result import LintingResult
from sqlfluff.core.rules.noqa import IgnoreMask, NoQaDirective
class FakeRule: 
    code="LT01"; name="layout.spacing"
class FakeSeg:
    pos_marker=None
def mk(kind, ignore, warning, fixable, line):
    if kind=="lint":
        e=SQLLintError.__new__(SQLLintError); SQLBaseError.__init__(e, description="d", line_no=line, line_pos=1, ignore=ignore, warning=warning)
        e.segment=None; e.rule=FakeRule(); e.fixes=[object()] if fixable else []
        e.to_dict=lambda e=e: {"start_line_no":e.line_no,"start_line_pos":1,"code":"LT01","description":"d","name":"n","warning":e.warning,"fixes":[{"x":1}] if e.fixes else []}
        return e
    cls=SQLParseError if kind=="prs" else SQLTemplaterError
    return cls(description="d", line_no=line, line_pos=1, ignore=ignore, warning=warning)
random.seed(9); bad=0; N=3000
for _ in range(N):
    files=[]
    for fi in range(random.randint(1,2)):
        vs=[mk(random.choice(["lint","lint","prs","tmp"]), random.random()<0.3, random.random()<0.3, random.random()<0.5, random.randint(1,2)) for _ in range(random.randint(0,4))]
        mask=IgnoreMask([NoQaDirective(1,0,None,None,"noqa")]) if random.random()<0.4 else None
        files.append(LintedFile(f"f{fi}.sql", vs, None, None, mask, None, "utf8"))
    d=LintedDir("p"); 
    for f in files: d.add(f)
    res=LintingResult(); res.add(d)
    def shown(f,v): return (not v.ignore) and not (f.ignore_mask is not None and v.line_no==1)
    def live(f,v): return shown(f,v) and not v.warning
    exp_exit = 1 if any(live(f,v) for f in files for v in f.violations) else 0
    got_exit = res.stats(1,0)["exit code"]
    unf={f.path:sum(isinstance(v,TMP_PRS_ERROR_TYPES) for v in f.violations) for f in files}
    flt=sum(isinstance(v,TMP_PRS_ERROR_TYPES) and live(f,v) for f in files for v in f.violations)
    unfx=sum(isinstance(v,SQLLintError) and live(f,v) and not v.fixes for f in files for v in f.violations)
    ok = got_exit==exp_exit and d._unfiltered_tmp_prs_errors_map==unf and res.count_tmp_prs_errors()==(sum(unf.values()),flt) and d.num_unfixable_lint_errors==unfx
    # discard
    res.discard_fixes_for_lint_errors_in_files_with_tmp_or_prs_errors()
    prop_unfx=sum(isinstance(v,SQLLintError) and live(f,v) and not v.fixes for f in files for v in f.violations)  # after discard, per property
    code_unfx=d.num_unfixable_lint_errors
    if not ok: bad+=1
    if code_unfx!=prop_unfx:
        # expect only warning-related excess
        excess=sum(isinstance(v,SQLLintError) and shown(f,v) and v.warning and unf[f.path]>0 for f in files for v in f.violations)
        if code_unfx-prop_unfx>excess or code_unfx<prop_unfx: bad+=1; print("unexpected diff",code_unfx,prop_unfx,excess)
print("N",N,"bad",bad)
