"""Hand-encoded VC probe for LintedFile._slice_source_file_using_patches (throwaway)."""
import time
from z3 import *
I = IntSort()
Ps, Pe = Array('Ps',I,I), Array('Pe',I,I); n = Int('n')
Ss, Se = Array('Ss',I,I), Array('Se',I,I); k = Int('k')
N = Int('N')
a,b,q = Ints('a b q')
pre = And(n>=0,k>=0,N>=0,
  ForAll([a], Implies(And(0<=a,a<n), And(0<=Ps[a], Ps[a]<=Pe[a], Pe[a]<=N))),
  ForAll([a,b], Implies(And(0<=a,a<b,b<n), Ps[a]<=Ps[b])),
  ForAll([a], Implies(And(0<=a,a<k), And(0<=Ss[a], Ss[a]<Se[a], Se[a]<=N))),
  ForAll([a,b], Implies(And(0<=a,a<b,b<k), Se[a]<=Ss[b])),
  ForAll([a,b], Implies(And(0<=a,a<n,0<=b,b<k),
        Or(And(Ps[a]==Ss[b],Pe[a]==Se[b]), Pe[a]<=Ss[b], Ps[a]>=Se[b]))))
def tiles(Bs,Be,m,sidx):
    return And(m>=0, Implies(m==0, sidx==0), Implies(m>0, And(Bs[0]==0, Be[m-1]==sidx)),
               ForAll([q], Implies(And(0<=q,q<m), Bs[q]<=Be[q])),
               ForAll([q], Implies(And(0<=q,q<m-1), Be[q]==Bs[q+1])))
def inv(Bs,Be,m,sidx,j):
    return And(tiles(Bs,Be,m,sidx), 0<=sidx, sidx<=N, 0<=j, j<=k,
               ForAll([b], Implies(And(j<=b,b<k), Ss[b]>=sidx)))
def push(Bs,Be,m,s,e): return Store(Bs,m,s), Store(Be,m,e), m+1
def check(name, hyps, goal, to=30000):
    s=Solver(); s.set("timeout",to); s.add(*hyps); s.add(Not(goal))
    t=time.time(); r=s.check(); print(f"{name:28s} {r} {time.time()-t:.3f}s")
    if r==sat: print(s.model())
Bs,Be = Array('Bs',I,I), Array('Be',I,I); m,sidx,j,i = Ints('m sidx j i')
ps,pe = Ps[i],Pe[i]
# --- inner while: cond j<k and Ss[j] < ps ; body
cond = And(j<k, Ss[j]<ps)
B1s,B1e,m1 = Bs,Be,m
gap = Ss[j] > sidx
B2s = If(gap, Store(Bs,m,sidx), Bs); B2e = If(gap, Store(Be,m,Ss[j]), Be); m2 = If(gap, m+1, m)
B3s,B3e,m3 = Store(B2s,m2,Ss[j]), Store(B2e,m2,Se[j]), m2+1
check("inner-preserve", [pre, 0<=i, i<n, inv(Bs,Be,m,sidx,j), cond], inv(B3s,B3e,m3,Se[j],j+1))
# --- after inner loop: not cond. then pop-if-equal, gap, skip, append
ncond = Not(cond)
eq = And(j<k, ps==Ss[j], pe==Se[j])
j2 = If(eq, j+1, j)
gap2 = ps > sidx
C2s = If(gap2, Store(Bs,m,sidx), Bs); C2e = If(gap2, Store(Be,m,ps), Be); c2 = If(gap2, m+1, m)
skip = ps < sidx
# skip path: state (C2s,C2e,c2,sidx,j2)  [note: gap2 and skip exclusive]
check("outer-preserve-skip", [pre,0<=i,i<n,inv(Bs,Be,m,sidx,j),ncond,skip], inv(C2s,C2e,c2,sidx,j2))
C3s,C3e,c3 = Store(C2s,c2,ps), Store(C2e,c2,pe), c2+1
check("outer-preserve-apply", [pre,0<=i,i<n,inv(Bs,Be,m,sidx,j),ncond,Not(skip)], inv(C3s,C3e,c3,pe,j2))
# --- exit: tail
tail = sidx < N
Ds = If(tail, Store(Bs,m,sidx), Bs); De = If(tail, Store(Be,m,N), Be); d = If(tail, m+1, m)
check("post-tiling", [pre, inv(Bs,Be,m,sidx,j)], tiles(Ds,De,d,N))
# --- vacuity: pre & inv satisfiable with nontrivial sizes
s=Solver(); s.add(pre, n==2, k==1, N==6, Ps[0]<Ps[1], Pe[0]>Ps[0]); print("vacuity", s.check())
# --- necessity of compat: drop it, expect sat somewhere
pre_nocompat = And(*pre.children()[:-1])
check("apply-without-compat", [pre_nocompat,0<=i,i<n,inv(Bs,Be,m,sidx,j),ncond,Not(skip)], inv(C3s,C3e,c3,pe,j2), to=10000)
