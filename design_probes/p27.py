import itertools, random, copy
from sqlfluff.core.helpers.dict import nested_combine
random.seed(2)
def gen(depth=0):
    d={}
    for k in random.sample(["a","b","c"], random.randint(0,3)):
        if depth<2 and random.random()<0.4: d[k]=gen(depth+1)
        else: d[k]=random.choice([1,2,"x",None,(1,2)])
    return d
def paths(d,pre=()):
    for k,v in d.items():
        if isinstance(v,dict):
            yield (pre+(k,),"DICT"); yield from paths(v,pre+(k,))
        else: yield (pre+(k,),v)
def lookup(d,path):
    for k in path:
        if not isinstance(d,dict) or k not in d: return "MISSING"
        d=d[k]
    return "DICT" if isinstance(d,dict) else d
def dict_ids(d,acc):
    acc.add(id(d))
    for v in d.values():
        if isinstance(v,dict): dict_ids(v,acc)
        elif isinstance(v,list): acc.add(id(v))
    return acc
bad=0;n=0;exc=0
for _ in range(20000):
    ds=[gen() for _ in range(random.randint(1,3))]
    snap=copy.deepcopy(ds)
    try: r=nested_combine(*ds)
    except ValueError: exc+=1; continue
    n+=1
    allp=set(p for d in ds for p,_ in paths(d))
    ok=True
    for p in allp:
        exp="MISSING"
        # last-wins with recursive merge: value at p = from the last dict where p resolves to a leaf, unless a later dict makes it DICT
        vals=[lookup(d,p) for d in ds]
        vals=[v for v in vals if v!="MISSING"]
        got=lookup(r,p)
        if vals:
            last=vals[-1]
            if got!=last and not (got=="DICT" and "DICT" in vals): ok=False
    if set(paths(r)) - set((p,v) for d in ds for p,v in paths(d)) : ok=False
    ins=set()
    for d in ds: dict_ids(d,ins)
    if dict_ids(r,set()) & ins: ok=False
    if ds!=snap: ok=False
    if not ok:
        bad+=1
        if bad<4: print(ds,r)
print("n",n,"bad",bad,"valueerrors",exc)
