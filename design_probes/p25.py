import os, itertools, random, shutil, tempfile, pathspec
from sqlfluff.core.linter import discovery
from sqlfluff.core.config.file import load_config_file_as_dict
base=tempfile.mkdtemp(prefix="p25_")
random.seed(4)
def build(root):
    dirs=["", "a", "a/b", "a/b/c", "d"]
    files={}
    for d in dirs:
        os.makedirs(os.path.join(root,d), exist_ok=True)
        for f in ("x.sql","y.sql","z.txt"):
            if random.random()<0.7:
                open(os.path.join(root,d,f),"w").write("select 1\n"); files[os.path.join(d,f)]=1
        if random.random()<0.5:
            pats=random.sample(["x.sql","b/","*.sql","c/y.sql","/y.sql","d"], random.randint(1,2))
            open(os.path.join(root,d,".sqlfluffignore"),"w").write("\n".join(pats)+"\n")
    return dirs
def expected(root):
    # reference: gitignore semantics per ignore file, applied to files under its directory; dirs pruned if dir/* matches
    specs={}
    for dp,dn,fn in os.walk(root):
        if ".sqlfluffignore" in fn:
            specs[dp]=pathspec.PathSpec.from_lines("gitignore", open(os.path.join(dp,".sqlfluffignore")))
    out=[]
    def ignored(path):
        for d,sp in specs.items():
            if path.startswith(d+os.sep) and sp.match_file(os.path.relpath(path,d)): return True
        return False
    for dp,dn,fn in os.walk(root):
        # pruned ancestors
        skip=False; cur=dp
        while cur!=root and cur.startswith(root):
            if ignored(os.path.join(cur,"*")): skip=True
            cur=os.path.dirname(cur)
        if skip: continue
        for f in fn:
            if f.lower().endswith(".sql") and not ignored(os.path.join(dp,f)): out.append(os.path.join(dp,f))
    return sorted(out)
mism_abs=0; mism_rel=0; mism_rel_fixed=0; N=150
orig=discovery._iter_files_in_path
import types
src=open(discovery.__file__).read()
fixed_src=src.replace("or dirname.startswith(os.path.abspath(inner_dirname) + os.sep)","or os.path.abspath(dirname).startswith(os.path.abspath(inner_dirname) + os.sep)")
assert fixed_src!=src
fixed_mod=types.ModuleType("disc_fixed"); fixed_mod.__dict__["__name__"]="disc_fixed"; fixed_mod.__file__=discovery.__file__
exec(compile(fixed_src, discovery.__file__, "exec"), fixed_mod.__dict__)
for t in range(N):
    root=os.path.join(base,f"t{t}","proj"); os.makedirs(root); build(root)
    exp=expected(root)
    got_abs=discovery.paths_from_path(root, working_path=os.path.dirname(root))
    if got_abs!=exp: mism_abs+=1; 
    os.chdir(os.path.dirname(root))
    got_rel=[os.path.abspath(p) for p in discovery.paths_from_path("proj", working_path=os.getcwd())]
    if sorted(got_rel)!=exp: mism_rel+=1
    got_fix=[os.path.abspath(p) for p in fixed_mod.paths_from_path("proj", working_path=os.getcwd())]
    if sorted(got_fix)!=exp: mism_rel_fixed+=1
    load_config_file_as_dict.cache_clear()
os.chdir("/"); shutil.rmtree(base)
print("trees",N,"abs mismatches",mism_abs,"rel mismatches",mism_rel,"rel-with-one-line-fix mismatches",mism_rel_fixed)
