import random
norm=lambda x: x.upper().casefold()
bad=0
for cp in range(0x110000):
    if 0xD800<=cp<=0xDFFF: continue
    c=chr(cp)
    for nm in ("upper","lower","capitalize"):
        if norm(getattr(c,nm)())!=norm(c): bad+=1
print("single-char failures",bad)
random.seed(1); cnt=0
pool=[chr(c) for c in list(range(0x20,0x250))+[0x3c2,0x3c3,0x3a3,0x130,0x131,0xdf,0x1e9e,0xfb01,0x149,0x1f0,0x390]]
for _ in range(400000):
    s="".join(random.choice(pool) for _ in range(random.randint(1,4)))
    for nm in ("upper","lower","capitalize"):
        if norm(getattr(s,nm)())!=norm(s):
            cnt+=1
            if cnt<4: print(nm,repr(s),repr(getattr(s,nm)()))
print("multi-char failures",cnt)
