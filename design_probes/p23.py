import glob, random
from sqlfluff.core import Linter, FluffConfig
def pos(s,x):
    return (1+s.count("\n",0,x), x-s.rfind("\n",0,x))
random.seed(7)
files=glob.glob("/repo/test/fixtures/dialects/ansi/*.sql")+glob.glob("/repo/test/fixtures/templater/jinja_*/*.sql")[:40]+glob.glob("/repo/test/fixtures/linter/*.sql")
random.shuffle(files)
bad=0;n=0;nv=0
from collections import Counter
kinds=Counter()
for f in files[:120]:
    src=open(f).read().replace("\r\n","\n")
    templ="jinja" if "jinja" in f else "raw"
    cfg=FluffConfig(overrides={"dialect":"ansi","templater":templ})
    try: lf=Linter(config=cfg).lint_string(src, fname=f)
    except Exception as e: continue
    n+=1
    if not lf.templated_file: continue
    s=lf.templated_file.source_str
    nlines=1+s.count("\n")
    for v in lf.get_violations(filter_warning=False):
        d=v.to_dict(); nv+=1
        ln,lp=d["start_line_no"],d["start_line_pos"]
        if not (1<=ln<=nlines): kinds["line-oob"]+=1
        else:
            linelen=len(s.split("\n")[ln-1])
            if not (1<=lp<=linelen+1): kinds["col-oob"]+=1
        if "start_file_pos" in d:
            if pos(s,d["start_file_pos"])!=(ln,lp): kinds["start-mismatch"]+=1
            if pos(s,d["end_file_pos"])!=(d["end_line_no"],d["end_line_pos"]): kinds["end-mismatch"]+=1
        for fx in d.get("fixes",[]):
            if pos(s,fx["start_file_pos"])!=(fx["start_line_no"],fx["start_line_pos"]): kinds["fix-start-mismatch"]+=1
            if pos(s,fx["end_file_pos"])!=(fx["end_line_no"],fx["end_line_pos"]): kinds["fix-end-mismatch"]+=1
print("files",n,"violations",nv,dict(kinds))
