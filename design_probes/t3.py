import os
from sqlfluff.core import Linter, FluffConfig
os.makedirs("/tmp/exp/enc", exist_ok=True)
p="/tmp/exp/enc/x.sql"
open(p,"wb").write(b"SELECT  a  from b -- caf\xe9 \xff\n")
cfg = FluffConfig(overrides={"dialect":"ansi","encoding":"utf-8"})
lnt = Linter(config=cfg)
res = lnt.lint_paths((p,), fix=True, apply_fixes=True)
print(open(p,"rb").read())
# C15 snake
import sqlfluff
cfg = FluffConfig(overrides={"dialect":"ansi","rules":"CP02"}, configs={"rules":{"capitalisation.identifiers":{"extended_capitalisation_policy":"snake"}}})
print(repr(Linter(config=cfg).lint_string("select fooBar, x1 from tblName\n", fix=True).fix_string()[0]))
