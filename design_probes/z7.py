"""Refutation mode probe: expand quantifiers over small explicit bounds to get a real counter-model."""
import time, itertools
from z3 import *
I=IntSort(); BND=3
Ps,Pe,Ss,Se,Bs,Be = [Array(x,I,I) for x in "Ps Pe Ss Se Bs Be".split()]
n,k,N,m,sidx,j,i = Ints('n k N m sidx j i')
R=range(BND+1)
def fa(f, arity=1): return And(*[f(*c) for c in itertools.product(R, repeat=arity)])
pre_nocompat = And(0<=n,n<=BND,0<=k,k<=BND,0<=N,
  fa(lambda a: Implies(a<n, And(0<=Ps[a],Ps[a]<=Pe[a],Pe[a]<=N))),
  fa(lambda a,b: Implies(And(a<b,b<n), Ps[a]<=Ps[b]),2),
  fa(lambda a: Implies(a<k, And(0<=Ss[a],Ss[a]<Se[a],Se[a]<=N))),
  fa(lambda a,b: Implies(And(a<b,b<k), Se[a]<=Ss[b]),2))
def tiles(Bs,Be,m,sidx):
    return And(m>=0, m<=BND+1, Implies(m==0,sidx==0), Implies(m>0, And(Bs[0]==0, Be[m-1]==sidx)),
       fa(lambda q: Implies(q<m, Bs[q]<=Be[q])), fa(lambda q: Implies(q<m-1, Be[q]==Bs[q+1])))
def inv(Bs,Be,m,sidx,j): return And(tiles(Bs,Be,m,sidx),0<=sidx,sidx<=N,0<=j,j<=k, fa(lambda b: Implies(And(j<=b,b<k), Ss[b]>=sidx)))
ps,pe=Ps[i],Pe[i]
ncond=Not(And(j<k,Ss[j]<ps)); eq=And(j<k,ps==Ss[j],pe==Se[j]); j2=If(eq,j+1,j)
gap2=ps>sidx
C2s=If(gap2,Store(Bs,m,sidx),Bs); C2e=If(gap2,Store(Be,m,ps),Be); c2=If(gap2,m+1,m)
C3s,C3e,c3=Store(C2s,c2,ps),Store(C2e,c2,pe),c2+1
s=Solver(); s.add(pre_nocompat,0<=i,i<n,m<=BND-1,inv(Bs,Be,m,sidx,j),ncond,Not(ps<sidx),Not(inv(C3s,C3e,c3,pe,j2)))
t=time.time(); r=s.check(); print(r, round(time.time()-t,3))
if r==sat:
    M=s.model(); ev=lambda e: M.eval(e, model_completion=True)
    print("N",ev(N),"patch",ev(ps),ev(pe),"sidx",ev(sidx),"j",ev(j),"k",ev(k),"so",[(ev(Ss[x]),ev(Se[x])) for x in range(int(str(ev(k))))])
