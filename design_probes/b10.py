"""Probe raw_slices_spanning_source_slice characterisation (throwaway)."""
import itertools
from sqlfluff.core.templaters.base import TemplatedFile, RawFileSlice, TemplatedFileSlice
bad=0; tot=0
types=["literal","templated","block_start"]
for lens in itertools.product([0,1,2], repeat=3):
    if lens[-1]==0 and sum(lens)==0: continue
    for tys in itertools.product(types, repeat=3):
        src="".join("abcdefgh"[i]*l for i,l in enumerate(lens))
        raws=[]; pos=0
        for l,t in zip(lens,tys):
            raws.append(RawFileSlice(src[pos:pos+l], t, pos)); pos+=l
        n=len(src)
        tf=TemplatedFile(src,"f",templated_str=src,sliced_file=[TemplatedFileSlice("literal",slice(0,n),slice(0,n))],raw_sliced=raws)
        for a in range(n+1):
            for b in range(a,n+1):
                res=tf.raw_slices_spanning_source_slice(slice(a,b))
                tot+=1
                # characterisation
                last=raws[-1]
                if a >= last.source_idx+len(last.raw): exp=[]
                else:
                    i=0
                    for k,r in enumerate(raws):
                        if r.source_idx<=a: i=k
                    j=i+1
                    while j<len(raws) and raws[j].source_idx<b: j+=1
                    exp=raws[i:j]
                if res!=exp: bad+=1; print("CHAR MISMATCH",lens,tys,a,b,res,exp)
                # corollary: every non-empty raw slice intersecting [a,b) is in res (when a<b)
                if a<b:
                    for r in raws:
                        if len(r.raw)>0 and r.source_idx<b and r.source_idx+len(r.raw)>a and r not in res:
                            bad+=1; print("COROLLARY FAIL",lens,tys,a,b,r,res)
                else:
                    # empty: result is single slice containing point (source_idx<=a<end) or boundary
                    if res and not (len(res)==1 and res[0].source_idx<=a): bad+=1; print("EMPTY FAIL",lens,tys,a,res)
print("tot",tot,"bad",bad)
