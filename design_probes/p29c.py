import time, traceback
from sqlfluff.core.dialects import dialect_readout, dialect_selector
from sqlfluff.core.parser.grammar.base import Ref
from sqlfluff.core.parser.matchable import Matchable
from sqlfluff.core.parser.segments.base import BaseSegment
def is_seg_class(x):
    return isinstance(x, type) and x is not type and BaseSegment in getattr(x, "__mro__", ())
WEIRD=set()
def is_matchable(x):
    if isinstance(x, type): return False
    try: return isinstance(x, Matchable)
    except TypeError:
        WEIRD.add(repr(type(x))+':'+repr(x)[:60]); return False
def children(obj):
    out=[]
    if is_seg_class(obj):
        g=getattr(obj,"match_grammar",None)
        if g is not None: out.append(g)
        return out
    d=getattr(obj,"__dict__",{})
    for k,v in d.items():
        stack=[v]
        while stack:
            x=stack.pop()
            if isinstance(x,(list,tuple,set,frozenset)): stack.extend(x)
            elif isinstance(x,dict): stack.extend(x.values())
            elif is_seg_class(x) or is_matchable(x): out.append(x)
    return out
t0=time.time(); tot=0; missing=[]; per={}
for rec in dialect_readout():
    d=dialect_selector(rec.label)
    seen=set(); refs={}
    work=[d.get_root_segment()]
    while work:
        o=work.pop()
        if id(o) in seen: continue
        seen.add(id(o))
        if isinstance(o, Ref) and not isinstance(o,type):
            refs[o._ref]=refs.get(o._ref,0)+1
            if o._ref in d._library: work.append(d._library[o._ref])
        work.extend(children(o))
    for setname in ("bracket_pairs","angle_bracket_pairs"):
        for (_t,s,e,_p) in d.bracket_sets(setname):
            refs[s]=refs.get(s,0)+1; refs[e]=refs.get(e,0)+1
    miss=[r for r in refs if r not in d._library]
    per[rec.label]=(len(seen),sum(refs.values()),len(refs),len(miss)); tot+=sum(refs.values())
    missing += [(rec.label,m) for m in miss]
print("dialects",len(per),"ref objects",tot,"missing",len(missing),"time",round(time.time()-t0,1))
print({k:v for k,v in list(per.items())[:6]})
print(missing[:20])

print('weird',list(WEIRD)[:5])
from collections import Counter
c=Counter(d for d,_ in missing); print(dict(c))
names=Counter(m for _,m in missing); print(len(names), names.most_common(12))
print([m for m in names if not m.endswith("KeywordSegment")])
