"""Brute-force the C20 'hidden' spec against the real IgnoreMask (throwaway probe)."""
import itertools, copy
from sqlfluff.core.rules.noqa import IgnoreMask, NoQaDirective
from sqlfluff.core.errors import SQLBaseError

class V(SQLBaseError):
    def __init__(self, code, line):
        self._c = code
        super().__init__(description=f"{code}@{line}", line_no=line, line_pos=1)
    def rule_code(self): return self._c

LINES=[1,2,3]; CODES=["A","B"]
dir_opts = [(l, r, a) for l in LINES for r in (None, ("A",), ("B",)) for a in (None,"enable","disable")]
viols_all = [(c,l) for c in CODES for l in LINES]
def covers(d, v): return d.rules is None or v.rule_code() in d.rules
def hidden(v, ds):
    if any(d.action is None and d.line_no==v.line_no and covers(d,v) for d in ds): return True
    rng = [d for d in ds if d.action and covers(d,v)]
    rng = sorted(rng, key=lambda d:d.line_no)
    state=None
    for d in rng:
        if d.line_no <= v.line_no: state=d.action
    return state=="disable"
bad=0; tot=0; unused_bad=0
for k in (1,2,3):
    for combo in itertools.product(dir_opts, repeat=k):
        for vk in (1,2):
            for vs in itertools.combinations(viols_all, vk):
                ds=[NoQaDirective(l,0,r,a,"x") for (l,r,a) in combo]
                mask=IgnoreMask(ds)
                vobjs=[V(c,l) for (c,l) in vs]
                out=mask.ignore_masked_violations(list(vobjs))
                exp=[v for v in vobjs if not hidden(v,ds)]
                tot+=1
                if [id(x) for x in out]!=[id(x) for x in exp]:
                    bad+=1
                    if bad<5: print("MISMATCH", combo, vs, [x.description for x in out],[x.description for x in exp])
                # used accounting for plain/disable: used => covers some hidden violation
                for d in ds:
                    if d.action in (None,"disable") and d.used:
                        if not any(hidden(v,ds) and covers(d,v) for v in vobjs):
                            unused_bad+=1
                            if unused_bad<5: print("USED-BUT-HID-NOTHING", combo, vs, d)
                    # sole coverer must be used
                for v in vobjs:
                    if hidden(v,ds):
                        cov=[d for d in ds if d.action in (None,"disable") and covers(d,v) and ((d.action is None and d.line_no==v.line_no) or (d.action=="disable" and d.line_no<=v.line_no))]
                        if len(cov)==1 and not cov[0].used:
                            unused_bad+=1
                            if unused_bad<5: print("SOLE-COVERER-UNUSED", combo, vs, cov[0])
print("total",tot,"bad",bad,"used_bad",unused_bad)
