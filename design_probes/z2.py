import time
from z3 import *
s = Array('s', IntSort(), IntSort()); slen = Int('slen'); NL=10
L = Array('L', IntSort(), IntSort()); n = Int('n')
i,j,k = Ints('i j k'); x=Int('x'); r=Int('r'); r2=Int('r2')
sorted_ = ForAll([i,j], Implies(And(0<=i, i<j, j<n), L[i] < L[j]))
inrange = ForAll([i], Implies(And(0<=i,i<n), And(0<=L[i], L[i]<slen, s[L[i]]==NL)))
idx = Function('idx', IntSort(), IntSort())  # skolem: position in L of newline at k
complete = ForAll([k], Implies(And(0<=k,k<slen,s[k]==NL), And(0<=idx(k),idx(k)<n,L[idx(k)]==k)))
cnt = Function('cnt', IntSort(), IntSort())
ax = ForAll([k], Implies(And(0<=k,k<slen), cnt(k+1) == cnt(k) + If(s[k]==NL,1,0)))
def bisf(xx, rr):
    return And(0<=rr, rr<=n, ForAll([i], Implies(And(0<=i,i<rr), L[i]<xx)), ForAll([i], Implies(And(rr<=i,i<n), L[i]>=xx)))
w = If(s[x]==NL, r2-1, r2)
IHw = Implies(bisf(x,w), cnt(x)==w)
step = Implies(bisf(x+1,r2), cnt(x+1)==r2)
for solver in ["z3"]:
    sol = Solver(); sol.set("timeout",60000); sol.add(slen>=0,n>=0,sorted_,inrange,complete,ax,0<=x,x<slen,IHw,Not(step)); t=time.time(); print("step",sol.check(), round(time.time()-t,3))
