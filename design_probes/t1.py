import sqlfluff, warnings, logging
from sqlfluff.core import Linter, FluffConfig
# C18: API fix with suppressed parse error
sql = "SELECT a  +  FROM tbl WHERE ;;; select 1 from from  -- noqa: PRS\n"
for s in ["select a,b from tbl where foo bar baz qux -- noqa: PRS\n",
          "SELECT 1 FROM (((  -- noqa: PRS\nselect  a   from b\n",
          "select  a   from b where (  -- noqa: PRS\n"]:
    cfg = FluffConfig(overrides={"dialect":"ansi"})
    lnt = Linter(config=cfg)
    res = lnt.lint_string_wrapped(s, fix=True)
    print(repr(s), res.count_tmp_prs_errors(), [v.rule_code() for v in res.paths[0].files[0].violations])
    out = sqlfluff.fix(s, dialect="ansi")
    print("  fixed:", repr(out), "CHANGED" if out != s else "same")
