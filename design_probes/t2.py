import os, sys, logging
from sqlfluff.core import Linter, FluffConfig
from sqlfluff.core.linter.discovery import paths_from_path
# C25
os.chdir("/tmp/exp/tree")
open("p/a/.sqlfluffignore","w").write("c.sql\n")
open("p/a/b/c.sql","w").write("select 1\n")
open("p/a/c.sql","w").write("select 1\n")
open("p/a/b/d.sql","w").write("select 1\n")
for spelling in ["p", "./p", os.path.abspath("p"), "."]:
    print("C25", spelling, paths_from_path(spelling, working_path=os.getcwd()))
# C34 char limit
cfg = FluffConfig(overrides={"dialect":"ansi","large_file_skip_char_limit":5, "large_file_skip_byte_limit":0})
lnt = Linter(config=cfg)
res = lnt.lint_paths(("p/a/b/d.sql",))
print("C34 char: skipped=", res.files_skipped, "files", [ (f.path, f.violations, f.tree) for p in res.paths for f in p.files])
cfg = FluffConfig(overrides={"dialect":"ansi","large_file_skip_byte_limit":5})
lnt = Linter(config=cfg)
res = lnt.lint_paths(("p/a/b/d.sql",))
print("C34 byte: skipped=", res.files_skipped, "files", [ (f.path, f.violations) for p in res.paths for f in p.files])
# C09
from sqlfluff.core.templaters import PythonTemplater
t = PythonTemplater(override_context={"sqlfluff": {"a.b": "X"}, "c": "Y"})
for src in ["select {a.b} from {c}", "select '{{' , {a.b}", "select '{{x}}' , {c}", "select {c!r:>5}"]:
    try:
        tf, errs = t.process(in_str=src, fname="x", config=FluffConfig(overrides={"dialect":"ansi"}))
        print("C09", repr(src), "->", repr(tf.templated_str), errs)
    except Exception as e:
        print("C09", repr(src), "EXC", type(e).__name__, e)
    try:
        print("   str.format:", repr(src.format(**{"c":"Y"})) if "a.b" not in src else "n/a")
    except Exception as e: print("   fmt exc", e)
