import glob, random, sys
from sqlfluff.core import Linter, FluffConfig
from sqlfluff.core.parser.match_result import MatchResult
orig = MatchResult.apply
stats = {"calls":0,"wf_fail":0,"leaf_fail":0}
from collections import Counter
kinds=Counter()
examples=[]
def wf(m, top=True):
    s,e = m.matched_slice.start, m.matched_slice.stop
    if s>e: return "neg"
    prev=s
    for c in m.child_matches:
        cs,ce=c.matched_slice.start,c.matched_slice.stop
        if not c.matched_class: return "child-no-class"
        if ce<=cs: return "child-empty"
        if cs<prev: return "overlap/unsorted"
        if ce>e: return "child-outside"
        prev=ce
    for (i,_) in m.insert_segments:
        if i<s or i>e: return "insert-outside"
        for c in m.child_matches:
            if c.matched_slice.start < i < c.matched_slice.stop: return "insert-inside-child"
    return None
def leaves(segs):
    out=[]
    for s in segs:
        for r in s.raw_segments:
            if not r.is_meta: out.append((r.raw, r.pos_marker.templated_slice.start, r.pos_marker.source_slice.start))
    return out
def patched(self, segments, parse_context=None):
    res = orig(self, segments, parse_context)
    stats["calls"]+=1
    w = wf(self)
    if w:
        stats["wf_fail"]+=1; kinds[w]+=1
        if len(examples)<5: examples.append((w,str(self)[:200]))
    exp = leaves(segments[self.matched_slice.start:self.matched_slice.stop])
    if leaves(res)!=exp:
        stats["leaf_fail"]+=1
        if len(examples)<5: examples.append(("leaf", w, str(self)[:200]))
    return res
MatchResult.apply = patched
random.seed(3)
files = glob.glob("/repo/test/fixtures/dialects/*/*.sql")
random.shuffle(files)
root_fail=0; nfiles=0
for f in files[:250]:
    dialect=f.split("/")[-2]
    try:
        cfg=FluffConfig(overrides={"dialect":dialect})
    except Exception: continue
    lnt=Linter(config=cfg)
    src=open(f).read()
    # also mutate: drop a random char to exercise unparsable paths
    for variant in (src, src[:len(src)//2]+")"+src[len(src)//2:]):
        p=lnt.parse_string(variant)
        nfiles+=1
        for v in p.parsed_variants:
            if v.tree is None: continue
            from sqlfluff.core.parser.lexer import PyLexer
            toks,_=PyLexer(config=cfg).lex(v.templated_file)
            a=[(t.raw, t.pos_marker.templated_slice.start) for t in toks if not t.is_meta]
            b=[(t.raw, t.pos_marker.templated_slice.start) for t in v.tree.raw_segments if not t.is_meta]
            if a!=b: root_fail+=1
print(stats, "files", nfiles, "root_fail", root_fail)
print(kinds)
print(examples)
