import os, shutil, tempfile, stat, builtins
from unittest import mock
from sqlfluff.core.linter.linted_file import LintedFile
base=tempfile.mkdtemp(prefix="p26_")
results=[]
def fresh():
    d=tempfile.mkdtemp(dir=base); p=os.path.join(d,"x.sql"); open(p,"wb").write(b"OLD"); os.chmod(p,0o640); return d,p
class Boom(OSError): pass
def check(d,p,label,out=None,expect_new=False):
    out=out or p
    files=sorted(os.listdir(d))
    content=open(out,"rb").read() if os.path.exists(out) else None
    extra=[f for f in files if f not in (os.path.basename(p), os.path.basename(out))]
    results.append((label, content, extra, oct(stat.S_IMODE(os.stat(out).st_mode)) if os.path.exists(out) else None))
# happy
d,p=fresh(); LintedFile._safe_create_replace_file(p,p,"NEW","utf-8-sig"); check(d,p,"happy")
# suffix
d,p=fresh(); o=os.path.join(d,"x_fix.sql"); LintedFile._safe_create_replace_file(p,o,"NEW","utf-8"); check(d,p,"suffix-out",out=o); results.append(("suffix-orig",open(p,'rb').read()))
# faults
def run_fault(label, patcher):
    d,p=fresh()
    try:
        with patcher: LintedFile._safe_create_replace_file(p,p,"NEW","utf-8")
        r="no-exc"
    except BaseException as e: r=type(e).__name__
    check(d,p,label+":"+r)
run_fault("NamedTemporaryFile", mock.patch("tempfile.NamedTemporaryFile", side_effect=Boom("x")))
run_fault("fsync", mock.patch("os.fsync", side_effect=Boom("x")))
run_fault("chmod", mock.patch("os.chmod", side_effect=Boom("x")))
run_fault("move", mock.patch("shutil.move", side_effect=Boom("x")))
run_fault("encode", mock.patch("os.fsync"))  # placeholder
# encoding failure on write
d,p=fresh()
try: LintedFile._safe_create_replace_file(p,p,"N€W","ascii"); r="no-exc"
except BaseException as e: r=type(e).__name__
check(d,p,"write-encode:"+r)
# KeyboardInterrupt at fsync
run_fault("kbint-fsync", mock.patch("os.fsync", side_effect=KeyboardInterrupt()))
for r in results: print(r)
shutil.rmtree(base)
