"""Brute-force the C30 tiling theorem on the real functions (throwaway probe)."""
import itertools, copy
from sqlfluff.core.linter.patch import FixPatch, merge_source_patches, _patches_conflict
from sqlfluff.core.linter.linted_file import LintedFile
from sqlfluff.core.templaters.base import RawFileSlice

N = 5  # source length
src = "abcde"
ranges = [(a,b) for a in range(N+1) for b in range(a, N+1)]
texts = ["X","Y"]
def mk(a,b,t): return FixPatch(slice(a,b), t, "literal", slice(a,b), "", src[a:b])
allp = [mk(a,b,t) for (a,b) in ranges for t in texts]
bad = 0; total = 0
import random
random.seed(1)
def so_choices():
    # source-only slices: sorted disjoint nonempty
    out = [[]]
    for a in range(N):
        for b in range(a+1, N+1):
            out.append([(a,b)])
            for c in range(b, N):
                for d in range(c+1, N+1):
                    out.append([(a,b),(c,d)])
    return out
SO = so_choices()
def compatible(p, so):
    for (a,b) in so:
        s,e = p.source_slice.start, p.source_slice.stop
        if (s,e)==(a,b): continue
        # disjoint from interior: patch range must not intersect (a,b) and an empty patch must not be strictly inside
        if s==e:
            if a < s < b: return False
        elif max(s,a) < min(e,b): return False
    return True
for k in (1,2,3):
    for combo in itertools.combinations(allp, k):
        merged = merge_source_patches([list(combo)])
        # merge postconditions
        for i,x in enumerate(merged):
            for y in merged[i+1:]:
                assert not _patches_conflict(x,y)
        assert sorted(merged, key=lambda p:(p.source_slice.start,p.source_slice.stop))==merged
        for so in random.sample(SO, 6):
            if not all(compatible(p, so) for p in merged): continue
            sos = [RawFileSlice(src[a:b], "block_start", a) for (a,b) in so]
            sl = LintedFile._slice_source_file_using_patches(merged, list(sos), src)
            total += 1
            # tiling
            ok = (not sl and N==0) or (sl and sl[0].start==0 and sl[-1].stop==N and all(sl[i].stop==sl[i+1].start for i in range(len(sl)-1)))
            out = LintedFile._build_up_fixed_source_string(sl, merged, src)
            # reference splice: applied = patches whose slice occurs in sl
            applied = [p for p in merged if any(s==p.source_slice for s in sl)]
            cnt_ok = all(sum(1 for s in sl if s==p.source_slice)==1 for p in applied)
            ref = ""; pos=0
            for p in sorted(applied, key=lambda p:(p.source_slice.start,p.source_slice.stop)):
                ref += src[pos:p.source_slice.start] + p.fixed_raw; pos = p.source_slice.stop
            ref += src[pos:]
            if not (ok and cnt_ok and out==ref):
                bad += 1
                if bad < 6: print("FAIL", [(p.source_slice, p.fixed_raw) for p in merged], so, sl, out, ref)
print("total", total, "bad", bad)
