from sqlfluff.core import Linter, FluffConfig
cfg = FluffConfig(overrides={"dialect":"ansi","templater":"jinja"})
lnt = Linter(config=cfg)
for src in ["SELECT 1  {% if true %}  , 2{% endif %}\n", "SELECT 1{{ '  ' }}  , 2\n", "SELECT a{% for i in [1,2] %}, {{i}} {% endfor %} FROM t\n"]:
    p = lnt.parse_string(src)
    v = p.parsed_variants[0]
    toks, _ = __import__("sqlfluff.core.parser.lexer", fromlist=["x"]).PyLexer(config=cfg).lex(v.templated_file)
    print(repr(src), "->", repr(v.templated_file.templated_str))
    pos = 0
    for t in toks:
        pm = t.pos_marker
        flag = ""
        if t.raw and (pm.templated_slice.stop - pm.templated_slice.start) != len(t.raw): flag = "  <-- LEN MISMATCH"
        print("   ", t.get_type().ljust(12), repr(t.raw).ljust(14), pm.templated_slice, pm.source_slice, flag)
