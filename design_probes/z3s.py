import time
from z3 import *
J, C, S, M = Strings('J C S M')   # joined(elem_buff), content_buff, str_buff, matched_str
a, b = Ints('a b')
inv = Concat(J, C, S) == M
pre = And(inv, 0<=a, a<b, b<=Length(S))
def sub(s, lo, hi): return SubString(s, lo, hi-lo)
cases = {
 "start": (a==0, Concat(J, sub(S,0,b)), C, sub(S,b,Length(S))),          # requires C unchanged... note elem appended = str_buff[:b]
 "end":   (And(a>0, b==Length(S)), Concat(J, Concat(C, sub(S,0,a)), sub(S,a,b)), StringVal(""), StringVal("")),
 "mid":   (And(a>0, b<Length(S)), J, Concat(C, sub(S,0,b)), sub(S,b,Length(S))),
}
for name,(cond,J2,C2,S2) in cases.items():
    sol = Solver(); sol.set("timeout",20000)
    sol.add(pre, cond, Not(Concat(J2,C2,S2)==M))
    t=time.time(); print(name, sol.check(), round(time.time()-t,3))
# note: "start" case: in the real code, content_buff is NOT flushed on start match -> J order would be wrong if C nonempty? check: J2 ++ C ++ S2 == M ?
