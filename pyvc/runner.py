"""pyvc.runner -- per-property orchestration: generate VCs from the current source, discharge them in a
process pool, refute / replay failures, run bounded stand-ins, write evidence, decide the exit code.

exit 0 every obligation discharged, every bounded stand-in passed (known findings printed)
exit 1 violation (VIOLATION property=<id> replay=<path>)
exit 2 undecided (solver unknown / unsupported construct / stale annotation)
exit 3 checker crash or vacuous run
"""
from __future__ import annotations

import argparse
import importlib
import json
import multiprocessing as mp
import os
import re
import sys
import time
import traceback

ROOT = os.path.dirname(os.path.dirname(os.path.abspath(__file__)))


def setup_src(src):
    """Make `import sqlfluff` resolve to <src>/sqlfluff (default: /repo/src, the editable install)."""
    if src:
        sys.path.insert(0, os.path.abspath(src))
    import sqlfluff
    base = os.path.abspath(src) if src else "/repo/src"
    got = os.path.dirname(os.path.dirname(os.path.abspath(sqlfluff.__file__)))
    if got != base:
        raise RuntimeError(f"sqlfluff imported from {got}, expected {base}")
    return got


def stable_id(name: str) -> str:
    return re.sub(r"/L\d+#\d+$", "", name)


def work(task):
    """Runs in a worker process: one function or lemma end to end."""
    kind, modname, key, prop, opts = task
    _no_tqdm_monitor()
    t0 = time.time()
    out = {"key": key, "kind": kind, "obligations": [], "undecided": [], "error": None, "sha": None, "file": None,
           "inlined": [], "callees": [], "externals": [], "search": None, "paths": 0}
    try:
        if opts.get("src"):
            sys.path.insert(0, opts["src"])
        sys.path.insert(0, ROOT)
        import z3
        mod = importlib.import_module(modname)
        from pyvc.dsl import CONTRACTS, LEMMAS
        from pyvc import verify, replay
        if kind == "lemma":
            gen = lambda b=None: verify.gen_lemma(LEMMAS[key], prop, bounded=b)
        else:
            gen = lambda b=None: verify.gen_function(CONTRACTS[key], prop, bounded=b)
        if kind == "function" and CONTRACTS[key].opts.get("native_only"):
            # outside the symbolic subset: the executable contract is only run on the real code (bounded stand-in)
            out["search"] = replay.search(CONTRACTS[key], opts.get("seed", 0), max(opts.get("native_tries", 0), 2000))
            out["native_only"] = True
            out["wall_s"] = round(time.time() - t0, 3)
            return out
        rep = gen()
        out.update(sha=rep.sha, file=rep.file, inlined=[list(x) for x in rep.inlined], callees=rep.callees,
                   externals=rep.externals, paths=rep.paths, undecided=list(rep.undecided))
        out["axioms"] = list(getattr(rep, "axioms", []))
        if rep.error:
            out["error"] = list(rep.error)
        shard, nshards = opts.get("shard", (0, 1))
        todo = [ob for i, ob in enumerate(rep.obligations) if i % nshards == shard]
        if opts.get("only"):
            todo = [ob for ob in todo if opts["only"] in ob.name]
        brep = None
        n_unknown = 0
        # opt-in per contract (Contract.opts): its own solver budget, and a cap on the number of undecided obligations after
        # which the rest of the function is reported undecided without being attempted (a collapsed proof, e.g. of changed
        # code, must not cost minutes per obligation)
        cop = CONTRACTS[key].opts if kind == "function" else {}
        if cop.get("timeout_ms") and not opts.get("timeout_override"):
            opts = dict(opts, timeout_ms=cop["timeout_ms"])
        max_unknown = cop.get("max_unknown")
        for ob in todo:
            if max_unknown is not None and n_unknown >= max_unknown and ob.kind != "vacuity":
                out["obligations"].append({"name": ob.name, "id": stable_id(ob.name), "kind": ob.kind, "status": "unknown", "backend": "",
                                           "time_s": 0.0, "line": ob.line,
                                           "note": f"not attempted: {max_unknown} obligations of this function are already undecided"})
                continue
            # the command-line back ends (cvc5, z3 4.8) are a fallback for the odd unstable query, not for a
            # function whose proof has collapsed: at most 2 fallbacks per function and run
            verify.solve_obligation(ob, timeout_ms=opts.get("timeout_ms", 10000),
                                    use_cli=(not opts.get("no_cli")) and n_unknown < 6)
            if ob.status == "unknown":
                n_unknown += 1
            rec = {"name": ob.name, "id": stable_id(ob.name), "kind": ob.kind, "status": ob.status, "backend": ob.backend,
                   "time_s": round(ob.time_s, 3), "line": ob.line, "note": ob.note}
            if ob.kind == "vacuity" and ob.status == "unknown":
                # the quantified precondition is too hard for a model search: look for a small model of the
                # bounded (quantifier-free) encoding instead
                if brep is None:
                    brep = gen(3)
                bv = [b for b in brep.obligations if b.kind == "vacuity"]
                if bv and bv[0].status == "discharged":
                    rec["status"] = "discharged"
                    rec["backend"] = "z3 (bounded encoding, lengths <= 3)"
                    rec["note"] = "requires is satisfiable (model of the bounded encoding)"
            if ob.status in ("sat", "unknown") and ob.kind != "vacuity":
                # refutation mode: bounded, quantifier-free re-encoding of the same obligation
                if brep is None:
                    brep = gen(3)
                match = [b for b in brep.obligations if stable_id(b.name) == stable_id(ob.name) and b.line == ob.line]
                bidx = [o for o in rep.obligations if stable_id(o.name) == stable_id(ob.name) and o.line == ob.line].index(ob)
                model_args = None
                if bidx < len(match):
                    b = match[bidx]
                    verify.solve_obligation(b, timeout_ms=opts.get("timeout_ms", 10000), use_cli=False, bounded=True)
                    rec["refutation"] = {"status": b.status, "time_s": round(b.time_s, 3), "bound": 3}
                    if b.status == "sat":
                        rec["status"] = "failed"
                        rec["backend"] = "z3-5.1.0 refutation mode (bound 3)"
                        rec["model"] = model_text(b.model, brep.inputs)
                        model_args = model_inputs(b.model, brep.inputs)
                if rec["status"] == "failed" and kind != "lemma":
                    rec["replay"] = replay.search(CONTRACTS[key], opts.get("seed", 0), opts.get("replay_tries", 3000), first_args=model_args)
            out["obligations"].append(rec)
        if kind != "lemma" and shard == 0 and opts.get("native_tries", 0) > 0:
            out["search"] = replay.search(CONTRACTS[key], opts.get("seed", 0), opts["native_tries"])
        vac_open = [r for r in out["obligations"] if r["kind"] == "vacuity" and r["status"] == "unknown"]
        if vac_open and kind != "lemma":
            # the solver could not produce a model of the (quantified) precondition in time: a concrete input that satisfies
            # the executable reading of `requires` is a witness of satisfiability too (and does not depend on solver load)
            srch = out.get("search")
            if not (srch and srch.get("admissible", 0) > 0):
                srch = replay.search(CONTRACTS[key], opts.get("seed", 0), 3000)
            if srch and srch.get("admissible", 0) > 0:
                for r in vac_open:
                    r["status"] = "discharged"
                    r["backend"] = "native witness (an input satisfying the executable precondition)"
                    r["note"] = f"requires is satisfiable: {srch['admissible']} generated inputs satisfy it"
    except Exception:
        out["error"] = ["crash", traceback.format_exc()[-3000:]]
    out["wall_s"] = round(time.time() - t0, 3)
    return out


def model_text(model, inputs):
    try:
        return {k: str(model.eval(v.z, model_completion=True))[:400] for k, v in inputs.items() if hasattr(v, "z")}
    except Exception as e:
        return {"error": repr(e)}


def model_inputs(model, inputs):
    from pyvc import replay
    from pyvc import ty as T
    import z3
    heap = {}
    for cls, fl in T.FIELD_TYPES.items():
        for fld, ft in fl.items():
            heap[(cls, fld)] = z3.Const(f"heap0_{cls}_{fld}", z3.ArraySort(z3.IntSort(), ft.sort()))
    try:
        return {k: replay.concretize(model, v, heap) if hasattr(v, "z") else v for k, v in inputs.items()}
    except Exception:
        return None


def load_known():
    p = os.path.join(ROOT, "known_findings.json")
    if not os.path.exists(p):
        return []
    with open(p) as f:
        return json.load(f).get("findings", [])


def _no_tqdm_monitor():
    """sqlfluff's progress bars start a tqdm monitor THREAD; a fork taken while that thread holds tqdm's class lock leaves the
    lock held for ever in the child (workers of the bounded checks' pools were seen stuck in tqdm.__new__).  No monitor thread,
    no stale lock: must run before anything creates a progress bar."""
    try:
        import tqdm
        tqdm.tqdm.monitor_interval = 0
    except Exception:
        pass


def main(argv=None):
    _no_tqdm_monitor()
    ap = argparse.ArgumentParser()
    ap.add_argument("prop")
    ap.add_argument("--tier", default=os.environ.get("VERIF_TIER", "quick"))
    ap.add_argument("--src", default=None)
    ap.add_argument("--replay", default=None)
    ap.add_argument("--no-evidence", action="store_true")
    ap.add_argument("--jobs", type=int, default=int(os.environ.get("PYVC_JOBS", min(16, os.cpu_count() or 4))))
    ap.add_argument("-v", action="store_true")
    ap.add_argument("--only", default=None, help="dev: solve only obligations whose name contains this")
    ap.add_argument("--fn", default=None, help="dev: only functions whose key contains this")
    ap.add_argument("--timeout", type=int, default=None)
    ap.add_argument("--no-cli", action="store_true")
    a = ap.parse_args(argv)
    t0 = time.time()
    prop = a.prop
    seed = int(os.environ.get("VERIF_SEED", "0"))
    tier = "thorough" if a.tier == "thorough" else "quick"
    modname = f"contracts.{prop.lower()}"
    sys.path.insert(0, ROOT)
    try:
        srcroot = setup_src(a.src)
        mod = importlib.import_module(modname)
    except Exception:
        traceback.print_exc()
        print(f"CHECKER-CRASH property={prop}: cannot load contracts")
        return 3
    from pyvc.dsl import CONTRACTS, LEMMAS
    if a.replay:
        return do_replay(prop, a.replay, mod)
    nshards = getattr(mod, "SHARDS", {})
    opts = {"src": os.path.abspath(a.src) if a.src else None, "seed": seed,
            "timeout_ms": getattr(mod, "TIMEOUT_MS", 10000) * (3 if tier == "thorough" else 1),
            "native_tries": getattr(mod, "NATIVE_TRIES", {"quick": 300, "thorough": 20000})[tier],
            "replay_tries": 3000 if tier == "quick" else 30000, "only": a.only, "no_cli": a.no_cli}
    if a.timeout:
        opts["timeout_ms"] = a.timeout
        opts["timeout_override"] = True
    if a.only or a.fn:
        opts["native_tries"] = 0
        a.no_evidence = True
    tasks = []
    for key, c in CONTRACTS.items():
        if c.kind == "verify" and prop in c.props and (not a.fn or a.fn in key):
            n = nshards.get(key, 1)
            for sh in range(n):
                tasks.append(("function", modname, key, prop, dict(opts, shard=(sh, n))))
    for name, l in LEMMAS.items():
        if prop in l.props and not getattr(l, "assumed", False):
            tasks.append(("lemma", modname, name, prop, dict(opts)))
    results = []
    if tasks:
        import concurrent.futures as cf
        ctx = mp.get_context("fork")
        budget = getattr(mod, "TASK_BUDGET_S", 900)
        with cf.ProcessPoolExecutor(max_workers=min(a.jobs, len(tasks)), mp_context=ctx) as pool:
            futs = [pool.submit(work, t) for t in tasks]
            for t, f in zip(tasks, futs):
                try:
                    results.append(f.result(timeout=budget))
                except Exception as e:   # worker died (BrokenProcessPool) or ran over its budget
                    results.append({"key": t[2], "kind": t[0], "obligations": [], "undecided": [], "sha": None, "file": None,
                                    "inlined": [], "callees": [], "externals": [], "search": None, "paths": 0,
                                    "error": ["crash", f"worker failed: {e!r}"]})
    # extra (non-SMT) obligations and bounded stand-ins declared by the property module
    extra = []
    for fn in getattr(mod, "EXTRA", []):
        try:
            extra.append(fn(tier, seed))
        except Exception:
            extra.append({"name": getattr(fn, "__name__", "extra"), "crash": traceback.format_exc()[-2000:]})
    bounded = []
    for fn in getattr(mod, "BOUNDED", []):
        try:
            bounded.append(fn(tier, seed))
        except Exception:
            bounded.append({"name": getattr(fn, "__name__", "bounded"), "crash": traceback.format_exc()[-2000:]})
    return report(prop, tier, seed, mod, results, extra, bounded, t0, a, srcroot)


def report(prop, tier, seed, mod, results, extra, bounded, t0, a, srcroot):
    known = [k for k in load_known() if k.get("property") == prop and k.get("status", "open") == "open"]
    known_ids = {k["id"]: k for k in known}
    obligations, discharged = 0, 0
    failed, undecided, crashes = [], [], []
    used_known = set()
    funcs, samples, backends = [], [], {}
    solver_time = 0.0
    trusted = set()
    inlined = set()
    native = {"evaluations": 0, "distinct": 0}
    for r in results:
        if r["error"]:
            (crashes if r["error"][0] == "crash" else undecided).append({"function": r["key"], "reason": r["error"]})
        for u in r["undecided"]:
            undecided.append({"function": r["key"], "reason": u})
        if not any(f["key"] == r["key"] for f in funcs):
            funcs.append({"key": r["key"], "kind": r["kind"] if not r.get("native_only") else "native-contract-only (bounded)",
                          "sha256": r["sha"], "file": r["file"], "paths": r["paths"]})
            from pyvc.dsl import REGIONS
            if r["key"] in REGIONS:
                r_from, r_to, ps = REGIONS[r["key"]]
                funcs[-1]["region"] = {"from_statement": r_from, "to_statement": r_to or "end of the enclosing block", "free_variables": ps,
                                       "dropped": "every statement of the function outside this range (extracted mechanically from the "
                                                  "real source on each run); the declared types of the free variables are assumptions"}
                trusted.add(f"region contract {r['key']}: the statements before the verified range establish the declared types of its free variables")
        for e in r["externals"]:
            trusted.add("assumed contract: " + e)
        for ax in r.get("axioms", []):
            trusted.add("assumed axiom (definitional, unchecked): " + ax)
        for k, sha in r["inlined"]:
            inlined.add(k)
        for ob in r["obligations"]:
            obligations += 1
            solver_time += ob["time_s"]
            if ob["status"] == "discharged":
                discharged += 1
                backends[ob["backend"]] = backends.get(ob["backend"], 0) + 1
                if len(samples) < 6 and ob["kind"] != "vacuity":
                    samples.append({"obligation": ob["name"], "backend": ob["backend"], "time_s": ob["time_s"]})
            elif ob["status"] == "failed":
                failed.append(dict(ob, function=r["key"]))
            else:
                undecided.append({"function": r["key"], "obligation": ob["name"], "reason": ob["status"], "refutation": ob.get("refutation")})
        s = r.get("search")
        if s:
            native["evaluations"] += s.get("admissible", 0)
            native["distinct"] += s.get("distinct", 0)
            if s.get("failure"):
                failed.append({"name": f"{prop}/{r['key'].replace(':', '.')}/native-contract-check", "id": f"{prop}/{r['key'].replace(':', '.')}/native-contract-check",
                               "kind": "bounded-native", "status": "failed", "function": r["key"], "replay": s, "backend": "CPython (bounded search)"})
            if s.get("errors"):
                crashes.append({"function": r["key"], "reason": ["native-contract-error", s.get("first_error")]})
    for e in extra:
        if e.get("crash"):
            crashes.append({"function": e["name"], "reason": ["crash", e["crash"]]})
            continue
        obligations += e.get("obligations", 0)
        discharged += e.get("discharged", 0)
        for f in e.get("failed", []):
            failed.append(f)
        for u in e.get("undecided", []):
            undecided.append(u)
        samples.extend(e.get("samples", [])[:3])
        for tb in e.get("trusted", []):
            trusted.add(tb)
        backends[e.get("backend", "evaluation")] = backends.get(e.get("backend", "evaluation"), 0) + e.get("discharged", 0)
    bounded_out = []
    for b in bounded:
        if b.get("crash"):
            crashes.append({"function": b["name"], "reason": ["crash", b["crash"]]})
            continue
        bounded_out.append({k: b[k] for k in b if k != "failed"})
        for f in b.get("failed", []):
            failed.append(f)
    # known findings
    violations = []
    for f in failed:
        kid = f.get("id") or stable_id(f["name"])
        if kid in known_ids and witness_matches(known_ids[kid], f):
            used_known.add(kid)
        else:
            violations.append(f)
    rc = 0
    lines = []
    for kid in sorted(used_known):
        lines.append(f"KNOWN-FINDING: property={prop} {known_ids[kid]['what']} [{kid}]")
    os.makedirs(os.path.join(ROOT, "replays", prop), exist_ok=True)
    for i, f in enumerate(violations):
        path = os.path.join(ROOT, "replays", prop, re.sub(r"[^A-Za-z0-9_.-]+", "_", f.get("id") or f["name"])[-150:] + f".{i}.json")
        rp = f.get("replay") or {}
        reproduced = bool(rp.get("failure")) or bool(f.get("reproduced"))
        with open(path, "w") as fh:
            json.dump({"property": prop, "obligation": f["name"], "function": f.get("function"), "status": f["status"],
                       "backend": f.get("backend"), "solver_model": f.get("model"), "refutation": f.get("refutation"),
                       "replay_on_real_code": rp, "reproduced_on_real_code": reproduced, "detail": f.get("detail"),
                       "source_root": srcroot, "rerun": f"./check {prop} --replay {path}"}, fh, indent=1, default=str)
        tail = "" if reproduced else " no-failing-input-found"
        lines.append(f"VIOLATION property={prop} replay={path}{tail}")
        rc = 1
    if rc == 0 and crashes:
        rc = 3
    if rc == 0 and undecided:
        rc = 2
    if rc == 0 and obligations == 0:
        lines.append(f"CHECKER-ERROR property={prop}: zero obligations generated")
        rc = 3
    stale_known = [k for k in known_ids if k not in used_known]
    wall = time.time() - t0
    level = getattr(mod, "LEVEL", "proof")
    cov = {
        "obligations": obligations, "discharged": discharged,
        "checker_cmd": f"./check {prop} --tier {tier}",
        "trusted_base": sorted(trusted) + list(getattr(mod, "TRUSTED", [])),
        "samples": samples or [{"note": "no discharged obligation"}],
        "functions_under_contract": funcs,
        "inlined_from_real_source": sorted(inlined),
        "backends": backends, "solver_time_s": round(solver_time, 2),
        "failed_obligations": [{"id": f.get("id"), "known": (f.get("id") in used_known)} for f in failed],
        "undecided": undecided[:40], "crashes": crashes[:10],
        "bounded_stand_ins": bounded_out,
        "native_contract_checks": dict(native, note="real function run under the executable contract on random small inputs (bounded; not counted as proved)"),
        "known_findings_reported": sorted(used_known), "known_findings_not_reproduced": stale_known,
        "not_covered": list(getattr(mod, "NOT_COVERED", [])),
        "explanation": getattr(mod, "EXPLANATION", ""),
        "exhaustive": bool(getattr(mod, "EXHAUSTIVE", False)),
    }
    if level != "proof" or getattr(mod, "GENERIC_COUNTS", False):
        ev = sum(b.get("evaluations", 0) for b in bounded_out) + native["evaluations"]
        dn = sum(b.get("distinct_nontrivial", 0) for b in bounded_out) + native["distinct"]
        cov.update(evaluations=max(ev, 1), distinct_nontrivial=dn, rule=getattr(mod, "RULE", "see bounded_stand_ins[*].rule"))
    evidence = {"property_id": prop, "tier": tier, "seed": seed, "level": level, "coverage": cov,
                "assumptions": ASSUMPTIONS + list(getattr(mod, "ASSUMPTIONS", [])), "wall_s": round(wall, 2),
                "violations": len(violations)}
    if not a.no_evidence:
        os.makedirs(os.path.join(ROOT, "evidence"), exist_ok=True)
        with open(os.path.join(ROOT, "evidence", f"{prop}.json"), "w") as fh:
            json.dump(evidence, fh, indent=1, default=str)
    print(f"[{prop}] tier={tier} functions={len(funcs)} obligations={obligations} discharged={discharged} "
          f"failed={len(failed)} known={len(used_known)} undecided={len(undecided)} crashes={len(crashes)} "
          f"native_checks={native['evaluations']} wall={wall:.1f}s exit={rc}")
    if a.v or rc not in (0,):
        for u in undecided[:20]:
            print("  UNDECIDED", json.dumps(u, default=str)[:600])
        for c in crashes[:5]:
            print("  CRASH", c["function"], str(c["reason"])[-1500:])
        for f in violations[:10]:
            print("  FAILED", f["name"], json.dumps(f.get("model"), default=str)[:300], json.dumps((f.get("replay") or {}).get("failure"), default=str)[:400])
    for l in lines:
        print(l)
    return rc


ASSUMPTIONS = [
    "A1 CPython 3.12 semantics for the translated subset, single-threaded",
    "A2 slices are closed with unit step",
    "A3 strings are sequences of code points (array view) / z3 characters (native view)",
    "A4 assumed contracts of library functions (trusted_base) are correct",
    "A5 assertions enabled (not python -O)",
    "A6 generators are consumed to exhaustion by their callers",
    "A7 distinct list parameters do not alias",
    "A8 z3 5.1.0 / z3 4.8.12 / cvc5 1.0.3 are sound on unsat",
    "dropped from the verified text: docstrings, logger calls, typing.cast, annotations, message texts",
]


def witness_matches(known, f):
    w = known.get("witness_contains")
    if not w:
        return True
    blob = json.dumps(f, default=str)
    return all(x in blob for x in ([w] if isinstance(w, str) else w))


def do_replay(prop, path, mod):
    with open(path) as fh:
        rp = json.load(fh)
    print(json.dumps({k: rp.get(k) for k in ("obligation", "function", "solver_model", "replay_on_real_code")}, indent=1, default=str)[:3000])
    from pyvc.dsl import CONTRACTS
    from pyvc import replay
    key = rp.get("function")
    if key in CONTRACTS:
        s = replay.search(CONTRACTS[key], 0, 3000)
        print("re-run on the current tree:", json.dumps(s, default=str)[:1500])
        if s.get("failure"):
            print(f"VIOLATION property={prop} replay={path}")
            return 1
    return 0


if __name__ == "__main__":
    sys.exit(main())
