"""pyvc.stmts -- statements, loops, calls with effects, and the per-function verification driver."""
from __future__ import annotations

import ast
import inspect
from types import SimpleNamespace

import z3

from . import ty as T
from . import ops
from .ty import SINK, INT, BOOL, CHAR, NONE, SLICE, TStr, TList, TTuple, TOpt, TRec, TRef, TSet, TDict, TEnum, Ty
from .dsl import CONTRACTS, SPECS, LEMMAS, Spec, Lemma, Contract
from .engine import (SDict, V, K, PyObj, STuple, BoundMethod, Unsupported, Stale, State, Obligation, Normalizer,
                     PURE_BUILTINS, PURE_METHODS, MUTATING_METHODS, none_v, mk_int, mk_bool, fresh, seq_arr,
                     seq_len, mk_seq, str_const, is_str, load_function, key_of, unwrap_callable, _is_logger_call)
from .ops import (coerce, to_v, truthy, is_none, val_eq, tuple_get, rec_get, rec_make, forall, exists, infer_ty,
                  seq_slice, seq_concat, seq_index, list_append, list_literal, fresh_seq, wf_assumptions, unwrap_opt)
from .exec import (Executor, ExcInfo, Outcome, NEXT, REF_BASE, REC_TYPES, REF_TYPES, EXTERNAL_ALIASES, CLASS_OBJ,
                   contract_ast, has_field, declaring_class, resolve_class, _globals_of)


class Namespace:
    """`old` in postconditions: attribute access resolves in the pre-state."""

    def __init__(self, env, heap):
        self.env = env
        self.heap = heap


class FullExecutor(Executor):
    # ------------------------------------------------------------------ old.<x>
    def getattr(self, st, base, attr):
        if isinstance(base, PyObj) and isinstance(base.o, Namespace):
            ns = base.o
            if attr not in ns.env:
                raise Stale(f"old.{attr}: no such parameter")
            v = ns.env[attr]
            if isinstance(v, V) and isinstance(v.ty, TRef):
                return PyObj(OldRef(v, ns))
            return v
        if isinstance(base, PyObj) and isinstance(base.o, OldRef):
            orf = base.o
            st2 = st.fork()
            st2.heap = dict(orf.ns.heap)
            r = Executor.getattr(self, st2, orf.v, attr)
            # new heap arrays created lazily in st2 are initial arrays: share them
            for k, a in st2.heap.items():
                if k not in orf.ns.heap:
                    orf.ns.heap[k] = a
                    if k not in st.heap:
                        st.heap[k] = a
            if isinstance(r, V) and isinstance(r.ty, TRef):
                return PyObj(OldRef(r, orf.ns))
            return r
        return Executor.getattr(self, st, base, attr)

    # ------------------------------------------------------------------ methods on values
    def apply_method(self, st, bm: BoundMethod, args, kwargs, node, stmt_level):
        recv, name = bm.recv, bm.name
        if isinstance(recv, V) and isinstance(recv.ty, TOpt):
            recv = unwrap_opt(recv)
        if isinstance(recv, K) and isinstance(recv.v, str):
            if name == "join":
                r = fresh(T.Text, "join")
                st.assume(seq_len(r) >= 0)
                return self.wrap(st, r, stmt_level)
            if name == "format":
                return self.wrap(st, fresh(T.Text, "fmt"), stmt_level)
            hint = next((a.ty for a in args if isinstance(a, V) and is_str(a.ty)), T.StrA)
            recv = coerce(recv, hint)
        if isinstance(recv, STuple):
            raise Unsupported(f"method {name} on tuple")
        sd = ops.sdict_of(recv)
        if sd is not None:
            return self.wrap(st, self.sdict_method(st, sd, name, args, kwargs, node), stmt_level)
        t = recv.ty
        if t == SINK:
            return self.wrap(st, fresh(SINK, "sink"), stmt_level)
        if isinstance(t, TList):
            r = self.list_method(st, recv, name, args, node)
            if r is not NotImplemented:
                return self.wrap(st, r, stmt_level)
            key = f"list.{name}"
        elif is_str(t) and t.view == "native" and name in ("startswith", "endswith", "find"):
            a0 = coerce(args[0], t)
            if name == "startswith":
                return self.wrap(st, V(BOOL, z3.PrefixOf(a0.z, recv.z)), stmt_level)
            if name == "endswith":
                return self.wrap(st, V(BOOL, z3.SuffixOf(a0.z, recv.z)), stmt_level)
            start = coerce(args[1], INT).z if len(args) > 1 else z3.IntVal(0)
            return self.wrap(st, V(INT, z3.IndexOf(recv.z, a0.z, start)), stmt_level)
        elif is_str(t):
            key = f"str.{name}"
        elif isinstance(t, TSet):
            r = self.set_method(st, recv, name, args, node)
            return self.wrap(st, r, stmt_level)
        elif isinstance(t, TDict):
            r = self.dict_method(st, recv, name, args, node)
            return self.wrap(st, r, stmt_level)
        elif isinstance(t, TRef) and t.cls in __import__("pyvc.dsl", fromlist=["DICT_CLASSES"]).DICT_CLASSES:
            if name == "get" and isinstance(args[0], K) and has_field(t.cls, args[0].v):
                v = self.heap_get(st, recv, args[0].v)
                dflt = args[1] if len(args) > 1 else K(None)
                if isinstance(v.ty, TOpt):
                    if isinstance(dflt, K) and dflt.v is None:
                        return self.wrap(st, v, stmt_level)
                    d = coerce(dflt, v.ty.inner)
                    return self.wrap(st, V(v.ty.inner, z3.If(is_none(v), d.z, unwrap_opt(v).z)), stmt_level)
                return self.wrap(st, v, stmt_level)
            raise Unsupported(f"dict object method {name}")
        elif isinstance(t, (TRec, TRef)):
            clsobj = resolve_class(t.cls) if isinstance(t, TRec) else CLASS_OBJ.get(t.cls)
            if clsobj is None:
                raise Unsupported(f"method {name} on {t}")
            if (isinstance(t, TRec) and name == "_replace" and not args and issubclass(clsobj, tuple) and hasattr(clsobj, "_fields")
                    and getattr(inspect.getattr_static(clsobj, "_replace"), "__module__", None) == "collections"   # the generated one
                    and all(k in t.fields for k in kwargs)):
                # NamedTuple._replace(field=value, ...): a copy of the record with the named fields replaced
                vals = {f: rec_get(recv, f) for f in t.fields}
                vals.update(kwargs)
                return self.wrap(st, rec_make(t, vals), stmt_level)
            o = inspect.getattr_static(clsobj, name)
            if isinstance(o, staticmethod):
                return self.call_function(st, o.__func__, args, kwargs, stmt_level=stmt_level, node=node)
            if isinstance(o, classmethod):
                return self.call_function(st, o.__func__, [PyObj(clsobj)] + args, kwargs, stmt_level=stmt_level, node=node)
            return self.call_function(st, o, [recv] + args, kwargs, stmt_level=stmt_level, node=node, owner=clsobj)
        else:
            raise Unsupported(f"method {name} on {t}")
        c = CONTRACTS.get(key)
        if c is None:
            raise Unsupported(f"no assumed contract for {key}")
        return self.call_contract(st, c, [recv] + args, kwargs, stmt_level, node)

    def sdict_method(self, st, sd, name, args, kwargs, node):
        rn = self.recv_node(node)
        if name == "update":
            items = dict(sd.items)
            for a in args:
                o = ops.sdict_of(a)
                if o is None:
                    raise Unsupported("dict.update with a non-structural dict")
                items.update(o.items)
            items.update(kwargs)
            self.assign_lvalue(st, rn, SDict(items))
            return K(None)
        if name == "get":
            if not (isinstance(args[0], K) and isinstance(args[0].v, str)):
                raise Unsupported("dict.get with non-constant key")
            if args[0].v in sd.items:
                return sd.items[args[0].v]
            return args[1] if len(args) > 1 else K(None)
        if name == "copy":
            return SDict(sd.items)
        if name == "keys":
            return STuple([K(k) for k in sd.items])
        raise Unsupported(f"dict.{name} on structural dict")

    # ------------------------------------------------------------------ folds (lemma instances at list updates)
    def fold_append(self, st, old, item, new):
        """new == old ++ [item]: for every registered fold, the prefix lemma at k = len(old).  Its premise (the two
        lists agree below k) is emitted as an obligation of its own; its conclusion is then assumed, together with
        the definitional unfolding of the fold at the new length."""
        from .dsl import FOLDS
        from .exec import unfold_equations
        for upto, prefix, concat in FOLDS.get(old.ty.key, []):
            n = seq_len(old)
            j = z3.Int(T.fresh_name("qf"))
            prem = forall([j], z3.Implies(z3.And(0 <= j, j < n), z3.Select(seq_arr(new), j) == z3.Select(seq_arr(old), j)))
            self.emit(st, "fold-pre", prefix.name, prem)
            a = self.apply_spec(st, upto, [new, V(INT, n)], {})
            b = self.apply_spec(st, upto, [old, V(INT, n)], {})
            st.assume(val_eq(a, b))
            top = self.apply_spec(st, upto, [new, V(INT, n + 1)], {})
            for eq in unfold_equations(top.z):
                st.assume(eq)

    def fold_concat(self, st, a, b, new):
        """new == a ++ b: premises of the prefix / concat lemmas as obligations, conclusions assumed."""
        from .dsl import FOLDS
        for upto, prefix, concat in FOLDS.get(a.ty.key, []):
            la, lb = seq_len(a), seq_len(b)
            j = z3.Int(T.fresh_name("qf"))
            prem = z3.And(seq_len(new) == la + lb,
                          forall([j], z3.Implies(z3.And(0 <= j, j < la), z3.Select(seq_arr(new), j) == z3.Select(seq_arr(a), j))),
                          forall([j], z3.Implies(z3.And(0 <= j, j < lb), z3.Select(seq_arr(new), la + j) == z3.Select(seq_arr(b), j))))
            self.emit(st, "fold-pre", (concat or prefix).name, prem)
            x = self.apply_spec(st, upto, [new, V(INT, la)], {})
            y = self.apply_spec(st, upto, [a, V(INT, la)], {})
            st.assume(val_eq(x, y))
            if concat is not None:
                whole = self.apply_spec(st, upto, [new, V(INT, la + lb)], {})
                fb = self.apply_spec(st, upto, [b, V(INT, lb)], {})
                st.assume(val_eq(whole, self.binop(st, ast.Add(), y, fb)))

    def append_to(self, st, lst, item):
        new = list_append(lst, coerce(item, lst.ty.elem), st)
        self.fold_append(st, lst, item, new)
        return new

    def concat_lists(self, st, a, b):
        new = seq_concat(a, b, st)
        self.fold_concat(st, a, b, new)
        return new

    def recv_node(self, node):
        return node.func.value if isinstance(node, ast.Call) and isinstance(node.func, ast.Attribute) else None

    def list_method(self, st, recv, name, args, node):
        rn = self.recv_node(node)
        if name == "append":
            self.assign_lvalue(st, rn, self.append_to(st, recv, args[0]))
            return K(None)
        if name == "extend":
            other = args[0]
            if isinstance(other, STuple):
                cur = recv
                for it in other.items:
                    cur = self.append_to(st, cur, it)
                self.assign_lvalue(st, rn, cur)
                return K(None)
            self.assign_lvalue(st, rn, self.concat_lists(st, recv, coerce(other, recv.ty)))
            return K(None)
        if name == "pop":
            ln = seq_len(recv)
            self.emit(st, "bounds", "pop-nonempty", ln > 0, note="IndexError otherwise")
            if not args:
                item = V(recv.ty.elem, z3.Select(seq_arr(recv), ln - 1))
                self.assign_lvalue(st, rn, mk_seq(recv.ty, seq_arr(recv), ln - 1))
                return item
            iz = z3.simplify(coerce(args[0], INT).z)
            if z3.is_int_value(iz) and iz.as_long() == 0:
                item = V(recv.ty.elem, z3.Select(seq_arr(recv), 0))
                self.assign_lvalue(st, rn, seq_slice(recv, z3.IntVal(1), None, st))
                return item
            raise Unsupported("pop(i)")
        if name == "copy":
            return recv
        if name == "clear":
            self.assign_lvalue(st, rn, mk_seq(recv.ty, seq_arr(recv), z3.IntVal(0)))
            return K(None)
        if name == "insert":
            iz = z3.simplify(coerce(args[0], INT).z)
            if z3.is_int_value(iz) and iz.as_long() == 0:
                one = list_literal([coerce(args[1], recv.ty.elem)], recv.ty)
                self.assign_lvalue(st, rn, seq_concat(one, recv, st))
                return K(None)
            raise Unsupported("insert(i)")
        return NotImplemented

    def set_method(self, st, recv, name, args, node):
        rn = self.recv_node(node)
        t = recv.ty
        if name == "add":
            self.assign_lvalue(st, rn, V(t, z3.Store(recv.z, coerce(args[0], t.elem).z, True)))
            return K(None)
        if name == "discard":
            self.assign_lvalue(st, rn, V(t, z3.Store(recv.z, coerce(args[0], t.elem).z, False)))
            return K(None)
        if name in ("update", "union"):
            other = self.set_of(st, args[0])
            x = z3.Const(T.fresh_name("qx"), t.elem.sort())
            r = fresh(t, "union")
            st.assume(z3.ForAll([x], z3.Select(r.z, x) == z3.Or(z3.Select(recv.z, x), z3.Select(other.z, x))))
            if name == "update":
                self.assign_lvalue(st, rn, r)
                return K(None)
            return r
        if name == "copy":
            return recv
        raise Unsupported(f"set.{name}")

    def dict_method(self, st, recv, name, args, node):
        t = recv.ty
        s = t.sort()
        if name == "get":
            k = coerce(args[0], t.k)
            present = z3.Select(s.dom(recv.z), k.z)
            val = V(t.v, z3.Select(s.val(recv.z), k.z))
            if len(args) > 1 and not (isinstance(args[1], K) and args[1].v is None and not isinstance(t.v, TOpt)):
                d = coerce(args[1], t.v)
                return V(t.v, z3.If(present, val.z, d.z))
            ot = TOpt(t.v) if not isinstance(t.v, TOpt) else t.v
            return V(ot, z3.If(present, coerce(val, ot).z, ot.sort().none))
        if name == "copy":
            return recv
        if name == "keys" and not args:
            return V(TSet(t.k), s.dom(recv.z))     # the keys view, as the set of keys (iteration order is not modelled)
        if name == "items" and not args:
            # the items view, as a fresh list of (key, value) tuples in an ARBITRARY order (iteration order is not modelled):
            # every element is an item of the dict, keys are pairwise distinct, every key of the dict occurs (witness index)
            et = TTuple(t.k, t.v)
            r = fresh_seq(TList(et), st, "items")
            ts = et.sort()
            kf, vf = ts.accessor(0, 0), ts.accessor(0, 1)
            n, arr = seq_len(r), seq_arr(r)
            i, j = z3.Int(T.fresh_name("qit")), z3.Int(T.fresh_name("qit"))
            st.assume(forall([i], z3.Implies(z3.And(0 <= i, i < n),
                                             z3.And(z3.Select(s.dom(recv.z), kf(z3.Select(arr, i))),
                                                    z3.Select(s.val(recv.z), kf(z3.Select(arr, i))) == vf(z3.Select(arr, i))))))
            st.assume(forall([i, j], z3.Implies(z3.And(0 <= i, i < j, j < n), kf(z3.Select(arr, i)) != kf(z3.Select(arr, j)))))
            x = z3.Const(T.fresh_name("qk"), t.k.sort())
            wit = z3.Function(T.fresh_name("itemw"), t.k.sort(), z3.IntSort())
            st.assume(forall([x], z3.Implies(z3.Select(s.dom(recv.z), x),
                                             z3.And(0 <= wit(x), wit(x) < n, kf(z3.Select(arr, wit(x))) == x))))
            return r
        if name == "values" and not args:
            # the values view, as a fresh list in an ARBITRARY order (iteration order is not modelled; two calls are not assumed to
            # agree): element i is the value stored under a key kf(i) of the dict; every key has such a position (that each key is
            # enumerated ONCE is not assumed: nothing proved so far needs it, and the pairwise axiom is costly for the solver)
            r = fresh_seq(TList(t.v), st, "values")
            n, arr = seq_len(r), seq_arr(r)
            kf = z3.Function(T.fresh_name("valkey"), z3.IntSort(), t.k.sort())
            i = z3.Int(T.fresh_name("qvl"))
            st.assume(forall([i], z3.Implies(z3.And(0 <= i, i < n),
                                             z3.And(z3.Select(s.dom(recv.z), kf(i)), z3.Select(arr, i) == z3.Select(s.val(recv.z), kf(i))))))
            x = z3.Const(T.fresh_name("qk"), t.k.sort())
            wit = z3.Function(T.fresh_name("valw"), t.k.sort(), z3.IntSort())
            st.assume(forall([x], z3.Implies(z3.Select(s.dom(recv.z), x), z3.And(0 <= wit(x), wit(x) < n, kf(wit(x)) == x))))
            return r
        raise Unsupported(f"dict.{name}")

    # ------------------------------------------------------------------ constructing objects
    def construct(self, st, cls, args, kwargs, node, stmt_level):
        if cls is dict and len(args) == 1 and not kwargs and isinstance(args[0], V) and isinstance(args[0].ty, TDict):
            return self.wrap(st, args[0], stmt_level)      # dict(d): a (shallow) copy -- containers are values here
        if cls in REC_TYPES:
            rt = REC_TYPES[cls]
            names = list(rt.fields)
            vals = {}
            for n, a in zip(names, args):
                vals[n] = a
            vals.update(kwargs)
            defaults = getattr(cls, "_field_defaults", {})
            for n in names:
                if n not in vals:
                    if n in defaults:
                        vals[n] = self.lift_py(defaults[n])
                    else:
                        raise Unsupported(f"{cls.__name__}(): missing field {n}")
            return self.wrap(st, rec_make(rt, vals), stmt_level)
        if inspect.isclass(cls) and issubclass(cls, BaseException):
            # an exception class of a declared (heap) family built as a *value* (violations are exception objects):
            # allocate it and apply the nearest constructor contract up the MRO (assumed to cover the subclass)
            for base in inspect.getmro(cls):
                bc = CONTRACTS.get(f"{base.__module__}:{base.__qualname__}.__init__") or CONTRACTS.get(f"{base.__module__}:{base.__qualname__}")
                if base in REF_TYPES and bc is not None and bc.kind != "inline":
                    ref = self.alloc(st, REF_TYPES[base])
                    hook = CLASS_OF_HOOK.get(REF_TYPES[base].cls)
                    if hook is not None:
                        hook(self, st, ref, cls)
                    outs = self.call_contract(st, bc, [ref] + args, kwargs, True, node, real_fn=base.__init__)
                    res = [(s2, Outcome("value", ref) if oc.kind == "value" else oc) for s2, oc in outs]
                    if stmt_level:
                        return res
                    if len(res) == 1 and res[0][1].kind == "value":
                        return ref
                    raise Unsupported("constructor that may raise in expression position")
            return self.wrap(st, PyObj(("exc", cls, args)), stmt_level)
        k = key_of(cls.__init__) if hasattr(cls, "__init__") else None
        ck = f"{cls.__module__}:{cls.__qualname__}"
        c = CONTRACTS.get(ck) or CONTRACTS.get(ck + ".__init__")
        if (c is None or cls not in REF_TYPES) and inspect.isclass(cls):
            # a subclass that does not define its own constructor: the contract of the constructor it inherits applies
            for base in inspect.getmro(cls)[1:]:
                if "__init__" in cls.__dict__:
                    break
                bk = f"{base.__module__}:{base.__qualname__}"
                bc = CONTRACTS.get(bk) or CONTRACTS.get(bk + ".__init__")
                if bc is not None and base in REF_TYPES and bc.kind != "inline":
                    c, cls = bc, base
                    break
                if "__init__" in base.__dict__:
                    break
        if c is not None and cls in REF_TYPES:
            ref = self.alloc(st, REF_TYPES[cls])
            outs = self.call_contract(st, c, [ref] + args, kwargs, True, node, real_fn=cls.__init__)
            res = []
            for s2, oc in outs:
                if oc.kind == "value":
                    res.append((s2, Outcome("value", ref)))
                else:
                    res.append((s2, oc))
            if stmt_level:
                return res
            if len(res) == 1 and res[0][1].kind == "value":
                return ref
            raise Unsupported("constructor that may raise in expression position")
        raise Unsupported(f"construction of {cls.__name__}")

    def alloc(self, st, rt: TRef) -> V:
        r = fresh(rt, "new_" + rt.cls)
        if getattr(self, "loop_depth", 0) > 0:
            # LIMITATION (listed in the evidence): the arbitrary iteration that stands for all iterations allocates at ONE
            # symbolic address, so two objects allocated in different iterations are not known to be distinct
            self.externals_used.add("engine limitation: an object allocated inside a verified loop is not distinguished from the "
                                    f"objects allocated by other iterations of that loop ({rt.cls})")
        # fresh: distinct from every reference that existed before
        nxt = st.ghost.get("__alloc__", z3.IntVal(1 << 20))
        st.assume(r.z == nxt)
        st.ghost["__alloc__"] = nxt + 1
        return r

    # ------------------------------------------------------------------ calling real functions
    def call_function(self, st, fn, args, kwargs, stmt_level=False, node=None, expr_only=False, owner=None):
        fn, kind = unwrap_callable(fn)
        import io as _io
        if id(fn) in EXTERNAL_ALIASES:
            key = EXTERNAL_ALIASES[id(fn)]
        elif isinstance(getattr(fn, "__self__", None), _io.IOBase):
            key = f"io:{fn.__name__}"
        else:
            key = key_of(fn)
        if key in SINK_FUNCTIONS:
            return self.wrap(st, fresh(SINK, "sink"), stmt_level)
        c = CONTRACTS.get(key)
        if c is None and owner is not None:
            # an override without its own contract: an *assumed* (external) contract on a base class method is
            # taken to cover every override (that is what the assumption says)
            for base in inspect.getmro(owner):
                cand = CONTRACTS.get(f"{base.__module__}:{base.__qualname__}.{fn.__name__}")
                if cand is not None and (cand.kind == "external" or cand.opts.get("covers_overrides")):
                    c = cand
                    break
        if c is None:
            raise Unsupported(f"call to {key}: no contract, not inlined, not in the external table (line {self.cur_line})")
        if c.kind == "inline" or (c.opts.get("inline_at_calls") and c.key != self.c.key):
            return self.inline_call(st, c, fn, args, kwargs, stmt_level, expr_only)
        return self.call_contract(st, c, args, kwargs, stmt_level, node, real_fn=fn)

    def bind_params(self, fn_or_params, defaults, args, kwargs):
        params = list(fn_or_params)
        env = {}
        for p, a in zip(params, args):
            env[p] = a
        if len(args) > len(params):
            raise Unsupported("too many positional arguments")
        for k, v in kwargs.items():
            if k not in params:
                raise Unsupported(f"unexpected keyword {k}")
            env[k] = v
        for p in params:
            if p not in env:
                if p in defaults:
                    env[p] = self.lift_py(defaults[p])
                else:
                    raise Unsupported(f"missing argument {p}")
        return env

    def real_signature(self, fn):
        sig = inspect.signature(fn)
        params, defaults = [], {}
        for n, p in sig.parameters.items():
            if p.kind in (p.VAR_POSITIONAL, p.VAR_KEYWORD):
                continue
            params.append(n)
            if p.default is not p.empty:
                defaults[n] = p.default
        return params, defaults

    def inline_call(self, st, c, fn, args, kwargs, stmt_level, expr_only=False):
        node, rfn, kind, sha, fname, owner = load_function(c.key)
        self.inlined.add((c.key, sha))
        params, defaults = self.real_signature(rfn)
        env = self.bind_params(params, defaults, args, kwargs)
        body = self.normalise(node.body)
        saved_env, saved_g = st.env, st.ghost.get("__globals__")
        st.env = env
        st.ghost["__globals__"] = _globals_of(rfn)
        self.depth += 1
        if self.depth > 12:
            raise Unsupported("inlining depth")
        self.owner_stack.append(owner)
        try:
            outs = self.exec_block(st, body)
        finally:
            self.depth -= 1
            self.owner_stack.pop()
        res = []
        for s2, oc in outs:
            s2.env = dict(saved_env) if len(outs) > 1 else saved_env
            s2.ghost["__globals__"] = saved_g
            if oc.kind == "return":
                res.append((s2, Outcome("value", oc.value if oc.value is not None else K(None))))
            elif oc.kind == "next":
                res.append((s2, Outcome("value", K(None))))
            elif oc.kind in ("raise", "unsupported"):
                res.append((s2, oc))
            else:
                raise Unsupported("break/continue escaping inlined function")
        if stmt_level:
            return res
        vals = [(s2, oc) for s2, oc in res if oc.kind == "value"]
        if len(res) == 1 and len(vals) == 1:
            s2 = vals[0][0]
            st.pc, st.heap, st.env = s2.pc, s2.heap, saved_env
            return vals[0][1].value
        if len(vals) == len(res) and all(isinstance(oc.value, V) for _, oc in vals):
            # merge the value paths of a pure helper with if-then-else on the path conditions
            n0 = len(st.pc)
            base = st.pc[:n0]
            merged = None
            for s2, oc in reversed(vals):
                cond = z3.And(*s2.pc[n0:]) if len(s2.pc) > n0 else z3.BoolVal(True)
                if merged is None:
                    merged = oc.value
                else:
                    a, b = self.unify_pair(oc.value, merged)
                    merged = V(a.ty, z3.If(cond, a.z, b.z))
            st.env = saved_env
            return merged
        raise Unsupported(f"inlined {c.key} forks or raises in expression position")

    def normalise(self, body):
        nz = Normalizer(self.is_pure_call_node)
        nz.n = self.tmp_base
        out = nz.block(body)
        self.tmp_base = nz.n
        for s in out:
            ast.fix_missing_locations(s)
        return out

    tmp_base = 0

    def is_pure_call_node(self, n: ast.Call) -> bool:
        f = n.func
        if isinstance(f, ast.Name):
            if f.id in PURE_BUILTINS:
                return True
            if f.id in SPECS or f.id in LEMMAS or f.id in ("implies", "iff"):
                return True
            return False
        if isinstance(f, ast.Attribute):
            if _is_logger_call(n):
                return True
            if f.attr in PURE_METHODS:
                return True
            return False
        return False

    # ------------------------------------------------------------------ modular call
    def call_contract(self, st, c: Contract, args, kwargs, stmt_level, node, real_fn=None):
        """Replace a call by the callee's contract: assert requires, havoc modifies, assume ensures/raises."""
        if c.kind == "external":
            self.externals_used.add(c.key)
        else:
            self.callees.add(c.key)
        proto = c.ensures or c.requires
        if c.params is not None:
            params, defaults = list(c.params), {}
        elif real_fn is not None and c.kind != "external":
            params, defaults = self.real_signature(real_fn)
        elif proto is not None:
            _, ps = contract_ast(proto)
            params = [p for p in ps if p not in ("result", "old") and p not in c.ghost_out]
            defaults = {p: d for p, d in zip(reversed(params), reversed(proto.__defaults__ or ()))} if proto.__defaults__ else {}
            # defaults apply to the trailing params of the full signature (result/old come last, no defaults)
            if proto.__defaults__:
                full = [p for p in ps]
                nd = len(proto.__defaults__)
                defaults = dict(zip(full[len(full) - nd:], proto.__defaults__))
        else:
            params, defaults = [], {}
        env = self.bind_params(params, defaults, args, kwargs)
        for p, t in c.types.items():
            if p in env and isinstance(t, Ty):
                env[p] = coerce(env[p], t)
        bind = dict(env)
        tag = c.key.split(":")[-1]
        if c.requires is not None:
            st_req = st.fork()
            st_req.ghost["__globals__"] = st.ghost.get("__globals__")
            pre = self.eval_contract(st_req, c.requires, bind)
            extra = st_req.pc[len(st.pc):]
            goal = z3.Implies(z3.And(*extra), pre) if extra else pre
            self.emit(st, "call-pre", tag, goal)
        old_ns = Namespace(dict(env), dict(st.heap))
        outs = []
        # exceptional exits
        for exc_name, cond in c.raises.items():
            if not stmt_level:
                if cond is None:
                    raise Unsupported(f"call to {c.key} may raise {exc_name} in expression position")
            s2 = st.fork()
            if cond is not None:
                s2.assume(self.eval_contract(s2, cond, bind))
            cls = resolve_exc(exc_name, c)
            if stmt_level:
                if self.feasible(s2):
                    self.havoc_modifies(s2, c, env, node)
                    erp = c.hints.get("on_raise") if c.kind == "external" else None
                    if erp is not None:
                        # an ASSUMED (external) contract may state the state a raising exit leaves behind: its
                        # hint_on_raise(params..., old, exc_class) is assumed after the havoc of `modifies` (for contracts
                        # of kind "verify" hint_on_raise stays what it was: an obligation of the callee, unused here)
                        rb = dict(env)
                        rb["old"] = PyObj(old_ns)
                        rb["exc_class"] = K(cls.__name__)
                        _, rps = contract_ast(erp)
                        s2.assume(self.eval_contract(s2, erp, {k: v for k, v in rb.items() if k in rps}))
                    outs.append((s2, Outcome("raise", ExcInfo(cls, or_subclass=exc_name.endswith("+"), line=self.cur_line,
                                                              value=list(args) if c.kind == "external" else None))))
            else:
                # expression position: the exceptional case must be impossible here
                self.emit(st, "no-raise", f"{tag}:{exc_name}", z3.Not(z3.And(*s2.pc[len(st.pc):])) if len(s2.pc) > len(st.pc) else z3.BoolVal(False))
        # normal exit
        s3 = st.fork() if stmt_level else st
        for exc_name, cond in c.raises.items():
            if cond is not None and c.opts.get("raises_iff", True):
                s3.assume(z3.Not(self.eval_contract(s3, cond, bind)))
        new_env = self.havoc_modifies(s3, c, env, node)
        result = None
        if c.ret is not None and c.functional and not c.modifies and all(isinstance(env[p], (V, K, STuple)) for p in params):
            # deterministic pure function: the result is an uninterpreted function of the arguments, so that a
            # call under a quantifier denotes a different value for each instance
            from .exec import REC_DECLS
            cargs = [to_v(env[p]) for p in params]
            fk = "fn:" + c.key + ":" + ",".join(str(a.ty) for a in cargs)
            if fk not in REC_DECLS:
                REC_DECLS[fk] = z3.Function("fn_" + T._mangle(c.key), *[a.ty.sort() for a in cargs], c.ret.sort())
            result = V(c.ret, REC_DECLS[fk](*[a.z for a in cargs]))
            wf_assumptions(result, s3)
            if c.ensures is not None:
                # the contract as one quantified axiom over the function symbol (triggered on the application)
                axk = "axiom:" + fk
                if axk not in REC_DECLS:
                    formals = [fresh(a.ty, "ax_" + p) for p, a in zip(params, cargs)]
                    sub = State()
                    sub.ghost["__globals__"] = st.ghost.get("__globals__")
                    fb = dict(zip(params, formals))
                    pre = self.eval_contract(sub, c.requires, fb) if c.requires is not None else z3.BoolVal(True)
                    app = REC_DECLS[fk](*[f.z for f in formals])
                    fb2 = dict(fb)
                    for gname, gty in c.ghost_out.items():
                        gty = gty[1] if isinstance(gty, tuple) else gty
                        # ghost outputs of a deterministic function are functions of its arguments too
                        gd = z3.Function("ghost_" + T._mangle(c.key) + "_" + gname, *[f.ty.sort() for f in formals], gty.sort())
                        fb2[gname] = V(gty, gd(*[f.z for f in formals]))
                    fb2["result"] = V(c.ret, app)
                    post = self.eval_contract(sub, c.ensures, {k: v for k, v in fb2.items() if k in contract_ast(c.ensures)[1]})
                    body = z3.Implies(z3.And(pre, *sub.pc) if sub.pc else pre, post)
                    REC_DECLS[axk] = z3.ForAll([f.z for f in formals], body, patterns=[app])
                s3.assume(REC_DECLS[axk])
                val = result
                if stmt_level:
                    outs.append((s3, Outcome("value", val)))
                    return outs
                return val
        elif c.ret is not None:
            result = fresh_seq(c.ret, s3, "r_" + tag.replace(".", "_")) if isinstance(c.ret, (TList, TStr)) else fresh(c.ret, "r_" + tag.replace(".", "_"))
            wf_assumptions(result, s3)
        if c.ensures is not None:
            b2 = dict(new_env)
            for gname, gty in c.ghost_out.items():
                gty = gty[1] if isinstance(gty, tuple) else gty
                b2[gname] = fresh(gty, "ghost_" + gname)   # existentially quantified witness
            b2["result"] = result if result is not None else K(None)
            b2["old"] = PyObj(old_ns)
            if c.params is not None:
                for pn in c.params:       # a real parameter named like a reserved word is not visible to ensures
                    if pn in ("result", "old"):
                        b2.pop(pn, None)
                b2["result"] = result if result is not None else K(None)
                b2["old"] = PyObj(old_ns)
            s3.assume(self.eval_contract(s3, c.ensures, {k: v for k, v in b2.items() if k in contract_ast(c.ensures)[1]}))
        val = result if result is not None else K(None)
        if stmt_level:
            outs.append((s3, Outcome("value", val)))
            return outs
        return val

    def havoc_modifies(self, st, c, env, node):
        new_env = dict(env)
        for m in c.modifies:
            if m.startswith("heap:"):
                cls, fld = m[5:].split(".")
                k, arr, ft = self.heap_arr(st, cls, fld)
                st.heap[k] = z3.Const(T.fresh_name(f"heap_{cls}_{fld}"), arr.sort())
                continue
            if "." in m:
                p, fld = m.split(".", 1)
                ref = env[p]
                if isinstance(ref, V) and isinstance(ref.ty, TOpt):
                    ref = unwrap_opt(ref)
                k, arr, ft = self.heap_arr(st, ref.ty.cls, fld)
                nv = fresh(ft, f"mod_{fld}")
                wf_assumptions(nv, st)
                st.heap[k] = z3.Store(arr, ref.z, nv.z)
                continue
            # a mutable argument (list): the variable passed at the call site gets a fresh value
            old = env[m]
            if not isinstance(old, V):
                raise Unsupported(f"modifies {m}: argument is not a symbolic value")
            nv = fresh(old.ty, f"mod_{m}")
            wf_assumptions(nv, st)
            new_env[m] = nv
            # find the argument expression in the call node
            argn = self.arg_node(c, m, node)
            if argn is None:
                raise Unsupported(f"modifies {m}: cannot find the argument expression")
            self.assign_lvalue(st, argn, nv)
        return new_env

    def arg_node(self, c, pname, node):
        if node is None:
            return None
        proto = c.ensures or c.requires
        try:
            fn, _ = unwrap_callable(resolve_key_safe(c.key))
            params = [p for p in inspect.signature(fn).parameters]
        except Exception:
            params = [p for p in contract_ast(proto)[1] if p not in ("result", "old")]
        is_method = isinstance(node.func, ast.Attribute) and params and params[0] in ("self", "cls")
        pos = params.index(pname)
        if is_method:
            if pos == 0:
                return node.func.value
            pos -= 1
        if pos < len(node.args):
            return node.args[pos]
        for k in node.keywords:
            if k.arg == pname:
                return k.value
        return None

    # ------------------------------------------------------------------ statements
    def exec_block(self, st, stmts):
        """Execute statements; returns list of (state, Outcome) with kinds next/return/raise/break/continue."""
        cur = [(st, NEXT)]
        for s in stmts:
            nxt = []
            for s1, oc in cur:
                if oc.kind != "next":
                    nxt.append((s1, oc))
                    continue
                try:
                    nxt.extend(self.exec_stmt(s1, s))
                except Unsupported as ex:
                    nxt.append((s1, Outcome("unsupported", f"{ex} [line {getattr(s, 'lineno', self.cur_line)}]")))
            cur = nxt
            if len(cur) > 4000:
                raise Unsupported("path explosion (>4000 paths)")
        return cur

    def exec_stmt(self, st, s):
        self.cur_line = getattr(s, "lineno", self.cur_line)
        m = getattr(self, "s_" + s.__class__.__name__, None)
        if m is None:
            raise Unsupported(f"statement {s.__class__.__name__}")
        return m(st, s)

    def s_Pass(self, st, s):
        return [(st, NEXT)]

    def s_Import(self, st, s):
        raise Unsupported("import inside function")

    s_ImportFrom = s_Import

    def s_Global(self, st, s):
        return [(st, NEXT)]

    def s_Break(self, st, s):
        return [(st, Outcome("break"))]

    def s_Continue(self, st, s):
        return [(st, Outcome("continue"))]

    def s_Return(self, st, s):
        v = self.eval(st, s.value) if s.value is not None else K(None)
        return [(st, Outcome("return", v))]

    def s_Expr(self, st, s):
        v = s.value
        if isinstance(v, ast.Yield):
            val = self.eval(st, v.value) if v.value is not None else K(None)
            y = st.ghost.get("__yielded__")
            if y is None:
                raise Unsupported("yield in a function without ghost_yield type")
            st.ghost["__yielded__"] = list_append(y, coerce(val, y.ty.elem), st)
            return [(st, NEXT)]
        if isinstance(v, ast.YieldFrom):
            val = self.eval(st, v.value)
            y = st.ghost.get("__yielded__")
            st.ghost["__yielded__"] = seq_concat(y, coerce(val, y.ty), st)
            return [(st, NEXT)]
        if isinstance(v, ast.Call):
            outs = self.exec_call(st, v)
            return [(s2, NEXT if oc.kind == "value" else oc) for s2, oc in outs]
        self.eval(st, v)
        return [(st, NEXT)]

    def exec_call(self, st, call: ast.Call):
        if _is_logger_call(call):
            return [(st, Outcome("value", K(None)))]
        f = self.eval(st, call.func)
        if any(isinstance(a, ast.Starred) for a in call.args):
            raise Unsupported("star-args in call")
        if isinstance(f, PyObj) and f.o in (all, any, sum) and len(call.args) == 1 and isinstance(call.args[0], (ast.GeneratorExp, ast.ListComp)):
            return [(st, Outcome("value", self.quantified(st, f.o, call.args[0])))]
        if self.is_ifquant(f) and len(call.args) == 1 and isinstance(call.args[0], (ast.GeneratorExp, ast.ListComp)):
            return [(st, Outcome("value", self.quantified_choice(st, f, call.args[0])))]
        args = [self.eval(st, a) for a in call.args]
        kwargs = self.eval_kwargs(st, call.keywords)
        return self.apply(st, f, args, kwargs, call, stmt_level=True)

    def s_Assign(self, st, s):
        if isinstance(s.value, ast.Call):
            outs = self.exec_call(st, s.value)
        else:
            outs = [(st, Outcome("value", self.eval(st, s.value)))]
        res = []
        for s2, oc in outs:
            if oc.kind != "value":
                res.append((s2, oc))
                continue
            val = oc.value
            for tg in s.targets:
                self.bind_target(s2, tg, self.retarget(s2, tg, val))
            if self.c.opts.get("track_aliases") and isinstance(s.value, ast.Name) and isinstance(val, V) \
                    and isinstance(val.ty, (TList, TSet, TDict)):
                # opt-in: `ys = xs` of a container value makes ys another name of the same object (see exec.alias_join)
                from .exec import alias_join
                for tg in s.targets:
                    if isinstance(tg, ast.Name) and tg.id != s.value.id:
                        alias_join(s2, tg.id, s.value.id)
            res.append((s2, NEXT))
        return res

    def retarget(self, st, tg, val):
        """Give an untyped literal ([] / K) the declared type of the variable it is assigned to."""
        if isinstance(tg, ast.Name):
            t = self.local_types.get(tg.id)
            if t is not None and not (isinstance(val, V) and val.ty == t):
                if isinstance(val, PyObj) and isinstance(val.o, tuple) and val.o[0] == "emptyset" and isinstance(t, TSet):
                    return V(t, z3.K(t.elem.sort(), False))
                if isinstance(val, PyObj) and val.o == ("defaultdict", "set") and isinstance(t, T.TDefaultDict) and isinstance(t.v, TSet):
                    s = t.sort()
                    return V(t, s.constructor(0)(z3.K(t.k.sort(), False), z3.K(t.k.sort(), t.empty)))
                if isinstance(val, PyObj) and isinstance(val.o, tuple) and val.o[0] == "dictlit" and isinstance(t, TDict) and not val.o[1]:
                    s = t.sort()
                    return V(t, s.constructor(0)(z3.K(t.k.sort(), False), z3.K(t.k.sort(), ops.default_val(t.v))))
                return coerce(val, t)
        return val

    local_types: dict = {}

    def s_AugAssign(self, st, s):
        cur = self.eval(st, ast.copy_location(_load(s.target), s))
        if isinstance(cur, V) and isinstance(cur.ty, TList) and isinstance(s.op, ast.Add):
            # xs += [a, b]  /  xs += ys + [c]  /  xs += ys : appends and concatenations (with fold lemma instances)
            new = cur
            parts = []

            def flat(n):
                if isinstance(n, ast.BinOp) and isinstance(n.op, ast.Add):
                    flat(n.left)
                    flat(n.right)
                else:
                    parts.append(n)
            flat(s.value)
            for pn in parts:
                if isinstance(pn, ast.List):
                    for el in pn.elts:
                        new = self.append_to(st, new, self.eval(st, el))
                else:
                    pv = self.eval(st, pn)
                    if isinstance(pv, STuple):
                        for it in pv.items:
                            new = self.append_to(st, new, it)
                    else:
                        new = self.concat_lists(st, new, coerce(pv, cur.ty))
            if isinstance(s.target, ast.Name) and (st.ghost.get("__alias__") or {}).get(s.target.id):
                self.assign_lvalue(st, s.target, new)       # in-place: aliases of the list see it (opt-in aliasing)
                return [(st, NEXT)]
            self.bind_target(st, s.target, new)
            return [(st, NEXT)]
        val = self.eval(st, s.value)
        if isinstance(cur, V) and isinstance(cur.ty, TSet) and isinstance(s.op, ast.BitOr):
            new = self.set_method(st, cur, "union", [val], None)
        else:
            new = self.binop(st, s.op, cur, val)
        group = (st.ghost.get("__alias__") or {}).get(s.target.id) if isinstance(s.target, ast.Name) else None
        if group and isinstance(cur, V) and isinstance(cur.ty, (TList, TSet, TDict)):
            # `xs += ..` / `s |= ..` on a container is an in-place update: the aliases of the name see it (opt-in aliasing)
            self.assign_lvalue(st, s.target, new)
            return [(st, NEXT)]
        self.bind_target(st, s.target, new)
        return [(st, NEXT)]

    def s_Assert(self, st, s):
        c = truthy(self.eval(st, s.test))
        ok = st.fork()
        ok.assume(c)
        bad = st
        bad.assume(z3.Not(c))
        outs = []
        if self.feasible(ok):
            outs.append((ok, NEXT))
        if self.feasible(bad):
            outs.append((bad, Outcome("raise", ExcInfo(AssertionError, line=self.cur_line))))
        return outs

    def s_Raise(self, st, s):
        if s.exc is None:
            cur = st.ghost.get("__handling__")
            if cur is None:
                raise Unsupported("bare raise outside handler")
            return [(st, Outcome("raise", cur))]
        e = s.exc
        if isinstance(e, ast.Call) and isinstance(e.func, ast.Attribute) and e.func.attr == "with_traceback":
            e = e.func.value          # x.with_traceback(tb) is x itself
        cls_node = e.func if isinstance(e, ast.Call) else e
        o = self.eval(st, cls_node)
        if isinstance(o, V) and isinstance(o.ty, TRef) and not isinstance(e, ast.Call):
            return [(st, Outcome("raise", self.raise_object(st, o)))]
        if isinstance(o, PyObj) and inspect.isclass(o.o) and issubclass(o.o, BaseException):
            val = None
            if isinstance(e, ast.Call) and e.args and not isinstance(e.args[0], (ast.JoinedStr, ast.Constant)):
                try:
                    val = [self.eval(st, a) for a in e.args]
                except Unsupported:
                    val = None
            return [(st, Outcome("raise", ExcInfo(o.o, value=val, line=self.cur_line)))]
        if isinstance(o, PyObj) and isinstance(o.o, ExcInfo):
            return [(st, Outcome("raise", o.o))]
        raise Unsupported("raise of a non-class expression")

    def s_If(self, st, s):
        # split short-circuit conditions into separate paths (smaller VCs, one case per obligation)
        t = s.test
        if isinstance(t, ast.BoolOp) and len(t.values) >= 2:
            first, rest = t.values[0], t.values[1:]
            rest_e = rest[0] if len(rest) == 1 else ast.copy_location(ast.BoolOp(op=t.op, values=rest), t)
            if isinstance(t.op, ast.Or):
                inner = ast.copy_location(ast.If(test=rest_e, body=s.body, orelse=s.orelse), s)
                outer = ast.copy_location(ast.If(test=first, body=s.body, orelse=[inner]), s)
            else:
                inner = ast.copy_location(ast.If(test=rest_e, body=s.body, orelse=s.orelse), s)
                outer = ast.copy_location(ast.If(test=first, body=[inner], orelse=s.orelse), s)
            return self.s_If(st, outer)
        c = truthy(self.eval(st, s.test))
        c = z3.simplify(c)
        outs = []
        if z3.is_true(c):
            return self.exec_block(st, s.body)
        if z3.is_false(c):
            return self.exec_block(st, s.orelse)
        a = st.fork()
        a.assume(c)
        b = st
        b.assume(z3.Not(c))
        if self.feasible(a):
            a.trace.append(f"L{s.lineno}:T")
            outs.extend(self.exec_block(a, s.body))
        if self.feasible(b):
            b.trace.append(f"L{s.lineno}:F")
            outs.extend(self.exec_block(b, s.orelse))
        return outs

    def s_With(self, st, s):
        if len(s.items) != 1:
            raise Unsupported("multi-item with")
        it = s.items[0]
        hook = WITH_HOOKS.get("default")
        if isinstance(it.context_expr, ast.Call):
            outs = self.exec_call(st, it.context_expr)
        else:
            outs = [(st, Outcome("value", self.eval(st, it.context_expr)))]
        res = []
        for s2, oc in outs:
            if oc.kind != "value":
                res.append((s2, oc))
                continue
            cm = oc.value
            if it.optional_vars is not None:
                self.bind_target(s2, it.optional_vars, cm)
            for s3, oc3 in self.exec_block(s2, s.body):
                # __exit__: modelled by the sidecar hook of the context manager's type (default: no effect)
                ex = self.with_exit(s3, cm, oc3)
                res.extend(ex)
        return res

    def with_exit(self, st, cm, oc):
        if isinstance(cm, V) and isinstance(cm.ty, TRef):
            h = WITH_HOOKS.get(cm.ty.cls)
            if h is not None:
                return h(self, st, cm, oc)
        return [(st, oc)]

    def s_Try(self, st, s):
        body_outs = self.exec_block(st, s.body)
        after = []
        for s1, oc in body_outs:
            if oc.kind == "next":
                after.extend(self.exec_block(s1, s.orelse) if s.orelse else [(s1, oc)])
            elif oc.kind == "raise":
                after.extend(self.handle(s1, oc.value, s.handlers))
            else:
                after.append((s1, oc))
        if not s.finalbody:
            return after
        res = []
        for s1, oc in after:
            if oc.kind == "unsupported":
                res.append((s1, oc))
                continue
            for s2, oc2 in self.exec_block(s1, s.finalbody):
                res.append((s2, oc if oc2.kind == "next" else oc2))
        return res

    def handle(self, st, exc: ExcInfo, handlers):
        outs = []
        cur = st
        for h in handlers:
            if h.type is None:
                classes = [BaseException]
            else:
                tv = self.eval(cur, h.type)
                classes = [x.o for x in tv.items] if isinstance(tv, STuple) else ([*tv.o] if isinstance(tv.o, tuple) else [tv.o])
            definite = any(issubclass(exc.cls, c) for c in classes)
            maybe = (not definite) and exc.or_subclass and any(issubclass(c, exc.cls) for c in classes)
            if definite or maybe:
                s2 = cur.fork() if maybe else cur
                caught = exc if definite else ExcInfo(next(c for c in classes if issubclass(c, exc.cls)), True, exc.value, exc.line)
                if not definite and getattr(exc, "obj", None) is not None:
                    caught.obj = exc.obj
                saved = s2.ghost.get("__handling__")
                s2.ghost["__handling__"] = caught
                if h.name:
                    s2.env[h.name] = self.exc_object(s2, caught)
                for s3, oc in self.exec_block(s2, h.body):
                    s3.ghost["__handling__"] = saved
                    outs.append((s3, oc))
                if definite:
                    return outs
        outs.append((cur, Outcome("raise", exc)))
        return outs

    def exc_object(self, st, caught):
        """The value bound by `except C as name`.  When the caught class (or a base of it) is a declared heap class
        (ref_class), the name denotes a reference of that class -- the very object when it was raised by `raise <ref>`,
        otherwise an arbitrary one -- so that its fields can be read and it can be stored or passed on; the class
        predicates registered for the family (EXC_CLASS_PREDS) are assumed as far as the caught class decides them.
        Without a declared class: the class-level ExcInfo (as before)."""
        for base in inspect.getmro(caught.cls):
            if base in REF_TYPES:
                rt = REF_TYPES[base]
                obj = getattr(caught, "obj", None)
                if isinstance(obj, V) and isinstance(obj.ty, TRef):
                    ref = V(rt, obj.z)
                else:
                    ref = fresh(rt, "exc")
                for k, pred in EXC_CLASS_PREDS.get(rt.cls, []):
                    if issubclass(caught.cls, k):
                        st.assume(pred(self, st, ref))
                    elif not caught.or_subclass:
                        st.assume(z3.Not(pred(self, st, ref)))       # the exact class is known and is not a subclass of k
                return ref
        return PyObj(caught)

    def raise_object(self, st, v):
        """`raise <ref>`: the class-level description of an exception OBJECT of a declared heap class: the most specific
        class among the family's registered class predicates that the path condition entails (else the declared class),
        or a subclass of it."""
        cls = CLASS_OBJ.get(v.ty.cls)
        if not (inspect.isclass(cls) and issubclass(cls, BaseException)):
            raise Unsupported(f"raise of a {v.ty} value")
        for k, pred in EXC_CLASS_PREDS.get(v.ty.cls, []):
            if issubclass(k, cls) and k is not cls:
                s2 = st.fork()
                s2.assume(z3.Not(pred(self, s2, v)))
                if not self.feasible(s2):
                    cls = k
        ei = ExcInfo(cls, or_subclass=True, value=[v], line=self.cur_line)
        ei.obj = v
        return ei

    # ------------------------------------------------------------------ loops
    def loop_ordinal(self, s):
        return self.loop_ord.get(id(s))

    def modified_in(self, stmts):
        names, fields, muts = set(), set(), False
        yields = False
        for top in stmts:
            for n in ast.walk(top):
                if isinstance(n, ast.Name) and isinstance(n.ctx, ast.Store):
                    names.add(n.id)
                elif isinstance(n, ast.Attribute) and isinstance(n.ctx, ast.Store):
                    fields.add(n.attr)
                elif isinstance(n, ast.AugAssign):
                    if isinstance(n.target, ast.Name):
                        names.add(n.target.id)
                    elif isinstance(n.target, ast.Attribute):
                        fields.add(n.target.attr)
                elif isinstance(n, ast.Subscript) and isinstance(n.ctx, ast.Store):
                    b = n.value
                    if isinstance(b, ast.Name):
                        names.add(b.id)
                    elif isinstance(b, ast.Attribute):
                        fields.add(b.attr)
                elif isinstance(n, ast.Call):
                    f = n.func
                    if isinstance(f, ast.Attribute) and f.attr in MUTATING_METHODS:
                        recv = f.value
                        while isinstance(recv, ast.Subscript):
                            recv = recv.value       # `d[k].add(x)`: the container that holds the updated value is written
                        if isinstance(recv, ast.Name):
                            names.add(recv.id)
                        elif isinstance(recv, ast.Attribute):
                            fields.add(recv.attr)
                    if not self.is_pure_call_node(n):
                        # a call with a contract may modify arguments / heap: resolved lazily via its modifies
                        muts = True
                        ck = self.static_callee_contract(n)
                        if ck is not None:
                            for m in ck.modifies:
                                if m.startswith("heap:"):
                                    fields.add(m[5:].split(".")[1])
                                elif "." in m:
                                    fields.add(m.split(".", 1)[1])
                                else:
                                    an = self.arg_node(ck, m, n)
                                    if isinstance(an, ast.Name):
                                        names.add(an.id)
                                    elif isinstance(an, ast.Attribute):
                                        fields.add(an.attr)
                elif isinstance(n, (ast.Yield, ast.YieldFrom)):
                    yields = True
        return names, fields, yields

    def static_callee_contract(self, n: ast.Call):
        f = n.func
        name = f.attr if isinstance(f, ast.Attribute) else (f.id if isinstance(f, ast.Name) else None)
        if name is None:
            return None
        cands = [c for k, c in CONTRACTS.items() if k.split(":")[-1].split(".")[-1] == name and c.modifies]
        return cands[0] if len(cands) == 1 else (cands[0] if cands else None)

    def havoc_loop(self, st, names, fields, yields):
        for n in sorted(names):
            if n in st.env and isinstance(st.env[n], V):
                nv = fresh(st.env[n].ty, f"h_{n}")
                wf_assumptions(nv, st)
                st.env[n] = nv
                for other in (st.ghost.get("__alias__") or {}).get(n, ()):
                    st.env[other] = nv                      # a havocked container stays one object under all its names
            elif n in st.env and isinstance(st.env[n], SDict):
                t = self.local_types.get(n)
                if t is None:
                    raise Unsupported(f"loop-modified dict {n} has no static type (declare a dict-record type in `types`)")
                nv = fresh(t, f"h_{n}")
                wf_assumptions(nv, st)
                st.env[n] = nv
            elif n in st.env and isinstance(st.env[n], (K, STuple)):
                t = self.local_types.get(n)
                if t is None:
                    try:
                        t = infer_ty(st.env[n])
                    except Unsupported:
                        raise Unsupported(f"loop-modified variable {n} has no static type (declare it in `types`)")
                nv = fresh(t, f"h_{n}")
                wf_assumptions(nv, st)
                st.env[n] = nv
        for (cls, fld), arr in list(st.heap.items()):
            if fld in fields:
                st.heap[(cls, fld)] = z3.Const(T.fresh_name(f"heap_{cls}_{fld}"), arr.sort())
        for cls, fl in T.FIELD_TYPES.items():
            for fld in fl:
                if fld in fields and (cls, fld) not in st.heap:
                    self.heap_arr(st, cls, fld)
                    k = (cls, fld)
                    st.heap[k] = z3.Const(T.fresh_name(f"heap_{cls}_{fld}"), st.heap[k].sort())
        if yields and "__yielded__" in st.ghost:
            y = st.ghost["__yielded__"]
            nv = fresh(y.ty, "h_yielded")
            wf_assumptions(nv, st)
            st.ghost["__yielded__"] = nv

    def inv_bindings(self, st, extra=None):
        b = dict(st.env)
        if "__yielded__" in st.ghost:
            b["_yielded"] = st.ghost["__yielded__"]
        if st.old is not None:
            b["old"] = PyObj(st.old)
        for gk, gv in st.ghost.items():
            if gk.startswith("__head") and isinstance(gv, Namespace):
                b["_head" + gk[6:-2]] = PyObj(gv)     # values at the head of the enclosing iteration of loop k
        if extra:
            b.update(extra)
        return b

    def check_inv(self, st, k, kind, extra=None):
        inv = self.c.invs.get(k)
        if inv is None:
            raise Unsupported(f"loop {k} at line {self.cur_line} has no invariant in the sidecar")
        s2 = st.fork()
        g = self.eval_contract(s2, inv, self.inv_bindings(s2, extra))
        ex = s2.pc[len(st.pc):]
        self.emit(st, kind, str(k), z3.Implies(z3.And(*ex), g) if ex else g)

    def assume_inv(self, st, k, extra=None):
        inv = self.c.invs[k]
        st.assume(self.eval_contract(st, inv, self.inv_bindings(st, extra)))
        hint = self.c.hints.get(f"inv_{k}")
        if hint is not None:
            # proof hint at the loop head: instances of proved lemmas (checked: lemma applications only), plus the
            # definitional unfolding of the recursive specs they mention
            from .verify import check_hint_is_lemmas
            from .exec import unfold_equations
            check_hint_is_lemmas(hint)
            h = self.eval_contract(st, hint, self.inv_bindings(st, extra))
            st.assume(h)
            for eq in unfold_equations(h):
                st.assume(eq)

    def dec_value(self, st, k, extra=None):
        d = self.c.decs.get(k)
        if d is None:
            return None
        node, params = contract_ast(d)
        b = self.inv_bindings(st, extra)
        env = {p: b[p] for p in params}
        return coerce(self.eval_fn_body(st, d, node, env), INT).z

    def s_While(self, st, s):
        k = self.loop_ordinal(s)
        line = s.lineno
        self.cur_line = line
        self.check_inv(st, k, "inv-entry")
        names, fields, yields = self.modified_in(s.body)
        head = st
        self.havoc_loop(head, names, fields, yields)
        head.ghost[f"__head{k}__"] = Namespace(dict(head.env), dict(head.heap))
        self.assume_inv(head, k)
        c = truthy(self.eval(head, s.test))
        outs = []
        # iteration
        it = head.fork()
        it.assume(c)
        if self.feasible(it):
            d0 = self.dec_value(it, k)
            if d0 is not None:
                self.emit(it, "decreases", f"{k}:bounded", d0 >= 0)
            self.loop_depth = getattr(self, "loop_depth", 0) + 1
            try:
                body_outs = self.exec_block(it, s.body)
            finally:
                self.loop_depth -= 1
            for s2, oc in body_outs:
                if oc.kind in ("next", "continue"):
                    self.cur_line = line
                    self.check_inv(s2, k, "inv-preserve")
                    if d0 is not None:
                        self.emit(s2, "decreases", f"{k}", self.dec_value(s2, k) < d0)
                elif oc.kind == "break":
                    outs.append((s2, NEXT))
                else:
                    outs.append((s2, oc))
        # exit
        ex = head
        ex.assume(z3.Not(c))
        if self.feasible(ex):
            outs.extend(self.exec_block(ex, s.orelse) if s.orelse else [(ex, NEXT)])
        return outs

    def s_For(self, st, s):
        k = self.loop_ordinal(s)
        line = s.lineno
        src = self.eval(st, s.iter)
        mode = "list"
        if isinstance(src, V) and isinstance(src.ty, TOpt):
            src = unwrap_opt(src)
        if isinstance(src, V) and src.ty == SINK:
            src = fresh_seq(TList(SINK), st, "sinklist")     # iterating a reporting object: any number of sinks
        if isinstance(src, PyObj) and isinstance(src.o, tuple) and src.o and src.o[0] == "genexp":
            # `for x in (<elt> for ...)`: a generator consumed by this loop alone is the list of its elements, provided the
            # loop body does not write anything the generator reads (its evaluation is interleaved with the body)
            gnode = src.o[1]
            written = self.modified_in(s.body)[0] | {n.id for n in ast.walk(s.target) if isinstance(n, ast.Name)}
            own = {n.id for g in gnode.generators for n in ast.walk(g.target) if isinstance(n, ast.Name)}
            read = {n.id for n in ast.walk(gnode) if isinstance(n, ast.Name)} - own
            if (written & read) or self.modified_in(s.body)[1]:
                raise Unsupported("for over a generator expression whose inputs the loop body may write")
            src = self.comprehension(st, ast.ListComp(elt=gnode.elt, generators=gnode.generators))
        lo = z3.IntVal(0)
        if isinstance(src, PyObj) and isinstance(src.o, tuple):
            tag = src.o[0]
            if tag == "range":
                ra = src.o[1]
                if len(ra) == 3:
                    stp = z3.simplify(ra[2].z)
                    if z3.is_int_value(stp) and stp.as_long() == 1:
                        ra = ra[:2]
                    elif z3.is_int_value(stp) and stp.as_long() == -1:
                        # range(a, b, -1): a, a-1, ..., b+1 -- iteration j (0-based) has the value a - j
                        desc_from = ra[0].z
                        lo, hi = z3.IntVal(0), z3.If(ra[0].z - ra[1].z > 0, ra[0].z - ra[1].z, z3.IntVal(0))
                        mode = "range_desc"
                    else:
                        raise Unsupported("range() with a step other than 1 / -1")
                if mode != "range_desc":
                    lo, hi = (z3.IntVal(0), ra[0].z) if len(ra) == 1 else (ra[0].z, ra[1].z)
                    mode = "range"
            elif tag == "enumerate":
                src = src.o[1]
                mode = "enumerate"
            elif tag == "zip":
                mode = "zip"
                zsrc = src.o[1]
            elif tag == "reversed":
                src = src.o[1]
                mode = "reversed"
            else:
                raise Unsupported(f"for over {tag}")
        if isinstance(src, STuple) or (isinstance(src, K) and isinstance(src.v, tuple)):
            # fixed-length tuple: unroll
            items = src.items if isinstance(src, STuple) else [self.lift_py(x) for x in src.v]
            cur = [(st, NEXT)]
            done = []
            for it in items:
                nxt = []
                for s1, oc in cur:
                    self.bind_target(s1, s.target, it)
                    for s2, oc2 in self.exec_block(s1, s.body):
                        if oc2.kind in ("next", "continue"):
                            nxt.append((s2, NEXT))
                        elif oc2.kind == "break":
                            done.append((s2, NEXT))
                        else:
                            done.append((s2, oc2))
                cur = nxt
            outs = list(done)
            for s1, oc in cur:
                outs.extend(self.exec_block(s1, s.orelse) if s.orelse else [(s1, NEXT)])
            return outs
        if mode in ("list", "enumerate", "reversed"):
            if not (isinstance(src, V) and isinstance(src.ty, TList)):
                raise Unsupported(f"for over {src!r}")
            n = seq_len(src)
        elif mode in ("range", "range_desc"):
            n = hi
        elif mode == "zip":
            zs = [unwrap_opt(z) if isinstance(z, V) else z for z in zsrc]
            if not all(isinstance(z, V) and isinstance(z.ty, TList) for z in zs):
                raise Unsupported("zip over non-lists")
            n = seq_len(zs[0])
            for z in zs[1:]:
                n = z3.If(seq_len(z) < n, seq_len(z), n)
        idx_name = f"_i{k}"
        self.cur_line = line
        i0 = V(INT, lo)
        self.check_inv(st, k, "inv-entry", {"_i": i0, idx_name: i0, "_iter": src if isinstance(src, V) else K(None)})
        names, fields, yields = self.modified_in(s.body)
        for tn in ast.walk(s.target):
            if isinstance(tn, ast.Name):
                names.add(tn.id)
        if isinstance(s.iter, ast.Name) and s.iter.id in names:
            raise Unsupported("loop body mutates the list being iterated")
        head = st
        self.havoc_loop(head, names, fields, yields)
        i = fresh(INT, f"i{k}")
        head.assume(z3.And(lo <= i.z, i.z <= z3.If(n < lo, lo, n)))
        extra = {"_i": i, idx_name: i, "_iter": src if isinstance(src, V) else K(None)}
        head.env[idx_name] = i
        if isinstance(src, V):
            head.env[f"_iter{k}"] = src      # the list iterated by loop k stays nameable (`_iter<k>`) in later invariants / hints
        head.ghost[f"__head{k}__"] = Namespace(dict(head.env), dict(head.heap))
        self.assume_inv(head, k, extra)
        outs = []
        it = head.fork()
        it.assume(i.z < n)
        if self.feasible(it):
            if mode == "list":
                item = V(src.ty.elem, z3.Select(seq_arr(src), i.z))
            elif mode == "reversed":
                item = V(src.ty.elem, z3.Select(seq_arr(src), n - 1 - i.z))
            elif mode == "enumerate":
                item = STuple([i, V(src.ty.elem, z3.Select(seq_arr(src), i.z))])
            elif mode == "range":
                item = i
            elif mode == "range_desc":
                item = V(INT, desc_from - i.z)
            else:
                item = STuple([V(z.ty.elem, z3.Select(seq_arr(z), i.z)) for z in zs])
            self.bind_target(it, s.target, item)
            self.loop_depth = getattr(self, "loop_depth", 0) + 1
            try:
                body_outs = self.exec_block(it, s.body)
            finally:
                self.loop_depth -= 1
            for s2, oc in body_outs:
                if oc.kind in ("next", "continue"):
                    self.cur_line = line
                    i2 = V(INT, i.z + 1)
                    s2.env[idx_name] = i2
                    self.check_inv(s2, k, "inv-preserve", {"_i": i2, idx_name: i2, "_iter": extra["_iter"]})
                elif oc.kind == "break":
                    outs.append((s2, NEXT))
                else:
                    outs.append((s2, oc))
        ex = head
        ex.assume(i.z >= n)
        if self.feasible(ex):
            outs.extend(self.exec_block(ex, s.orelse) if s.orelse else [(ex, NEXT)])
        return outs

    def s_FunctionDef(self, st, s):
        a = s.args
        body = [x for x in s.body if not (isinstance(x, ast.Expr) and isinstance(x.value, ast.Constant))]
        if (not (a.posonlyargs or a.args or a.kwonlyargs or a.vararg or a.kwarg) and not s.decorator_list
                and len(body) == 1 and isinstance(body[0], ast.Return) and body[0].value is not None
                and not any(isinstance(n, (ast.Call, ast.Yield, ast.YieldFrom, ast.NamedExpr, ast.Lambda)) for n in ast.walk(body[0].value))):
            # a local predicate `def f(): return <call-free expression over the enclosing locals>`: a closure reads the enclosing
            # variables when it is CALLED (late binding), so a call is the expression evaluated in the caller's state at that point
            st.env[s.name] = PyObj(("localfn", body[0].value))
            return [(st, NEXT)]
        raise Unsupported("nested function definition")

    def s_Delete(self, st, s):
        raise Unsupported("del")


WITH_HOOKS: dict = {}
CLASS_OF_HOOK: dict = {}     # ref-class name -> fn(executor, st, ref, real_class): record the dynamic class of a new object
SINK_FUNCTIONS: set = set()      # "module:qualname" of UI functions whose calls are no-ops on the tracked state
# exception objects as values: ref-class name of an exception family -> [(real exception class, fn(executor, st, ref) -> z3 Bool)]
# "the object is an instance of that class"; used when an `except C as e` binds e and when `raise <ref>` is classified
EXC_CLASS_PREDS: dict = {}


class OldRef:
    def __init__(self, v, ns):
        self.v = v
        self.ns = ns


def _load(t):
    if isinstance(t, ast.Name):
        return ast.Name(id=t.id, ctx=ast.Load())
    if isinstance(t, ast.Attribute):
        return ast.Attribute(value=t.value, attr=t.attr, ctx=ast.Load())
    if isinstance(t, ast.Subscript):
        return ast.Subscript(value=t.value, slice=t.slice, ctx=ast.Load())
    raise Unsupported("augmented assignment target")


def resolve_exc(name: str, c: Contract):
    name = name.rstrip("+")
    if hasattr(__import__("builtins"), name):
        return getattr(__import__("builtins"), name)
    import importlib
    for modname in ("sqlfluff.core.errors", "sqlfluff.core.templaters.base", "bdb"):
        m = importlib.import_module(modname)
        if hasattr(m, name):
            return getattr(m, name)
    raise Unsupported(f"unknown exception class {name}")


def resolve_key_safe(key):
    from .engine import resolve_key
    return resolve_key(key)[0]
