"""pyvc.mutate -- must-fail mutants: copy the source tree, apply one textual edit, require the check to fail.

usage: python -m pyvc.mutate <PROP>      (reads MUTANTS from contracts.<prop>)
A mutant that still verifies means the contracts are too weak: exit 3.
"""
import importlib
import os
import shutil
import subprocess
import sys
import tempfile

ROOT = os.path.dirname(os.path.dirname(os.path.abspath(__file__)))


def run_mutant(prop, relfile, old, new, count=1):
    tmp = tempfile.mkdtemp(prefix="pyvc_mut_")
    try:
        dst = os.path.join(tmp, "src")
        shutil.copytree("/repo/src/sqlfluff", os.path.join(dst, "sqlfluff"),
                        ignore=shutil.ignore_patterns("__pycache__", "*.pyc"))
        p = os.path.join(dst, relfile)
        s = open(p).read()
        if s.count(old) < 1:
            return "stale", f"pattern not found in {relfile}"
        s = s.replace(old, new, count)
        open(p, "w").write(s)
        r = subprocess.run([os.path.join(ROOT, "check"), prop, "--src", dst, "--no-evidence"], capture_output=True, text=True,
                           env=dict(os.environ, PYTHONDONTWRITEBYTECODE="1"))
        return r.returncode, r.stdout[-1500:] + r.stderr[-500:]
    finally:
        shutil.rmtree(tmp, ignore_errors=True)


def main():
    prop = sys.argv[1]
    sys.path.insert(0, ROOT)
    mod = importlib.import_module(f"contracts.{prop.lower()}")
    bad = 0
    for name, relfile, old, new in getattr(mod, "MUTANTS", []):
        rc, out = run_mutant(prop, relfile, old, new)
        viol = [l for l in out.splitlines() if l.startswith("VIOLATION")]
        ok = rc == 1 and viol
        print(f"{'caught ' if ok else 'MISSED '} {prop} mutant {name}: rc={rc} {viol[0] if viol else out.strip().splitlines()[-1] if out.strip() else ''}")
        if not ok:
            bad += 1
            print(out)
    return 3 if bad else 0


if __name__ == "__main__":
    sys.exit(main())
