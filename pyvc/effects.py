"""pyvc.effects -- a syntactic effect system ("may write the file system") over a Python package.

Every run re-reads and re-parses every *.py file below <pkgdir> (the directory of the imported package, so `--src`
is honoured).  Nothing is executed.  The analysis is a may-analysis:

  writes_fs(f)  <=  f's body contains a PRIMITIVE write site
  writes_fs(f)  <=  f's body contains a call edge f -> g and writes_fs(g)          (least fixpoint)

Function keys are "module:func" / "module:Class.method"; the statements of a module that are outside every def are
the pseudo function "module:<module>" (import-time code; class bodies belong to it).  Nested defs, lambdas,
comprehensions and classes defined inside a function are part of the enclosing function (creating a closure is charged
as calling it).

Call edges (an over-approximation of dynamic dispatch; `resolution` is recorded on every edge):
  name        `foo(...)`          -> through function-local imports, module-level defs, module imports (import chains /
                                     re-exports followed through the package); locals and parameters shadow.
  class       `Foo(...)`          -> __init__/__new__/__post_init__ of Foo's ancestors (cls(...)/type(self)(...): + descendants)
  self        `self.m(...)`, `cls.m(...)`, `Foo.m(...)`, `Foo(...).m(...)`, `super().m(...)`
                                  -> every definition of m in the ancestors AND descendants of the class
  module      `mod.f(...)`        -> f through the imports of the module (package-internal), or the external dotted name
  hook        `<x>.hook.h(...)`   -> every in-package function named h decorated with a `hookimpl` marker
  by-name     `<unknown>.m(...)`  -> EVERY method named m of EVERY class in the package
  reference   a Name/Attribute that resolves to a function/class/method in non-call position (callback, partial,
              registry list) is charged to the referencing function as if it were called; an attribute load
              `<unknown>.m` is charged with every method/property named m.
  decorator   `@d def f` : f -> d (calling f runs d's wrapper, which is part of d)
Implicit calls through operators / `with` / attribute access are NOT edges; instead the client states the obligation
"no dunder method and no property is writes_fs (except declared)", which covers them wholesale.
External names (anything imported from outside the package, builtins) are effect free unless they are in PRIMITIVES.
"""
from __future__ import annotations

import ast
import os
from collections import deque

# ----------------------------------------------------------------------------------------------- primitive table
# exact dotted names (after import resolution) that are write primitives whenever they are called
PRIM_EXACT = {
    # os
    "os.remove", "os.unlink", "os.rename", "os.renames", "os.replace", "os.chmod", "os.lchmod", "os.chown", "os.lchown",
    "os.mkdir", "os.makedirs", "os.rmdir", "os.removedirs", "os.truncate", "os.ftruncate", "os.write", "os.pwrite",
    "os.writev", "os.link", "os.symlink", "os.utime", "os.mkfifo", "os.mknod", "os.open", "os.fdopen", "os.system",
    "os.popen", "os.startfile", "os.posix_spawn", "os.posix_spawnp", "os.sendfile", "os.copy_file_range",
    "os.setxattr", "os.removexattr",
    # serialisers that take an open handle / path
    "pickle.dump", "marshal.dump", "sqlite3.connect", "shelve.open", "dbm.open",
    "logging.FileHandler", "logging.handlers.RotatingFileHandler", "logging.handlers.TimedRotatingFileHandler",
    "logging.handlers.WatchedFileHandler",
    # arbitrary effect: external process
    "diff_cover.command_runner.execute", "pty.spawn",
    # pathlib used unbound
    "pathlib.Path.write_text", "pathlib.Path.write_bytes", "pathlib.Path.touch", "pathlib.Path.unlink",
}
# every callable of these modules is a primitive, except the listed read-only ones
PRIM_MODULES = {
    "shutil": {"which", "get_terminal_size", "disk_usage", "get_archive_formats", "get_unpack_formats"},
    "tempfile": {"gettempdir", "gettempdirb", "gettempprefix", "gettempprefixb"},
    "subprocess": {"list2cmdline"},
}
PRIM_PREFIX = ("os.exec", "os.spawn")
# open-like callables: name -> index of the positional `mode` argument
OPEN_LIKE = {"open": 1, "io.open": 1, "codecs.open": 1, "gzip.open": 1, "bz2.open": 1, "lzma.open": 1,
             "tarfile.open": 1, "zipfile.ZipFile": 1, "os.fdopen": 1, "io.FileIO": 1, "builtins.open": 1}
# dump(obj, stream): a primitive iff a stream argument is supplied (2nd positional or keyword)
DUMP_WITH_STREAM = {"json.dump": ("fp", 1, True), "yaml.dump": ("stream", 1, False), "yaml.safe_dump": ("stream", 1, False),
                    "yaml.dump_all": ("stream", 1, False), "yaml.safe_dump_all": ("stream", 1, False),
                    "toml.dump": ("f", 1, True), "tomlkit.dump": ("fp", 1, True)}
# attribute calls on a receiver that does not resolve to anything in the package: pathlib.Path-style methods
PATH_METHODS = {"write_text", "write_bytes", "touch", "unlink", "rmdir", "mkdir", "chmod", "lchmod", "symlink_to",
                "hardlink_to", "link_to", "rmtree"}
PATH_METHODS_1ARG = {"rename", "replace"}          # exactly one positional, no keyword: Path.rename / Path.replace
# (str.replace needs two arguments, dataclasses/datetime .replace use keywords; package methods of the same name are
#  resolved by-name in addition)
DYNAMIC_CODE = {"exec", "eval", "compile", "__import__", "importlib.import_module", "importlib.__import__",
                "importlib.util.spec_from_file_location", "importlib.util.module_from_spec", "runpy.run_path",
                "runpy.run_module", "builtins.exec", "builtins.eval"}
DYNAMIC_ATTRS = {"exec_module", "load_module"}     # loader.exec_module(module)

PRIMITIVE_LIST_TEXT = (
    "open/io.open/codecs.open/gzip|bz2|lzma.open/tarfile.open/zipfile.ZipFile/os.fdopen/<x>.open with a mode that is not a "
    "constant without any of 'w','a','x','+' (positional mode or mode=; a non-constant mode or **kwargs counts as write); "
    "exact: " + ", ".join(sorted(PRIM_EXACT)) + "; every callable of shutil (except which/get_terminal_size/disk_usage), "
    "tempfile (except gettempdir/gettempprefix), subprocess; os.exec*/os.spawn*; json.dump/toml.dump (always), "
    "yaml.dump/safe_dump/dump_all with a stream argument; attribute calls .write_text/.write_bytes/.touch/.unlink/.rmdir/"
    ".mkdir/.chmod/.lchmod/.symlink_to/.hardlink_to/.link_to on a receiver that is not a package object, and .rename(x)/"
    ".replace(x) with exactly one positional argument.  NOT primitives: .write()/.writelines()/print(file=) on an already "
    "open handle (the open is the primitive), os.fsync, os.stat/os.path.*, logging to the configured handlers.")


def mode_is_write(call: ast.Call, mode_idx: int):
    """-> (is_write, mode_text).  No mode => read."""
    mode = None
    if len(call.args) > mode_idx:
        mode = call.args[mode_idx]
    if any(isinstance(a, ast.Starred) for a in call.args[: mode_idx + 1]):
        return True, "<*args>"
    for kw in call.keywords:
        if kw.arg == "mode":
            mode = kw.value
        if kw.arg is None:
            return True, "<**kwargs>"
    if mode is None:
        return False, "<default r>"
    if isinstance(mode, ast.Constant) and isinstance(mode.value, str):
        return any(c in mode.value for c in "wax+"), repr(mode.value)
    return True, "<non-constant: %s>" % ast.unparse(mode)[:60]


# ----------------------------------------------------------------------------------------------- index
class Func:
    __slots__ = ("key", "module", "cls", "name", "node", "file", "line", "decorators", "is_property", "is_hookimpl",
                 "kind", "prims", "edges", "opens", "dynamic", "hookcalls", "calls")

    def __init__(self, key, module, cls, name, node, file, line):
        self.key, self.module, self.cls, self.name, self.node, self.file, self.line = key, module, cls, name, node, file, line
        self.decorators = []
        self.is_property = False
        self.is_hookimpl = False
        self.kind = "function"      # function | method | staticmethod | classmethod | module
        self.prims = []             # [{"prim","line","text"}]
        self.edges = {}             # callee key -> {"line","how","guards":[...]}  (first occurrence) ; list of all in edge_sites
        self.opens = []             # [{"line","mode","write","target"}]
        self.dynamic = []           # [{"what","line","text"}]
        self.hookcalls = []
        self.calls = {}             # callee leaf name -> [ast.Call]  (every syntactic call in the body)


class Cls:
    __slots__ = ("key", "module", "name", "node", "bases", "methods", "base_keys", "external_bases")

    def __init__(self, key, module, name, node):
        self.key, self.module, self.name, self.node = key, module, name, node
        self.bases = list(node.bases)
        self.methods = {}
        self.base_keys = []
        self.external_bases = False


class Module:
    __slots__ = ("name", "file", "tree", "imports", "defs", "is_pkg")

    def __init__(self, name, file, tree, is_pkg):
        self.name, self.file, self.tree, self.is_pkg = name, file, tree, is_pkg
        self.imports = {}   # local name -> ("module", dotted) | ("from", module, name)
        self.defs = {}      # name -> ("func", key) | ("class", key)


def _bound_names(fn):
    """names bound in the scope of one def/lambda (parameters, assignment/for/with/except targets, nested def names);
    imports are NOT included (they are resolved as imports)."""
    out = set()
    a = fn.args
    for x in list(a.posonlyargs) + list(a.args) + list(a.kwonlyargs):
        out.add(x.arg)
    if a.vararg:
        out.add(a.vararg.arg)
    if a.kwarg:
        out.add(a.kwarg.arg)
    body = fn.body if isinstance(fn.body, list) else [fn.body]

    def walk(n):
        if isinstance(n, (ast.FunctionDef, ast.AsyncFunctionDef, ast.ClassDef)):
            out.add(n.name)
            return                      # own scope
        if isinstance(n, ast.Lambda):
            return
        if isinstance(n, ast.Name) and isinstance(n.ctx, (ast.Store, ast.Del)):
            out.add(n.id)
        if isinstance(n, ast.ExceptHandler) and n.name:
            out.add(n.name)
        if isinstance(n, (ast.ListComp, ast.SetComp, ast.DictComp, ast.GeneratorExp)):
            # comprehension variables live in their own scope, but walrus targets leak; keep simple: own scope
            for g in n.generators:
                walk(g.iter)
            return
        for c in ast.iter_child_nodes(n):
            walk(c)
    for s in body:
        walk(s)
    return out


class Index:
    """All modules of the package, parsed; functions, classes, import maps."""

    def __init__(self, pkgdir: str, pkgname: str):
        self.pkgdir, self.pkg = os.path.abspath(pkgdir), pkgname
        self.modules, self.funcs, self.classes = {}, {}, {}
        self.files = 0
        self.parse_errors = []
        self.methods_by_name, self.props_by_name, self.hookimpls = {}, {}, {}
        self.subclasses = {}
        self._fam = {}
        self._load()
        self._link_classes()
        self._analyse()

    # ---- loading
    def _load(self):
        for root, dirs, files in os.walk(self.pkgdir):
            dirs[:] = sorted(d for d in dirs if d != "__pycache__")
            for fn in sorted(files):
                if not fn.endswith(".py"):
                    continue
                path = os.path.join(root, fn)
                rel = os.path.relpath(path, self.pkgdir)[:-3].split(os.sep)
                is_pkg = rel[-1] == "__init__"
                if is_pkg:
                    rel = rel[:-1]
                name = ".".join([self.pkg] + rel)
                try:
                    with open(path, "rb") as fh:
                        tree = ast.parse(fh.read(), filename=path)
                except SyntaxError as e:
                    self.parse_errors.append((path, repr(e)))
                    continue
                self.files += 1
                m = Module(name, path, tree, is_pkg)
                self.modules[name] = m
        for m in self.modules.values():
            self._index_module(m)

    def relfile(self, path):
        return os.path.relpath(path, os.path.dirname(self.pkgdir))

    def _index_module(self, m: Module):
        modf = Func(f"{m.name}:<module>", m.name, None, "<module>", m.tree, m.file, 1)
        modf.kind = "module"
        self.funcs[modf.key] = modf

        def imports(stmt, into):
            if isinstance(stmt, ast.Import):
                for al in stmt.names:
                    if al.asname:
                        into[al.asname] = ("module", al.name)
                    else:
                        into[al.name.split(".")[0]] = ("module", al.name.split(".")[0])
            elif isinstance(stmt, ast.ImportFrom):
                base = stmt.module or ""
                if stmt.level:
                    parts = m.name.split(".")
                    if not m.is_pkg:
                        parts = parts[:-1]
                    parts = parts[: len(parts) - (stmt.level - 1)]
                    base = ".".join(parts + ([stmt.module] if stmt.module else []))
                for al in stmt.names:
                    into[al.asname or al.name] = ("from", base, al.name)
        self._imports_of = imports

        def top(stmts, clsctx):
            for s in stmts:
                if isinstance(s, (ast.Import, ast.ImportFrom)):
                    if clsctx is None:
                        imports(s, m.imports)
                elif isinstance(s, (ast.FunctionDef, ast.AsyncFunctionDef)):
                    self._add_func(m, clsctx, s)
                elif isinstance(s, ast.ClassDef):
                    qual = s.name if clsctx is None else f"{clsctx.name}.{s.name}"
                    c = Cls(f"{m.name}:{qual}", m.name, qual, s)
                    self.classes[c.key] = c
                    if clsctx is None:
                        m.defs[s.name] = ("class", c.key)
                    top(s.body, c)
                elif isinstance(s, (ast.If, ast.Try, ast.With, ast.For, ast.While)):
                    for fld in ("body", "orelse", "finalbody"):
                        top(getattr(s, fld, []) or [], clsctx)
                    for h in getattr(s, "handlers", []) or []:
                        top(h.body, clsctx)
        top(m.tree.body, None)

    def _add_func(self, m, clsctx, node):
        if clsctx is None:
            key = f"{m.name}:{node.name}"
            f = Func(key, m.name, None, node.name, node, m.file, node.lineno)
            m.defs[node.name] = ("func", key)
        else:
            key = f"{m.name}:{clsctx.name}.{node.name}"
            f = Func(key, m.name, clsctx.key, node.name, node, m.file, node.lineno)
            f.kind = "method"
            clsctx.methods.setdefault(node.name, []).append(key)
        n = 2
        while f.key in self.funcs:          # redefinition (property setter, overload, conditional def)
            f.key = f"{key}#{n}"
            n += 1
        if clsctx is not None and f.key != key:
            clsctx.methods[node.name][-1] = f.key
        f.decorators = list(node.decorator_list)
        for d in node.decorator_list:
            txt = ast.unparse(d)
            last = txt.split("(")[0].split(".")[-1]
            if last in ("property", "cached_property", "setter", "getter", "deleter", "classproperty"):
                f.is_property = True
            if last == "staticmethod":
                f.kind = "staticmethod"
            if last == "classmethod":
                f.kind = "classmethod"
            if last.endswith("hookimpl"):
                f.is_hookimpl = True
        self.funcs[f.key] = f

    # ---- class hierarchy
    def _link_classes(self):
        for c in self.classes.values():
            m = self.modules[c.module]
            for b in c.bases:
                r = self.resolve_static(m, b)
                if r and r[0] == "class":
                    c.base_keys.append(r[1])
                else:
                    txt = ast.unparse(b)
                    if txt not in ("object", "ABC", "abc.ABC", "Enum", "NamedTuple", "Protocol", "Generic", "Exception",
                                   "ValueError", "TypedDict"):
                        c.external_bases = True
        for c in self.classes.values():
            for b in c.base_keys:
                self.subclasses.setdefault(b, set()).add(c.key)
        for c in self.classes.values():
            for name, keys in c.methods.items():
                for k in keys:
                    f = self.funcs[k]
                    self.methods_by_name.setdefault(name, []).append(k)
                    if f.is_property:
                        self.props_by_name.setdefault(name, []).append(k)
        for f in self.funcs.values():
            if f.is_hookimpl:
                self.hookimpls.setdefault(f.name, []).append(f.key)

    def ancestors(self, ckey):
        out, todo = [], [ckey]
        while todo:
            k = todo.pop(0)
            if k in out or k not in self.classes:
                continue
            out.append(k)
            todo.extend(self.classes[k].base_keys)
        return out

    def descendants(self, ckey):
        out, todo = [], [ckey]
        while todo:
            k = todo.pop(0)
            if k in out:
                continue
            out.append(k)
            todo.extend(sorted(self.subclasses.get(k, ())))
        return out

    def family(self, ckey):
        """ancestors, descendants, and the ancestors of the descendants (mixins combined in a subclass)"""
        fam = self._fam.get(ckey)
        if fam is None:
            fam = list(self.ancestors(ckey))
            for d in self.descendants(ckey)[1:]:
                for a in self.ancestors(d):
                    if a not in fam:
                        fam.append(a)
            self._fam[ckey] = fam
        return fam

    def family_methods(self, ckey, name):
        keys = []
        for k in self.family(ckey):
            keys.extend(self.classes[k].methods.get(name, []))
        return keys

    # ---- import resolution
    def resolve_import(self, module, name, seen=None):
        """what does `from module import name` give?"""
        seen = seen or set()
        if (module, name) in seen:
            return None
        seen.add((module, name))
        if module == self.pkg or module.startswith(self.pkg + "."):
            m = self.modules.get(module)
            if m is not None:
                if name in m.defs:
                    return m.defs[name]
                if name in m.imports:
                    return self.resolve_binding(m.imports[name], seen)
            if f"{module}.{name}" in self.modules:
                return ("module", f"{module}.{name}")
            return ("unknown-internal", f"{module}.{name}")
        return ("external", f"{module}.{name}")

    def resolve_binding(self, b, seen=None):
        if b[0] == "module":
            if b[1] in self.modules:
                return ("module", b[1])
            if b[1] == self.pkg or b[1].startswith(self.pkg + "."):
                return ("unknown-internal", b[1])
            return ("external", b[1])
        return self.resolve_import(b[1], b[2], seen)

    def resolve_static(self, m: Module, expr, local_imports=None):
        """module-scope resolution of a Name / dotted Attribute (no self/cls, no locals)."""
        if isinstance(expr, ast.Name):
            if local_imports and expr.id in local_imports:
                return self.resolve_binding(local_imports[expr.id])
            if expr.id in m.defs:
                return m.defs[expr.id]
            if expr.id in m.imports:
                return self.resolve_binding(m.imports[expr.id])
            return None
        if isinstance(expr, ast.Attribute):
            r = self.resolve_static(m, expr.value, local_imports)
            return self.attr_of(r, expr.attr)
        if isinstance(expr, ast.Subscript):      # Generic[T] bases
            return self.resolve_static(m, expr.value, local_imports)
        return None

    def attr_of(self, r, attr):
        if r is None:
            return None
        if r[0] == "module":
            return self.resolve_import(r[1], attr)
        if r[0] == "external":
            return ("external", f"{r[1]}.{attr}")
        if r[0] == "class":
            nested = f"{r[1]}.{attr}"
            if nested in self.classes:
                return ("class", nested)
            keys = self.family_methods(r[1], attr)
            if keys:
                return ("methods", tuple(keys))
            return ("unknown-attr", r[1], attr)
        if r[0] in ("inst", "clsobj", "super"):
            ck = r[1]
            if r[0] == "super":
                keys = []
                for k in self.ancestors(ck)[1:]:
                    keys.extend(self.classes[k].methods.get(attr, []))
            else:
                keys = self.family_methods(ck, attr)
            if keys:
                return ("methods", tuple(keys))
            return ("unknown-attr", ck, attr)
        return None

    # ---- per-function analysis
    def _analyse(self):
        for f in list(self.funcs.values()):
            FuncVisitor(self, f).run()

    # ---- fixpoint and reachability
    def writes_fs(self, cut=frozenset()):
        """least fixpoint; `cut` is a set of (caller, callee) edges to ignore. -> {key: witness callee or '<prim>'}"""
        rev = {}
        for f in self.funcs.values():
            for callee in f.edges:
                if (f.key, callee) in cut:
                    continue
                rev.setdefault(callee, []).append(f.key)
        w = {}
        todo = deque()
        for f in self.funcs.values():
            if f.prims:
                w[f.key] = "<prim>"
                todo.append(f.key)
        while todo:
            k = todo.popleft()
            for caller in rev.get(k, ()):
                if caller not in w:
                    w[caller] = k
                    todo.append(caller)
        return w

    def reach(self, start, cut=frozenset()):
        """BFS over call edges. -> {key: predecessor}"""
        pred = {start: None}
        todo = deque([start])
        while todo:
            k = todo.popleft()
            f = self.funcs.get(k)
            if f is None:
                continue
            for callee in f.edges:
                if (k, callee) in cut or callee in pred:
                    continue
                pred[callee] = k
                todo.append(callee)
        return pred

    def chain(self, pred, target):
        out, k = [], target
        while k is not None:
            out.append(k)
            k = pred.get(k)
        out.reverse()
        steps = []
        for a, b in zip(out, out[1:]):
            e = self.funcs[a].edges[b]
            steps.append(f"{a} -> {b}  [{e['how']} at {self.relfile(self.funcs[a].file)}:{e['line']}]")
        return steps


class FuncVisitor:
    """Collects primitives / call edges / open sites / dynamic-code sites of one function (or module pseudo function)."""

    def __init__(self, ix: Index, f: Func):
        self.ix, self.f = ix, f
        self.m = ix.modules[f.module]
        self.scopes = []            # stack of bound-name sets
        self.local_imports = {}
        self.guards = []            # stack of ("if"/"else", test_text, names)
        self.selfname = None
        self.clsname = None
        self.in_call_func = set()

    def run(self):
        f, node = self.f, self.f.node
        if f.kind == "module":
            self._module_body(node.body)
            return
        args = node.args.posonlyargs + node.args.args
        if f.cls is not None and args:
            if f.kind == "method" and not f.is_hookimpl:
                self.selfname = args[0].arg
            elif f.kind == "classmethod":
                self.clsname = args[0].arg
        if f.cls is not None and node.name == "__new__" and args:
            self.clsname, self.selfname = args[0].arg, None
        # function-local imports anywhere inside (including nested defs)
        for n in ast.walk(node):
            if isinstance(n, (ast.Import, ast.ImportFrom)):
                self.ix._imports_of(n, self.local_imports)
        # decorators: f -> decorator
        for d in node.decorator_list:
            tgt = d.func if isinstance(d, ast.Call) else d
            r = self.ix.resolve_static(self.m, tgt)
            self._edges_for(r, d, "decorator", call=None)
        self.scopes.append(_bound_names(node))
        for s in node.body:
            self.visit(s)
        self.scopes.pop()

    def _module_body(self, stmts):
        for s in stmts:
            if isinstance(s, (ast.FunctionDef, ast.AsyncFunctionDef)):
                for d in s.decorator_list:
                    self.visit(d)
                for d in s.args.defaults + [x for x in s.args.kw_defaults if x is not None]:
                    self.visit(d)
            elif isinstance(s, ast.ClassDef):
                for d in s.decorator_list + s.bases + [k.value for k in s.keywords]:
                    if not (isinstance(d, (ast.Name, ast.Attribute))):   # plain base names are not "references"
                        self.visit(d)
                self._module_body(s.body)
            elif isinstance(s, (ast.If, ast.Try, ast.With, ast.For, ast.While)):
                for fld in ("test", "iter", "target"):
                    if getattr(s, fld, None) is not None:
                        self.visit(getattr(s, fld))
                for it in getattr(s, "items", []) or []:
                    self.visit(it)
                for fld in ("body", "orelse", "finalbody"):
                    self._module_body(getattr(s, fld, []) or [])
                for h in getattr(s, "handlers", []) or []:
                    self._module_body(h.body)
            else:
                self.visit(s)

    # ---- scope helpers
    def is_local(self, name):
        return any(name in s for s in self.scopes)

    def resolve(self, expr):
        ix = self.ix
        if isinstance(expr, ast.Name):
            n = expr.id
            if n == self.selfname and self.f.cls and len(self.scopes) >= 1 and not any(n in s for s in self.scopes[1:]):
                return ("inst", self.f.cls)
            if n == self.clsname and self.f.cls and not any(n in s for s in self.scopes[1:]):
                return ("clsobj", self.f.cls)
            if self.is_local(n):
                return ("local", n)
            if n in self.local_imports:
                return ix.resolve_binding(self.local_imports[n])
            r = ix.resolve_static(self.m, expr)
            if r is not None:
                return r
            return ("builtin", n)
        if isinstance(expr, ast.Attribute):
            # self.__class__ / type(self)
            if expr.attr == "__class__":
                r = self.resolve(expr.value)
                if r and r[0] == "inst":
                    return ("clsobj", r[1])
                return None
            r = self.resolve(expr.value)
            if r is None or r[0] in ("local", "builtin", "unknown-internal", "unknown-attr", "methods", "func"):
                return None
            return ix.attr_of(r, expr.attr)
        if isinstance(expr, ast.Call):
            fn = expr.func
            if isinstance(fn, ast.Name) and fn.id == "super" and self.f.cls and not self.is_local("super"):
                return ("super", self.f.cls)
            if isinstance(fn, ast.Name) and fn.id == "type" and len(expr.args) == 1:
                r = self.resolve(expr.args[0])
                if r and r[0] == "inst":
                    return ("clsobj", r[1])
                return None
            r = self.resolve(fn)
            if r and r[0] in ("class", "clsobj"):
                return ("inst", r[1])
            return None
        return None

    # ---- edges
    def _add_edge(self, callee, node, how):
        rec = {"line": getattr(node, "lineno", self.f.line), "how": how, "guards": [g for g in self.guards]}
        e = self.f.edges.get(callee)
        if e is None:
            self.f.edges[callee] = dict(rec, sites=[rec])
        else:
            e["sites"].append(rec)

    def _edges_for(self, r, node, how, call):
        """r is a resolution; add edges / primitives.  Returns True if the target was resolved to something definite."""
        ix = self.ix
        if r is None:
            return False
        t = r[0]
        if t == "func":
            self._add_edge(r[1], node, how + ":name")
            return True
        if t == "methods":
            for k in r[1]:
                self._add_edge(k, node, how + ":class-family")
            return True
        if t in ("class", "clsobj"):
            fam = ix.ancestors(r[1]) + (ix.descendants(r[1])[1:] if t == "clsobj" else [])
            for ck in fam:
                for ctor in ("__init__", "__new__", "__post_init__"):
                    for k in ix.classes[ck].methods.get(ctor, []):
                        self._add_edge(k, node, how + ":instantiate")
            return True
        if t == "external":
            if call is not None:
                self._external_call(r[1], call)
            return True
        if t == "builtin":
            if call is not None:
                self._external_call(r[1], call)
            return True
        if t == "module":
            return True
        return False

    def _prim(self, prim, node):
        self.f.prims.append({"prim": prim, "line": node.lineno, "text": ast.unparse(node)[:120],
                             "guards": [g for g in self.guards]})

    def _external_call(self, dotted, call):
        f = self.f
        if dotted in OPEN_LIKE:
            w, mode = mode_is_write(call, OPEN_LIKE[dotted])
            tgt = ast.unparse(call.args[0])[:80] if call.args else "?"
            f.opens.append({"callee": dotted, "line": call.lineno, "mode": mode, "write": w, "target": tgt})
            if w:
                self._prim(f"{dotted}[mode={mode}]", call)
            return
        if dotted in DUMP_WITH_STREAM:
            kwname, idx, always = DUMP_WITH_STREAM[dotted]
            has = len(call.args) > idx or any(k.arg == kwname or k.arg is None for k in call.keywords)
            if has:
                self._prim(dotted + "[stream]", call)
            return
        if dotted in PRIM_EXACT or dotted.startswith(PRIM_PREFIX):
            self._prim(dotted, call)
            return
        mod, _, leaf = dotted.rpartition(".")
        root = dotted.split(".")[0]
        if root in PRIM_MODULES and leaf not in PRIM_MODULES[root] and dotted != root:
            self._prim(dotted, call)
            return
        if dotted in DYNAMIC_CODE:
            const = bool(call.args) and all(isinstance(a, ast.Constant) for a in call.args[:1])
            f.dynamic.append({"what": dotted, "line": call.lineno, "text": ast.unparse(call)[:120], "constant_arg": const})

    def _attr_call_unknown(self, call):
        """`<unknown receiver>.attr(...)`"""
        fn = call.func
        attr = fn.attr
        recv = fn.value
        if isinstance(recv, (ast.Constant, ast.JoinedStr)):
            return                                  # method of a str/bytes literal
        # pluggy hook
        if isinstance(recv, ast.Attribute) and recv.attr == "hook" or (isinstance(recv, ast.Name) and recv.id == "hook"):
            impls = self.ix.hookimpls.get(attr, [])
            self.f.hookcalls.append({"hook": attr, "line": call.lineno, "impls": list(impls)})
            for k in impls:
                self._add_edge(k, call, "hook")
            return
        self._path_prims(call)
        if attr in DYNAMIC_ATTRS:
            self.f.dynamic.append({"what": "<loader>." + attr, "line": call.lineno, "text": ast.unparse(call)[:120],
                                   "constant_arg": False})
        for k in self.ix.methods_by_name.get(attr, []):
            self._add_edge(k, call, "call:by-name")

    def _path_prims(self, call):
        """pathlib-style primitives on a receiver that is not a package function/class"""
        fn = call.func
        attr, recv = fn.attr, fn.value
        if attr in PATH_METHODS:
            self._prim(f"<path>.{attr}", call)
        elif attr in PATH_METHODS_1ARG and len(call.args) == 1 and not call.keywords and not isinstance(call.args[0], ast.Starred):
            self._prim(f"<path>.{attr}", call)
        elif attr == "open":
            w, mode = mode_is_write(call, 0)
            self.f.opens.append({"callee": "<path>.open", "line": call.lineno, "mode": mode, "write": w,
                                 "target": ast.unparse(recv)[:80]})
            if w:
                self._prim(f"<path>.open[mode={mode}]", call)

    # ---- visitor
    def visit(self, n):
        meth = getattr(self, "v_" + type(n).__name__, None)
        if meth:
            return meth(n)
        for c in ast.iter_child_nodes(n):
            self.visit(c)

    def v_FunctionDef(self, n):
        for d in n.decorator_list:
            self.visit(d)
        for d in n.args.defaults + [x for x in n.args.kw_defaults if x is not None]:
            self.visit(d)
        self.scopes.append(_bound_names(n))
        for s in n.body:
            self.visit(s)
        self.scopes.pop()
    v_AsyncFunctionDef = v_FunctionDef

    def v_Lambda(self, n):
        self.scopes.append(_bound_names(n))
        self.visit(n.body)
        self.scopes.pop()

    def _comp(self, n):
        bound = set()
        for g in n.generators:
            for t in ast.walk(g.target):
                if isinstance(t, ast.Name):
                    bound.add(t.id)
        self.scopes.append(bound)
        for c in ast.iter_child_nodes(n):
            self.visit(c)
        self.scopes.pop()
    v_ListComp = v_SetComp = v_DictComp = v_GeneratorExp = _comp

    def v_ClassDef(self, n):
        # class defined inside a function: part of the enclosing function
        for c in ast.iter_child_nodes(n):
            self.visit(c)

    def v_If(self, n):
        self.visit(n.test)
        names = sorted({x.id for x in ast.walk(n.test) if isinstance(x, ast.Name)})
        txt = ast.unparse(n.test)[:80]
        self.guards.append({"branch": "if", "test": txt, "names": names, "conjuncts": _conjuncts(n.test)})
        for s in n.body:
            self.visit(s)
        self.guards.pop()
        self.guards.append({"branch": "else", "test": txt, "names": names, "conjuncts": []})
        for s in n.orelse:
            self.visit(s)
        self.guards.pop()

    def v_Import(self, n):
        return
    v_ImportFrom = v_Import

    def v_Call(self, n):
        fn = n.func
        handled = False
        if (isinstance(fn, ast.Call) and isinstance(fn.func, ast.Name) and fn.func.id == "getattr" and len(fn.args) >= 2
                and isinstance(fn.args[1], ast.Constant) and isinstance(fn.args[1].value, str)):
            # getattr(x, "name")(...)  ==  x.name(...)
            fn = ast.copy_location(ast.Attribute(value=fn.args[0], attr=fn.args[1].value, ctx=ast.Load()), fn)
            n = ast.copy_location(ast.Call(func=fn, args=n.args, keywords=n.keywords), n)
        leaf = fn.attr if isinstance(fn, ast.Attribute) else fn.id if isinstance(fn, ast.Name) else None
        if leaf:
            self.f.calls.setdefault(leaf, []).append(n)
        if isinstance(fn, ast.Name):
            r = self.resolve(fn)
            if r and r[0] == "local":
                handled = True                      # call of a local variable / parameter / nested def: charged at the reference
            else:
                handled = self._edges_for(r, n, "call", call=n)
                if r and r[0] in ("inst",):         # self(...)  -> __call__
                    for k in self.ix.family_methods(r[1], "__call__"):
                        self._add_edge(k, n, "call:__call__")
        elif isinstance(fn, ast.Attribute):
            r = self.resolve(fn)
            if r is not None and r[0] != "unknown-attr":
                handled = self._edges_for(r, n, "call", call=n)
            elif r is not None:
                # `self.m(...)` / `super().m(...)` / `Cls.m(...)` where no class of the family defines m: inherited from
                # an external base or an instance attribute holding a callable (charged where the callable is referenced)
                handled = True
                self._path_prims(n)
            if not handled:
                base = self.resolve(fn.value)
                if base and base[0] in ("module",):
                    handled = True                  # attribute of a package module that is not a def: data
                elif base and base[0] == "external":
                    handled = True
                else:
                    self._attr_call_unknown(n)
            # receiver expression may itself contain calls
            self.visit(fn.value)
        else:
            self.visit(fn)
        for a in n.args:
            self.visit(a)
        for k in n.keywords:
            self.visit(k.value)

    def v_Attribute(self, n):
        # non-call position
        if isinstance(n.ctx, ast.Load):
            r = self.resolve(n)
            if r is not None and r[0] in ("func", "methods", "class", "clsobj"):
                self._edges_for(r, n, "reference", call=None)
            elif r is None or r[0] == "unknown-attr":
                base = self.resolve(n.value)
                if not (base and base[0] in ("module", "external")):
                    for k in self.ix.methods_by_name.get(n.attr, []):
                        self._add_edge(k, n, "reference:by-name")
        self.visit(n.value)

    def v_Name(self, n):
        if isinstance(n.ctx, ast.Load):
            r = self.resolve(n)
            if r is not None and r[0] in ("func", "class"):
                self._edges_for(r, n, "reference", call=None)


def _conjuncts(test):
    if isinstance(test, ast.BoolOp) and isinstance(test.op, ast.And):
        out = []
        for v in test.values:
            out.extend(_conjuncts(v))
        return out
    if isinstance(test, ast.Name):
        return [test.id]
    return []
