"""pyvc.engine -- forward symbolic execution of real Python source into verification conditions.

The function body is read from the file CPython imports (inspect.getsource on the imported object),
parsed with `ast`, normalised (calls hoisted to statement level), and executed symbolically, path by
path.  Loops are cut at invariants taken from the sidecar, calls are replaced by the callee's contract
(or inlined from the callee's real source where the sidecar says `inline`).  Every proof obligation is
a pair (hypotheses, goal) of z3 terms.

Dropped from the verified text (and nothing else): docstrings, logger calls, typing.cast, type
annotations, the *text* of exception / assertion messages.
"""
from __future__ import annotations

import ast
import builtins
import hashlib
import inspect
import textwrap
from dataclasses import dataclass, field

import z3

from . import ty as T
from .ty import INT, BOOL, CHAR, NONE, SLICE, TStr, TList, TTuple, TOpt, TRec, TRef, TSet, TDict, TEnum, Ty
from .dsl import CONTRACTS, SPECS, LEMMAS, Spec, Lemma, Contract


class Unsupported(Exception):
    pass


class Stale(Exception):
    pass


# ----------------------------------------------------------------------------------------------
# symbolic values
# ----------------------------------------------------------------------------------------------
class V:
    __slots__ = ("ty", "z")

    def __init__(self, ty, z):
        self.ty = ty
        self.z = z

    def __repr__(self):
        return f"V({self.ty}, {self.z})"


class K:
    """A concrete Python constant whose symbolic type is fixed by context (str constants, tuples of them)."""
    __slots__ = ("v",)

    def __init__(self, v):
        self.v = v

    def __repr__(self):
        return f"K({self.v!r})"


class PyObj:
    """A concrete Python object visible to the verified code (module, class, function, exception class)."""
    __slots__ = ("o",)

    def __init__(self, o):
        self.o = o

    def __repr__(self):
        return f"PyObj({self.o!r})"


class BoundMethod:
    __slots__ = ("recv", "name", "node")

    def __init__(self, recv, name):
        self.recv = recv
        self.name = name


class STuple:
    """A Python-level tuple of symbolic values (kept structural until a z3 term is required)."""
    __slots__ = ("items",)

    def __init__(self, items):
        self.items = list(items)


class SDict:
    """A Python dict with constant string keys, kept structural (key set known per path)."""
    __slots__ = ("items",)

    def __init__(self, items):
        self.items = dict(items)

    def __repr__(self):
        return f"SDict({list(self.items)})"


NONE_V = None


def none_v():
    return V(NONE, NONE.sort().none_v)


def mk_int(n):
    return V(INT, z3.IntVal(n))


def mk_bool(b):
    return V(BOOL, z3.BoolVal(b))


def fresh(ty: Ty, base="v") -> V:
    return V(ty, z3.Const(T.fresh_name(base), ty.sort()))


def seq_arr(v: V):
    s = v.ty.sort()
    return s.arr(v.z)


def seq_len(v: V):
    if isinstance(v.ty, TStr):
        if v.ty.view == "native":
            return z3.Length(v.z)
        if v.ty.view == "opaque":
            return T.text_len()(v.z)
    return v.ty.sort().len(v.z)


def mk_seq(ty, arr, ln) -> V:
    s = ty.sort()
    return V(ty, s.constructor(0)(arr, ln))


def str_const(s: str, ty: TStr) -> V:
    if ty.view == "native":
        return V(ty, z3.StringVal(s))
    if ty.view == "opaque":
        if s == "":
            return V(ty, T.text_empty())
        c = z3.Const("txk_" + hashlib.md5(s.encode()).hexdigest()[:10], ty.sort())
        TEXT_LITERALS[s] = c
        return V(ty, c)
    arr = z3.K(z3.IntSort(), z3.IntVal(0))
    for i, ch in enumerate(s):
        arr = z3.Store(arr, i, ord(ch))
    return mk_seq(ty, arr, z3.IntVal(len(s)))


TEXT_LITERALS: dict = {}


def text_literal_axioms(bounded=False):
    """Distinct opaque-text literals denote distinct texts of the right length."""
    out = []
    lits = list(TEXT_LITERALS.items())
    if lits:
        out.append(z3.Distinct(T.text_empty(), *[c for _, c in lits]) if len(lits) >= 1 else z3.BoolVal(True))
        for sv, c in lits:
            out.append(T.text_len()(c) == len(sv))
    from . import ops
    out.extend(ops.global_axioms(bounded))
    return out


def is_str(t):
    return isinstance(t, TStr)


# ----------------------------------------------------------------------------------------------
# state
# ----------------------------------------------------------------------------------------------
class State:
    def __init__(self):
        self.env: dict = {}
        self.pc: list = []
        self.heap: dict = {}
        self.ghost: dict = {}
        self.trace: list = []
        self.old = None  # (env, heap) snapshot at function entry

    def fork(self):
        s = State()
        s.env = dict(self.env)
        s.pc = list(self.pc)
        s.heap = dict(self.heap)
        s.ghost = dict(self.ghost)
        s.trace = list(self.trace)
        s.old = self.old
        return s

    def assume(self, z):
        if z3.is_true(z):
            return
        self.pc.append(z)


@dataclass
class Obligation:
    name: str
    hyps: list
    goal: object
    kind: str
    func: str
    line: int = 0
    note: str = ""
    status: str = "open"
    backend: str = ""
    time_s: float = 0.0
    model: object = None
    undecided_reason: str = ""


# ----------------------------------------------------------------------------------------------
# normaliser: hoist calls that may fork (contracts with raises/modifies, inlined bodies) to statements
# ----------------------------------------------------------------------------------------------
PURE_BUILTINS = {"len", "min", "max", "abs", "int", "slice", "range", "isinstance", "tuple", "list", "all",
                 "any", "set", "zip", "enumerate", "sorted", "sum", "bool", "str", "cast", "reversed", "dict",
                 "frozenset", "repr", "type", "getattr", "hasattr", "id", "issubclass"}
PURE_METHODS = {"find", "rfind", "startswith", "endswith", "count", "get", "items", "keys", "values", "lower",
                "upper", "strip", "split", "join", "copy", "index", "isupper", "islower", "capitalize", "format",
                "lstrip", "rstrip", "replace", "casefold", "title", "splitlines", "isspace", "union", "difference",
                "intersection", "issubset", "isalpha", "isalnum", "isdigit"}
MUTATING_METHODS = {"append", "pop", "extend", "add", "update", "insert", "sort", "clear", "remove", "discard",
                    "setdefault", "reverse"}
LOGGER_NAMES = ("logger", "_logger")


def _is_logger_call(node) -> bool:
    if not isinstance(node, ast.Call) or not isinstance(node.func, ast.Attribute):
        return False
    v = node.func.value
    if isinstance(v, ast.Name) and (v.id.endswith("logger") or v.id.endswith("_logger")):
        return True
    if isinstance(v, ast.Attribute) and v.attr == "logger":
        return True
    return False


class Normalizer:
    """Rewrites a function body so that every call that is not a known-pure builtin/method sits alone in
    `tmp = call(...)`, `call(...)` or `return`/`x = call` position.  Pure-call detection is syntactic; the
    executor still decides (contract / inline / external) when it reaches the statement."""

    def __init__(self, is_pure_call):
        self.n = 0
        self.is_pure_call = is_pure_call

    def tmp(self):
        self.n += 1
        return f"_t{self.n}"

    def needs_hoist(self, e) -> bool:
        for n in ast.walk(e):
            if isinstance(n, ast.Call) and not self.is_pure_call(n):
                return True
            if isinstance(n, (ast.Yield, ast.YieldFrom, ast.NamedExpr)):
                return True
        return False

    def block(self, stmts):
        out = []
        for s in stmts:
            out.extend(self.stmt(s))
        return out

    def hoist(self, e, pre, top=False):
        """Return an expression equivalent to e with forking calls moved into `pre` (list of stmts)."""
        if e is None or not self.needs_hoist(e):
            return e
        if isinstance(e, ast.Call):
            if self.is_pure_call(e):
                e2 = ast.Call(func=self.hoist(e.func, pre), args=[self.hoist(a, pre) for a in e.args],
                              keywords=[ast.keyword(arg=k.arg, value=self.hoist(k.value, pre)) for k in e.keywords])
                return ast.copy_location(e2, e)
            func = e.func
            if isinstance(func, ast.Attribute):
                func = ast.copy_location(ast.Attribute(value=self.hoist(func.value, pre), attr=func.attr, ctx=ast.Load()), func)
            args = []
            for a in e.args:
                if isinstance(a, ast.Starred):
                    args.append(ast.copy_location(ast.Starred(value=self.hoist(a.value, pre), ctx=ast.Load()), a))
                else:
                    args.append(self.hoist(a, pre))
            kws = [ast.keyword(arg=k.arg, value=self.hoist(k.value, pre)) for k in e.keywords]
            call = ast.copy_location(ast.Call(func=func, args=args, keywords=kws), e)
            if top:
                return call
            t = self.tmp()
            pre.append(ast.copy_location(ast.Assign(targets=[ast.Name(id=t, ctx=ast.Store())], value=call), e))
            return ast.copy_location(ast.Name(id=t, ctx=ast.Load()), e)
        if isinstance(e, ast.BoolOp):
            # short-circuit: desugar   a and f(x)   into   t = a; if t: t = f(x)
            t = self.tmp()
            first = self.hoist(e.values[0], pre)
            pre.append(ast.copy_location(ast.Assign(targets=[ast.Name(id=t, ctx=ast.Store())], value=first), e))
            cur = pre
            for val in e.values[1:]:
                inner = []
                v2 = self.hoist(val, inner)
                inner.append(ast.copy_location(ast.Assign(targets=[ast.Name(id=t, ctx=ast.Store())], value=v2), e))
                test = ast.Name(id=t, ctx=ast.Load())
                if isinstance(e.op, ast.Or):
                    test = ast.UnaryOp(op=ast.Not(), operand=test)
                ifs = ast.copy_location(ast.If(test=test, body=inner, orelse=[]), e)
                cur.append(ifs)
                cur = inner
            return ast.copy_location(ast.Name(id=t, ctx=ast.Load()), e)
        if isinstance(e, ast.IfExp):
            t = self.tmp()
            test = self.hoist(e.test, pre)
            b, o = [], []
            bv = self.hoist(e.body, b)
            ov = self.hoist(e.orelse, o)
            b.append(ast.copy_location(ast.Assign(targets=[ast.Name(id=t, ctx=ast.Store())], value=bv), e))
            o.append(ast.copy_location(ast.Assign(targets=[ast.Name(id=t, ctx=ast.Store())], value=ov), e))
            pre.append(ast.copy_location(ast.If(test=test, body=b, orelse=o), e))
            return ast.copy_location(ast.Name(id=t, ctx=ast.Load()), e)
        if isinstance(e, (ast.ListComp, ast.GeneratorExp, ast.SetComp, ast.DictComp, ast.Lambda)):
            return e  # left for the evaluator (only pure contract calls are accepted there)
        if isinstance(e, ast.Yield):
            raise Unsupported("yield used as an expression")
        # generic: rebuild children left-to-right
        new = e.__class__()
        for f, val in ast.iter_fields(e):
            if isinstance(val, ast.expr):
                setattr(new, f, self.hoist(val, pre))
            elif isinstance(val, list):
                setattr(new, f, [self.hoist(x, pre) if isinstance(x, ast.expr) else x for x in val])
            else:
                setattr(new, f, val)
        return ast.copy_location(new, e)

    def stmt(self, s):
        pre = []
        if isinstance(s, ast.Expr):
            if isinstance(s.value, ast.Constant):
                return []  # docstring / bare constant
            if _is_logger_call(s.value):
                return []  # dropped (DESIGN 2.1)
            if isinstance(s.value, ast.Yield):
                v = self.hoist(s.value.value, pre) if s.value.value is not None else None
                return pre + [ast.copy_location(ast.Expr(value=ast.Yield(value=v)), s)]
            if isinstance(s.value, ast.YieldFrom):
                v = self.hoist(s.value.value, pre)
                return pre + [ast.copy_location(ast.Expr(value=ast.YieldFrom(value=v)), s)]
            v = self.hoist(s.value, pre, top=True)
            return pre + [ast.copy_location(ast.Expr(value=v), s)]
        if isinstance(s, ast.Assign):
            v = self.hoist(s.value, pre, top=True)
            tg = [self.hoist_target(t, pre) for t in s.targets]
            return pre + [ast.copy_location(ast.Assign(targets=tg, value=v), s)]
        if isinstance(s, ast.AnnAssign):
            if s.value is None:
                return []
            v = self.hoist(s.value, pre, top=True)
            return pre + [ast.copy_location(ast.Assign(targets=[self.hoist_target(s.target, pre)], value=v), s)]
        if isinstance(s, ast.AugAssign):
            v = self.hoist(s.value, pre)
            return pre + [ast.copy_location(ast.AugAssign(target=s.target, op=s.op, value=v), s)]
        if isinstance(s, ast.Return):
            v = self.hoist(s.value, pre) if s.value is not None else None
            return pre + [ast.copy_location(ast.Return(value=v), s)]
        if isinstance(s, ast.If):
            t = self.hoist(s.test, pre)
            return pre + [ast.copy_location(ast.If(test=t, body=self.block(s.body), orelse=self.block(s.orelse)), s)]
        if isinstance(s, ast.While):
            inner = []
            t = self.hoist(s.test, inner)
            body = self.block(s.body)
            if inner:
                brk = ast.copy_location(ast.If(test=ast.UnaryOp(op=ast.Not(), operand=t), body=[ast.Break()], orelse=[]), s)
                ast.fix_missing_locations(brk)
                if s.orelse:
                    raise Unsupported("while/else with effectful condition")
                w = ast.While(test=ast.Constant(value=True), body=inner + [brk] + body, orelse=[])
            else:
                w = ast.While(test=t, body=body, orelse=self.block(s.orelse))
            w._ordinal_src = s
            return [ast.copy_location(w, s)]
        if isinstance(s, ast.For):
            it = self.hoist(s.iter, pre)
            f = ast.For(target=s.target, iter=it, body=self.block(s.body), orelse=self.block(s.orelse))
            return pre + [ast.copy_location(f, s)]
        if isinstance(s, ast.Raise):
            e = s.exc
            # the message text is dropped; the class (and a possible `from`) is kept
            return [s]
        if isinstance(s, ast.Assert):
            t = self.hoist(s.test, pre)
            return pre + [ast.copy_location(ast.Assert(test=t, msg=None), s)]
        if isinstance(s, ast.Try):
            hs = [ast.copy_location(ast.ExceptHandler(type=h.type, name=h.name, body=self.block(h.body)), h)
                  for h in s.handlers]
            return [ast.copy_location(ast.Try(body=self.block(s.body), handlers=hs, orelse=self.block(s.orelse),
                                              finalbody=self.block(s.finalbody)), s)]
        if isinstance(s, ast.With):
            items = []
            for it in s.items:
                ce = self.hoist(it.context_expr, pre)
                items.append(ast.withitem(context_expr=ce, optional_vars=it.optional_vars))
            return pre + [ast.copy_location(ast.With(items=items, body=self.block(s.body)), s)]
        if isinstance(s, (ast.Pass, ast.Break, ast.Continue, ast.Global, ast.Nonlocal, ast.Delete)):
            return [s]
        if isinstance(s, (ast.Import, ast.ImportFrom)):
            return [s]
        if isinstance(s, (ast.FunctionDef, ast.ClassDef)):
            return [s]
        raise Unsupported(f"statement {s.__class__.__name__} at line {getattr(s, 'lineno', '?')}")

    def hoist_target(self, t, pre):
        if isinstance(t, ast.Subscript):
            return ast.copy_location(ast.Subscript(value=self.hoist(t.value, pre), slice=self.hoist(t.slice, pre), ctx=ast.Store()), t)
        if isinstance(t, ast.Attribute):
            return ast.copy_location(ast.Attribute(value=self.hoist(t.value, pre), attr=t.attr, ctx=ast.Store()), t)
        return t


# ----------------------------------------------------------------------------------------------
# source loading
# ----------------------------------------------------------------------------------------------
def resolve_key(key: str):
    """'module:Qual.name' -> (real object, owner class or None).
    A name bound to a closure-based decorator wrapper (no __wrapped__) denotes the *decorated* function, found in
    the wrapper's closure by its __qualname__; 'module:Qual.name@wrapper' denotes the wrapper itself."""
    import importlib
    key = key.split("#", 1)[0]        # "module:Qual.name#variant": another contract (concrete parameters) of one function
    want_wrapper = key.endswith("@wrapper")
    if want_wrapper:
        key = key[:-len("@wrapper")]
    mod, _, qual = key.partition(":")
    m = importlib.import_module(mod)
    obj = m
    owner = None
    for part in qual.split("."):
        owner = obj if inspect.isclass(obj) else None
        obj = inspect.getattr_static(obj, part) if inspect.isclass(obj) else getattr(obj, part)
    if not want_wrapper:
        fn = obj.__func__ if isinstance(obj, (staticmethod, classmethod)) else obj
        if inspect.isfunction(fn) and fn.__qualname__ != qual and fn.__closure__ and not hasattr(fn, "__wrapped__"):
            for cell in fn.__closure__:
                try:
                    inner = cell.cell_contents
                except ValueError:
                    continue
                if inspect.isfunction(inner) and inner.__qualname__ == qual:
                    obj = inner
                    break
    return obj, owner


def unwrap_callable(obj):
    kind = "function"
    if isinstance(obj, staticmethod):
        obj, kind = obj.__func__, "static"
    elif isinstance(obj, classmethod):
        obj, kind = obj.__func__, "classmethod"
    elif isinstance(obj, property):
        obj, kind = obj.fget, "property"
    elif hasattr(obj, "func") and obj.__class__.__name__ == "cached_property":
        obj, kind = obj.func, "property"
    if obj.__class__.__name__ in ("Command", "Group") and hasattr(obj, "callback"):
        obj = obj.callback            # a click command: the decorated function is its callback
    while hasattr(obj, "__wrapped__"):
        obj = obj.__wrapped__
    return obj, kind


def _stmt_lists(node):
    """every statement list below `node` (function bodies excluded)"""
    for field in ("body", "orelse", "finalbody"):
        lst = getattr(node, field, None)
        if isinstance(lst, list) and lst and isinstance(lst[0], ast.stmt):
            yield lst
            for st in lst:
                if not isinstance(st, (ast.FunctionDef, ast.AsyncFunctionDef, ast.ClassDef)):
                    yield from _stmt_lists(st)
    for h in getattr(node, "handlers", []) or []:
        yield from _stmt_lists(h)
    for c in getattr(node, "cases", []) or []:
        yield from _stmt_lists(c)


def extract_region(key, node, src, region):
    """Mechanical extraction of a statement range of the real function as a synthetic FunctionDef over the region's
    declared free variables.  Dropped: every statement of the function outside the range (named in the evidence)."""
    start, end, params = region
    lines = src.splitlines()

    def first_line(st):
        return lines[st.lineno - 1].strip()
    hits = [(lst, i) for lst in _stmt_lists(node) for i, st in enumerate(lst) if first_line(st) == start]
    if len(hits) != 1:
        raise Stale(f"{key}: region start {start!r} matches {len(hits)} statements (need exactly 1)")
    lst, i = hits[0]
    j = len(lst)
    if end is not None:
        js = [k for k in range(i + 1, len(lst)) if first_line(lst[k]) == end]
        if len(js) != 1:
            raise Stale(f"{key}: region end {end!r} matches {len(js)} statements after the start in its block (need exactly 1)")
        j = js[0]
    body = lst[i:j]
    fd = ast.FunctionDef(name=node.name + "__region", args=ast.arguments(posonlyargs=[], args=[ast.arg(arg=p) for p in params],
                         vararg=None, kwonlyargs=[], kw_defaults=[], kwarg=None, defaults=[]), body=body, decorator_list=[],
                         returns=None, type_comment=None)
    fd.lineno, fd.col_offset = body[0].lineno, body[0].col_offset
    fd.end_lineno, fd.end_col_offset = body[-1].end_lineno, body[-1].end_col_offset
    ast.fix_missing_locations(fd)
    return fd


_src_cache: dict = {}


def load_function(key: str):
    """Return (FunctionDef node, real function object, kind, sha256 of the source segment)."""
    if key in _src_cache:
        return _src_cache[key]
    obj, owner = resolve_key(key)
    fn, kind = unwrap_callable(obj)
    src = inspect.getsource(fn)
    src = textwrap.dedent(src)
    shift = 0
    try:
        tree = ast.parse(src)
        node = tree.body[0]
    except IndentationError:
        # a method whose body contains a multi-line string with unindented lines cannot be dedented: parse it in place, under a
        # dummy block (one extra line above: compensated below)
        tree = ast.parse("if 1:\n" + src)
        node = tree.body[0].body[0]
        shift = 1
    if not isinstance(node, (ast.FunctionDef, ast.AsyncFunctionDef)):
        raise Unsupported(f"{key}: not a function")
    # cross-check against the file on disk that the import system resolved
    fname = inspect.getsourcefile(fn)
    lines, start = inspect.getsourcelines(fn)
    with open(fname, encoding="utf-8") as fh:
        disk = fh.read().splitlines(keepends=True)
    if "".join(disk[start - 1:start - 1 + len(lines)]) != "".join(lines):
        raise Stale(f"{key}: imported source differs from file on disk")
    sha = hashlib.sha256(src.encode()).hexdigest()
    from .dsl import REGIONS
    if key in REGIONS:
        if shift:
            raise Unsupported(f"{key}: region of a function whose source cannot be dedented")
        node = extract_region(key, node, src, REGIONS[key])
    ast.increment_lineno(node, start - 1 - shift)
    res = (node, fn, kind, sha, fname, owner)
    _src_cache[key] = res
    return res


def key_of(obj) -> str | None:
    fn, _ = unwrap_callable(obj)
    m = getattr(fn, "__module__", None)
    q = getattr(fn, "__qualname__", None)
    if m is None or q is None:
        return None
    return f"{m}:{q}"
