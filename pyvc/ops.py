"""pyvc.ops -- operations on symbolic values (typed dispatch), shared by executor and contract compiler."""
from __future__ import annotations

import z3

from . import ty as T
from .ty import INT, BOOL, CHAR, NONE, SLICE, TStr, TList, TTuple, TOpt, TRec, TRef, TSet, TDict, TEnum, Ty
from .engine import SDict, V, K, PyObj, STuple, Unsupported, none_v, mk_int, mk_bool, fresh, seq_arr, seq_len, mk_seq, str_const, is_str

# refutation mode: expand quantifiers over 0..BOUND and bound every fresh sequence length
MODE = {"bounded": None, "side": [], "pure": False}   # pure: inside a recursive definition (no fresh constants / assumptions)


def coerce(v, ty: Ty, st=None):
    """Convert v (V | K | STuple) to a V of static type ty."""
    if ty == T.SINK:
        return v if isinstance(v, V) and v.ty == T.SINK else fresh(T.SINK, "sink")   # anything may flow into a sink
    if isinstance(v, K):
        c = v.v
        if c is None:
            if isinstance(ty, TOpt):
                return V(ty, ty.sort().none)
            if ty == NONE:
                return none_v()
            raise Unsupported(f"None where {ty} expected")
        if isinstance(c, bool):
            return coerce(mk_bool(c), ty)
        if isinstance(c, int):
            return coerce(mk_int(c), ty)
        if isinstance(c, str):
            if isinstance(ty, TOpt):
                return V(ty, ty.sort().some(coerce(v, ty.inner).z))
            if ty == CHAR:
                if len(c) != 1:
                    raise Unsupported("multi-char constant as char")
                return V(CHAR, z3.IntVal(ord(c)))
            if isinstance(ty, TEnum):
                if c not in ty.tags:
                    raise Unsupported(f"constant {c!r} not in enum {ty.name}")
                return V(ty, ty.const(c))
            if is_str(ty):
                return str_const(c, ty)
            raise Unsupported(f"str constant where {ty} expected")
        if isinstance(c, tuple):
            return coerce(STuple([K(x) for x in c]), ty)
        raise Unsupported(f"constant {c!r}")
    if isinstance(v, STuple):
        if isinstance(ty, TOpt):
            return V(ty, ty.sort().some(coerce(v, ty.inner).z))
        if isinstance(ty, TTuple):
            if len(ty.elems) != len(v.items):
                raise Unsupported("tuple arity mismatch")
            zs = [coerce(x, t).z for x, t in zip(v.items, ty.elems)]
            return V(ty, ty.sort().constructor(0)(*zs))
        if isinstance(ty, TList):
            return list_literal([coerce(x, ty.elem) for x in v.items], ty)
        raise Unsupported(f"tuple where {ty} expected")
    if isinstance(v, SDict):
        if isinstance(ty, TOpt):
            return V(ty, ty.sort().some(coerce(v, ty.inner).z))
        if isinstance(ty, TRec) and ty.is_dict:
            if set(v.items) != set(ty.fields):
                raise Unsupported(f"dict keys {sorted(v.items)} where {sorted(ty.fields)} expected")
            return rec_make(ty, v.items)
        raise Unsupported(f"dict where {ty} expected")
    if isinstance(v, PyObj):
        if v.o == ("emptyset",) and isinstance(ty, T.TSet):
            return V(ty, z3.K(ty.elem.sort(), False))      # `set()` where a set of a declared type is expected (e.g. `return set()`)
        if isinstance(v.o, tuple) and v.o and v.o[0] == "setlit" and isinstance(ty, T.TSet):
            z = z3.K(ty.elem.sort(), False)                # `{a, b}` where a set of a declared type is expected
            for it in v.o[1]:
                z = z3.Store(z, coerce(it, ty.elem).z, True)
            return V(ty, z)
        raise Unsupported(f"python object {v.o!r} where {ty} expected")
    if v.ty == ty:
        return v
    if isinstance(ty, TOpt) and isinstance(v.ty, TOpt) and isinstance(ty.inner, TRef) and isinstance(v.ty.inner, TRef):
        # Optional reference seen at another class of its family: None stays None
        si, so = v.ty.sort(), ty.sort()
        return V(ty, z3.If(si.is_none(v.z), so.none, so.some(si.v(v.z))))
    if isinstance(ty, TOpt):
        if v.ty == NONE:
            return V(ty, ty.sort().none)
        return V(ty, ty.sort().some(coerce(v, ty.inner).z))
    if ty == T.Text and is_str(v.ty) and v.ty.view == "array":
        USED["tx_of"] = True
        USED.setdefault("tx_of_terms", {})[v.z.get_id()] = v.z
        return V(ty, tx_of()(v.z))
    if ty == INT and v.ty == BOOL:
        return V(INT, z3.If(v.z, 1, 0))
    if ty == INT and v.ty == CHAR:
        return V(INT, v.z)
    if isinstance(v.ty, TOpt) and v.ty.inner == ty:
        # narrowing (the caller is responsible for having established `is not None`)
        return V(ty, v.ty.sort().v(v.z))
    if isinstance(ty, TRef) and isinstance(v.ty, TRef):
        return V(ty, v.z)  # sub/superclass views share the reference
    if isinstance(ty, TRef) and isinstance(v.ty, TOpt) and isinstance(v.ty.inner, TRef):
        return V(ty, v.ty.sort().v(v.z))  # narrowing of an Optional reference, then the class view (as the two cases above)
    raise Unsupported(f"cannot coerce {v.ty} to {ty}")


USED: dict = {}


def tx_of():
    """array-view string regarded as an opaque text (only its length is carried over)"""
    return T._dt("Text.of", lambda: z3.Function("tx_of", T.StrA.sort(), T.Text.sort()))


def global_axioms(bounded=False):
    out = []
    if USED.get("tx_of"):
        if bounded:
            # refutation mode must stay quantifier-free: ground instances for the terms actually converted
            for t in USED.get("tx_of_terms", {}).values():
                out.append(T.text_len()(tx_of()(t)) == T.StrA.sort().len(t))
        else:
            x = z3.Const("txof_x", T.StrA.sort())
            out.append(z3.ForAll([x], T.text_len()(tx_of()(x)) == T.StrA.sort().len(x), patterns=[tx_of()(x)]))
    return out


def infer_ty(v, hint=None) -> Ty:
    if isinstance(v, V):
        return v.ty
    if isinstance(v, K):
        c = v.v
        if isinstance(c, bool):
            return BOOL
        if isinstance(c, int):
            return INT
        if c is None:
            return NONE
        if isinstance(c, str):
            return hint if hint is not None else T.StrA
        if isinstance(c, tuple):
            return TTuple(*[infer_ty(K(x)) for x in c])
    if isinstance(v, STuple):
        return TTuple(*[infer_ty(x) for x in v.items])
    raise Unsupported(f"cannot type {v!r}")


def to_v(v, hint=None) -> V:
    if isinstance(v, V):
        return v
    return coerce(v, infer_ty(v, hint))


def list_literal(items, lty: TList) -> V:
    arr = z3.K(z3.IntSort(), default_val(lty.elem))
    for i, it in enumerate(items):
        arr = z3.Store(arr, i, it.z)
    return mk_seq(lty, arr, z3.IntVal(len(items)))


def default_val(ty: Ty):
    s = ty.sort()
    if ty in (INT, CHAR):
        return z3.IntVal(0)
    if ty == BOOL:
        return z3.BoolVal(False)
    return z3.Const("dflt_" + T._mangle(ty.key), s)


def sdict_of(v):
    """View a dict-like record as a structural dict."""
    if isinstance(v, SDict):
        return v
    if isinstance(v, V) and isinstance(v.ty, TRec) and v.ty.is_dict:
        return SDict({f: rec_get(v, f) for f in v.ty.fields})
    return None


def truthy(v):
    if isinstance(v, SDict):
        return z3.BoolVal(len(v.items) > 0)
    if isinstance(v, K):
        return z3.BoolVal(bool(v.v))
    if isinstance(v, STuple):
        return z3.BoolVal(len(v.items) > 0)
    if isinstance(v, PyObj):
        return z3.BoolVal(bool(v.o))
    t = v.ty
    if t == T.SINK:
        return z3.Bool(T.fresh_name("sink_truth"))     # unknown: both branches are explored
    if t == BOOL:
        return v.z
    if t in (INT, CHAR):
        return v.z != 0
    if t == NONE:
        return z3.BoolVal(False)
    if isinstance(t, TOpt):
        s = t.sort()
        inner = V(t.inner, s.v(v.z))
        return z3.And(s.is_some(v.z), truthy(inner))
    if is_str(t) or isinstance(t, TList):
        return seq_len(v) > 0
    if isinstance(t, T.TSet):
        return v.z != z3.K(t.elem.sort(), False)       # a set is truthy iff it is not the empty set (extensional)
    if isinstance(t, TEnum):
        return z3.BoolVal(True)
    if isinstance(t, TRef):
        hook = REC_TRUTHY.get(t.cls)
        if hook:
            return hook(v)
        if _custom_truth(_real_class(t.cls, ref=True)):
            raise Unsupported(f"truthiness of {t.cls}: the class defines __bool__/__len__ (declare ops.REC_TRUTHY[{t.cls!r}])")
        return z3.BoolVal(True)
    if isinstance(t, TRec):
        hook = REC_TRUTHY.get(t.name)
        if hook:
            return hook(v)
        if _custom_truth(_real_class(getattr(t, "cls", None), ref=False)):
            raise Unsupported(f"truthiness of {t.name}: the class defines __bool__/__len__ (declare ops.REC_TRUTHY[{t.name!r}])")
        return z3.BoolVal(True)
    if isinstance(t, TTuple):
        return z3.BoolVal(len(t.elems) > 0)
    if isinstance(t, TDict):
        raise Unsupported("truthiness of dict")
    raise Unsupported(f"truthiness of {t}")


REC_TRUTHY: dict = {}


def _real_class(key, ref):
    try:
        if ref:
            from .exec import CLASS_OBJ
            return CLASS_OBJ.get(key)
        if key is None:
            return None
        from .exec import resolve_class
        return resolve_class(key)
    except Exception:
        return None


def _custom_truth(cls) -> bool:
    """does the real class give its instances a truth value other than `always true`?"""
    if cls is None or not isinstance(cls, type):
        return False
    for k in cls.__mro__:
        if k in (object, tuple, dict, BaseException, Exception):
            continue
        if "__bool__" in k.__dict__ or "__len__" in k.__dict__:
            return True
    return False


def is_none(v):
    if isinstance(v, SDict):
        return z3.BoolVal(False)
    if isinstance(v, K):
        return z3.BoolVal(v.v is None)
    if isinstance(v, (STuple, PyObj)):
        return z3.BoolVal(False)
    if v.ty == NONE:
        return z3.BoolVal(True)
    if isinstance(v.ty, TOpt):
        return v.ty.sort().is_none(v.z)
    return z3.BoolVal(False)


def unwrap_opt(v: V) -> V:
    if isinstance(v, V) and isinstance(v.ty, TOpt):
        return V(v.ty.inner, v.ty.sort().v(v.z))
    return v


def seq_eq(a: V, b: V):
    """Python == on two sequences of the same type: same length and same elements below the length."""
    if is_str(a.ty) and a.ty.view != "array":
        return a.z == b.z
    i = z3.Int(T.fresh_name("qe"))
    la, lb = seq_len(a), seq_len(b)
    ea, eb = z3.Select(seq_arr(a), i), z3.Select(seq_arr(b), i)
    et = CHAR if is_str(a.ty) else a.ty.elem
    body = z3.Implies(z3.And(0 <= i, i < la), val_eq(V(et, ea), V(et, eb)))
    return z3.And(la == lb, forall([i], body, (0, la)))


def val_eq(a, b):
    """Python == between two values."""
    if isinstance(a, V) and a.ty == T.SINK and isinstance(b, V) and b.ty == T.SINK:
        return a.z == b.z          # same abstract value => equal; otherwise the solver is free to choose
    if (isinstance(a, V) and a.ty == T.SINK) or (isinstance(b, V) and b.ty == T.SINK):
        return z3.Bool(T.fresh_name("sink_eq"))
    if isinstance(a, K) and isinstance(b, K):
        return z3.BoolVal(a.v == b.v)
    if isinstance(a, PyObj) and isinstance(a.o, tuple) and a.o and a.o[0] == "setlit" and isinstance(b, V):
        a, b = b, a
    if isinstance(b, PyObj) and isinstance(b.o, tuple) and b.o and b.o[0] == "setlit" and isinstance(a, V) and isinstance(a.ty, TSet):
        x = z3.Const(T.fresh_name("qx"), a.ty.elem.sort())
        items = [coerce(it, a.ty.elem).z for it in b.o[1]]
        return z3.ForAll([x], z3.Select(a.z, x) == (z3.Or(*[x == it for it in items]) if items else z3.BoolVal(False)))
    if isinstance(a, PyObj) or isinstance(b, PyObj):
        if isinstance(a, PyObj) and isinstance(b, PyObj):
            return z3.BoolVal(a.o == b.o)
        raise Unsupported("== between python object and symbolic value")
    if isinstance(a, STuple) and isinstance(b, STuple):
        if len(a.items) != len(b.items):
            return z3.BoolVal(False)
        return z3.And(*[val_eq(x, y) for x, y in zip(a.items, b.items)]) if a.items else z3.BoolVal(True)
    if isinstance(a, (K, STuple)) and isinstance(b, V):
        a, b = b, a
    if isinstance(b, (K, STuple)):
        if isinstance(b, K) and b.v is None:
            return is_none(a)
        if isinstance(a.ty, TOpt):
            s = a.ty.sort()
            try:
                inner = coerce(b, a.ty.inner)
            except Unsupported:
                return z3.BoolVal(False)
            return z3.And(s.is_some(a.z), val_eq(V(a.ty.inner, s.v(a.z)), inner))
        if isinstance(b, K) and isinstance(b.v, str) and a.ty == INT:
            return z3.BoolVal(False)
        if isinstance(b, K) and isinstance(b.v, str) and isinstance(a.ty, TEnum) and b.v not in a.ty.tags:
            return z3.BoolVal(False)
        if isinstance(b, K) and isinstance(b.v, str) and a.ty == CHAR and len(b.v) != 1:
            return z3.BoolVal(False)
        if isinstance(b, STuple) and isinstance(a.ty, TTuple) and len(a.ty.elems) == len(b.items):
            return z3.And(*[val_eq(tuple_get(a, i), x) for i, x in enumerate(b.items)])
        b = coerce(b, a.ty)
    if a.ty != b.ty:
        if isinstance(a.ty, TOpt) and not isinstance(b.ty, TOpt):
            s = a.ty.sort()
            if b.ty == NONE:
                return s.is_none(a.z)
            return z3.And(s.is_some(a.z), val_eq(V(a.ty.inner, s.v(a.z)), coerce(b, a.ty.inner)))
        if isinstance(b.ty, TOpt):
            return val_eq(b, a)
        if {a.ty, b.ty} <= {INT, BOOL, CHAR}:
            return coerce(a, INT).z == coerce(b, INT).z
        if a.ty == NONE or b.ty == NONE:
            return z3.BoolVal(False)
        if isinstance(a.ty, TRef) and isinstance(b.ty, TRef):
            return a.z == b.z
        raise Unsupported(f"== between {a.ty} and {b.ty}")
    t = a.ty
    if (is_str(t) and t.view == "array") or isinstance(t, TList):
        return seq_eq(a, b)
    if isinstance(t, TTuple):
        return z3.And(*[val_eq(tuple_get(a, i), tuple_get(b, i)) for i in range(len(t.elems))]) if t.elems else z3.BoolVal(True)
    if isinstance(t, TRec):
        if any(isinstance(ft, TList) or (is_str(ft) and ft.view == "array") for ft in t.fields.values()):
            return z3.And(*[val_eq(rec_get(a, f), rec_get(b, f)) for f in t.fields])
        return a.z == b.z
    if isinstance(t, TOpt):
        s = t.sort()
        if isinstance(t.inner, (TList, TTuple, TRec)) or (is_str(t.inner) and t.inner.view == "array"):
            return z3.Or(z3.And(s.is_none(a.z), s.is_none(b.z)),
                         z3.And(s.is_some(a.z), s.is_some(b.z), val_eq(V(t.inner, s.v(a.z)), V(t.inner, s.v(b.z)))))
        return a.z == b.z
    return a.z == b.z


def tuple_get(v, i: int):
    if isinstance(v, STuple):
        return v.items[i]
    if isinstance(v, K):
        return K(v.v[i])
    t = v.ty
    if not isinstance(t, TTuple):
        raise Unsupported(f"tuple index on {t}")
    return V(t.elems[i], t.sort().accessor(0, i)(v.z))


def rec_get(v: V, f: str) -> V:
    t = v.ty
    i = t.index(f)
    return V(t.fields[f], t.sort().accessor(0, i)(v.z))


def rec_make(t: TRec, vals: dict) -> V:
    zs = [coerce(vals[f], ft).z for f, ft in t.fields.items()]
    return V(t, t.sort().constructor(0)(*zs))


def note_range(lo, hi):
    """Refutation mode expands integer quantifiers over -1..BOUND: only sound for counter-models in which every
    quantified range lies inside that window -- recorded as a side constraint of the bounded query."""
    b = MODE["bounded"]
    if b is not None:
        MODE["side"].append(z3.Or(hi <= lo, z3.And(lo >= -1, hi <= b + 1)))


def forall(vars_, body, rng=None):
    """Universal quantifier; in bounded (refutation) mode expand over 0..BOUND."""
    b = MODE["bounded"]
    if b is None or any(v.sort() != z3.IntSort() for v in vars_):
        return z3.ForAll(vars_, body)
    import itertools
    insts = []
    for combo in itertools.product(range(-1, b + 1), repeat=len(vars_)):
        insts.append(z3.substitute(body, *[(v, z3.IntVal(c)) for v, c in zip(vars_, combo)]))
    # double negation keeps the expansion one unit (obligation splitting follows the contract text only)
    return z3.Not(z3.Not(z3.And(*insts)))


def exists(vars_, body):
    b = MODE["bounded"]
    if b is None or any(v.sort() != z3.IntSort() for v in vars_):
        return z3.Exists(vars_, body)
    import itertools
    insts = []
    for combo in itertools.product(range(-1, b + 1), repeat=len(vars_)):
        insts.append(z3.substitute(body, *[(v, z3.IntVal(c)) for v, c in zip(vars_, combo)]))
    return z3.Or(*insts)


def fresh_seq(ty, st, base="s"):
    v = fresh(ty, base)
    if (is_str(ty) and ty.view != "native") or isinstance(ty, TList):
        st.assume(seq_len(v) >= 0)
    constrain_bounded(v, st)
    return v


def constrain_bounded(v: V, st):
    b = MODE["bounded"]
    if b is None:
        return
    t = v.ty
    if is_str(t) and t.view == "native" and MODE.get("free_native_str"):
        return
    if isinstance(t, TList) or is_str(t):
        st.assume(seq_len(v) <= b)


def wf_assumptions(v: V, st, depth=0):
    """Type invariants of a fresh input value: lengths are non-negative, chars are code points."""
    t = v.ty
    if isinstance(t, TList):
        st.assume(seq_len(v) >= 0)
        constrain_bounded(v, st)
        if depth < 2 and needs_wf(t.elem):
            i = z3.Int(T.fresh_name("wf"))
            sub = _Collector()
            wf_assumptions(V(t.elem, z3.Select(seq_arr(v), i)), sub, depth + 1)
            if sub.pc:
                st.assume(forall([i], z3.Implies(z3.And(0 <= i, i < seq_len(v)), z3.And(*sub.pc))))
    elif is_str(t):
        if t.view == "array":
            st.assume(seq_len(v) >= 0)
            constrain_bounded(v, st)
        elif t.view == "opaque":
            st.assume(seq_len(v) >= 0)
        else:
            constrain_bounded(v, st)
    elif isinstance(t, TTuple):
        for i in range(len(t.elems)):
            wf_assumptions(tuple_get(v, i), st, depth)
    elif isinstance(t, TRec):
        for f in t.fields:
            wf_assumptions(rec_get(v, f), st, depth)
    elif isinstance(t, TOpt):
        if needs_wf(t.inner):
            sub = _Collector()
            wf_assumptions(V(t.inner, t.sort().v(v.z)), sub, depth)
            if sub.pc:
                st.assume(z3.Implies(t.sort().is_some(v.z), z3.And(*sub.pc)))


class _Collector:
    def __init__(self):
        self.pc = []

    def assume(self, z):
        self.pc.append(z)


def needs_wf(t: Ty) -> bool:
    if isinstance(t, TList) or is_str(t):
        return True
    if isinstance(t, TTuple):
        return any(needs_wf(e) for e in t.elems)
    if isinstance(t, TRec):
        return any(needs_wf(e) for e in t.fields.values())
    if isinstance(t, TOpt):
        return needs_wf(t.inner)
    return False


def norm_index(idx, ln):
    """Python index normalisation for a single subscript (negative counts from the end)."""
    return z3.If(idx < 0, idx + ln, idx)


def clamp_slice(lo, hi, ln):
    """Python slice clamping for s[lo:hi] (unit step); lo/hi are z3 ints or None."""
    if lo is None:
        lo2 = z3.IntVal(0)
    else:
        lo2 = z3.If(lo < 0, z3.If(lo + ln < 0, 0, lo + ln), z3.If(lo > ln, ln, lo))
    if hi is None:
        hi2 = ln
    else:
        hi2 = z3.If(hi < 0, z3.If(hi + ln < 0, 0, hi + ln), z3.If(hi > ln, ln, hi))
    return lo2, hi2


def seq_slice(v: V, lo, hi, st) -> V:
    t = v.ty
    ln = seq_len(v)
    lo2, hi2 = clamp_slice(lo, hi, ln)
    if is_str(t) and t.view == "native":
        n = z3.If(hi2 > lo2, hi2 - lo2, 0)
        return V(t, z3.SubString(v.z, lo2, n))
    if is_str(t) and t.view == "opaque":
        r = V(t, text_sub()(v.z, lo2, z3.If(hi2 > lo2, hi2, lo2)))
        st.assume(seq_len(r) == z3.If(hi2 > lo2, hi2 - lo2, 0))
        st.assume(z3.Implies(z3.And(lo2 == 0, hi2 == ln), r.z == v.z))
        st.assume(z3.Implies(hi2 <= lo2, r.z == T.text_empty()))
        return r
    r = fresh(t, "sl")
    n = z3.If(hi2 > lo2, hi2 - lo2, 0)
    st.assume(seq_len(r) == n)
    i = z3.Int(T.fresh_name("qs"))
    st.assume(forall([i], z3.Implies(z3.And(0 <= i, i < n), z3.Select(seq_arr(r), i) == z3.Select(seq_arr(v), i + lo2))))
    return r


def text_sub():
    s = T.Text.sort()
    return T._dt("Text.sub", lambda: z3.Function("tx_sub", s, z3.IntSort(), z3.IntSort(), s))


def seq_concat(a: V, b: V, st) -> V:
    t = a.ty
    if is_str(t) and t.view == "native":
        return V(t, z3.Concat(a.z, b.z))
    if is_str(t) and t.view == "opaque":
        r = V(t, T.text_concat()(a.z, b.z))
        st.assume(seq_len(r) == seq_len(a) + seq_len(b))
        st.assume(z3.Implies(b.z == T.text_empty(), r.z == a.z))
        st.assume(z3.Implies(a.z == T.text_empty(), r.z == b.z))
        return r
    la, lb = seq_len(a), seq_len(b)
    if MODE.get("pure"):
        # a definition body must be a closed term of its formals: build the concatenation as a term
        if z3.is_int_value(z3.simplify(lb)) and z3.simplify(lb).as_long() == 1:
            return mk_seq(t, z3.Store(seq_arr(a), la, z3.Select(seq_arr(b), 0)), la + 1)
        if z3.is_int_value(z3.simplify(lb)) and z3.simplify(lb).as_long() == 0:
            return a
        i = z3.Int(T.fresh_name("lam"))
        return mk_seq(t, z3.Lambda([i], z3.If(i < la, z3.Select(seq_arr(a), i), z3.Select(seq_arr(b), i - la))), la + lb)
    r = fresh(t, "cat")
    st.assume(seq_len(r) == la + lb)
    i = z3.Int(T.fresh_name("qc"))
    st.assume(forall([i], z3.Implies(z3.And(0 <= i, i < la), z3.Select(seq_arr(r), i) == z3.Select(seq_arr(a), i))))
    st.assume(forall([i], z3.Implies(z3.And(0 <= i, i < lb), z3.Select(seq_arr(r), i + la) == z3.Select(seq_arr(b), i))))
    if MODE["bounded"] is None:
        # the same fact indexed from the result side (triggers on r[k])
        k = z3.Int(T.fresh_name("qc"))
        st.assume(z3.ForAll([k], z3.Implies(z3.And(la <= k, k < la + lb),
                                            z3.Select(seq_arr(r), k) == z3.Select(seq_arr(b), k - la)),
                            patterns=[z3.Select(seq_arr(r), k)]))
    return r


def list_append(lst: V, item: V, st=None) -> V:
    ln = seq_len(lst)
    if st is None or MODE["bounded"] is not None or z3.is_int_value(z3.simplify(ln)):
        return mk_seq(lst.ty, z3.Store(seq_arr(lst), ln, item.z), ln + 1)
    # axiomatised append with triggers on both lists, so that quantified facts about the old list reach
    # the new one (and back) by E-matching
    r = fresh(lst.ty, "app")
    j = z3.Int(T.fresh_name("qa"))
    st.assume(seq_len(r) == ln + 1)
    st.assume(z3.ForAll([j], z3.Implies(z3.And(0 <= j, j < ln), z3.Select(seq_arr(r), j) == z3.Select(seq_arr(lst), j)),
                        patterns=[z3.Select(seq_arr(r), j), z3.Select(seq_arr(lst), j)]))
    st.assume(z3.Select(seq_arr(r), ln) == item.z)
    return r


def seq_index(v: V, idx, st, obl=None, math=False) -> V:
    """v[idx] for list / array-string; emits a `bounds` obligation through obl(goal) if given.
    math=True (contract / spec text): plain mathematical indexing, no negative-index wrap-around."""
    ln = seq_len(v)
    j = idx if math else norm_index(idx, ln)
    if obl is not None:
        obl(z3.And(0 <= j, j < ln))
    t = v.ty
    if is_str(t):
        if t.view == "array":
            return V(CHAR, z3.Select(seq_arr(v), j))
        if t.view == "native":
            return V(t, z3.SubString(v.z, j, 1))
        raise Unsupported("index into opaque text")
    return V(t.elem, z3.Select(seq_arr(v), j))
