"""pyvc.ty -- static types of the verified subset and their z3 sorts.

Every Python value of the subset is one z3 term of the sort of its static type:

  int -> Int, bool -> Bool, None -> unit datatype
  str -> three views (chosen per function in the sidecar):
           StrA  (array view)   datatype Str(arr: Array Int Int, len: Int)   -- code points
           StrN  (native view)  z3 String
           Text  (opaque view)  uninterpreted sort; only equality, concat(tx), length(tx)>=0
  list[T]  -> datatype List_T(arr: Array Int T, len: Int)
  tuple    -> datatype with one constructor
  Optional -> datatype none | some(v)
  records (NamedTuple / frozen dataclass) -> datatype with one constructor
  mutable objects -> Int reference + one Array Int T per field (state.heap)
  slice    -> record (start: Int, stop: Int)     (assumption A2: closed, unit step)
  set[T]   -> Array T Bool ; dict[K,V] -> record(dom: Array K Bool, val: Array K V)
"""
from __future__ import annotations

import z3

_sort_cache: dict = {}
_counter = [0]


def fresh_name(base: str) -> str:
    _counter[0] += 1
    return f"{base}!{_counter[0]}"


def reset_names() -> None:
    _counter[0] = 0


class Ty:
    key: str = "?"

    def sort(self):
        raise NotImplementedError

    def __repr__(self):
        return self.key

    def __eq__(self, other):
        return isinstance(other, Ty) and self.key == other.key

    def __hash__(self):
        return hash(self.key)


class _Int(Ty):
    key = "int"

    def sort(self):
        return z3.IntSort()


class _Bool(Ty):
    key = "bool"

    def sort(self):
        return z3.BoolSort()


class _Char(Ty):
    """One code point (result of s[i] in the array view)."""
    key = "char"

    def sort(self):
        return z3.IntSort()


class _None(Ty):
    key = "None"

    def sort(self):
        if "None" not in _sort_cache:
            d = z3.Datatype("NoneT")
            d.declare("none_v")
            _sort_cache["None"] = d.create()
        return _sort_cache["None"]


INT = _Int()
BOOL = _Bool()
CHAR = _Char()
NONE = _None()


def _dt(key, build):
    if key not in _sort_cache:
        _sort_cache[key] = build()
    return _sort_cache[key]


class TStr(Ty):
    def __init__(self, view: str = "array"):
        assert view in ("array", "native", "opaque")
        self.view = view
        self.key = {"array": "StrA", "native": "StrN", "opaque": "Text"}[view]

    def sort(self):
        if self.view == "native":
            return z3.StringSort()
        if self.view == "opaque":
            return _dt("Text", lambda: z3.DeclareSort("Text"))

        def build():
            d = z3.Datatype("StrA")
            d.declare("mk_StrA", ("arr_StrA", z3.ArraySort(z3.IntSort(), z3.IntSort())), ("len_StrA", z3.IntSort()))
            r = d.create()
            r.arr, r.len = r.arr_StrA, r.len_StrA     # short aliases (SMT-LIB names stay unique per datatype)
            return r
        return _dt("StrA", build)


StrA = TStr("array")
StrN = TStr("native")
Text = TStr("opaque")


def text_concat():
    s = Text.sort()
    return _dt("Text.concat", lambda: z3.Function("tx_concat", s, s, s))


def text_len():
    s = Text.sort()
    return _dt("Text.len", lambda: z3.Function("tx_len", s, z3.IntSort()))


def text_empty():
    return _dt("Text.empty", lambda: z3.Const("tx_empty", Text.sort()))


class TList(Ty):
    def __init__(self, elem: Ty):
        self.elem = elem
        self.key = f"List[{elem.key}]"

    def sort(self):
        def build():
            m = _mangle(self.key)
            d = z3.Datatype(m)
            d.declare("mk_" + m, ("arr_" + m, z3.ArraySort(z3.IntSort(), self.elem.sort())), ("len_" + m, z3.IntSort()))
            r = d.create()
            r.arr, r.len = getattr(r, "arr_" + m), getattr(r, "len_" + m)
            return r
        return _dt(self.key, build)


class TTuple(Ty):
    def __init__(self, *elems: Ty):
        self.elems = tuple(elems)
        self.key = "Tup[" + ",".join(e.key for e in elems) + "]"

    def sort(self):
        def build():
            m = _mangle(self.key)
            d = z3.Datatype(m)
            d.declare("mk_" + m, *[(f"f{i}_{m}", e.sort()) for i, e in enumerate(self.elems)])
            return d.create()
        return _dt(self.key, build)


class TOpt(Ty):
    def __init__(self, inner: Ty):
        self.inner = inner
        self.key = f"Opt[{inner.key}]"

    def sort(self):
        def build():
            m = _mangle(self.key)
            d = z3.Datatype(m)
            d.declare("none_" + m)
            d.declare("some_" + m, ("v_" + m, self.inner.sort()))
            r = d.create()
            r.none, r.some, r.v = getattr(r, "none_" + m), getattr(r, "some_" + m), getattr(r, "v_" + m)
            r.is_none, r.is_some = getattr(r, "is_none_" + m), getattr(r, "is_some_" + m)
            return r
        return _dt(self.key, build)


class TRec(Ty):
    """Immutable record.  `fields` maps field name -> Ty, in declaration order.
    `cls` optionally names the real class ("module:Qual") for inlining methods / cross-checks."""

    def __init__(self, name: str, fields: dict, cls: str | None = None, is_dict: bool = False):
        self.name = name
        self.fields = dict(fields)
        self.cls = cls
        self.is_dict = is_dict   # a dict with exactly these constant keys (result of a to_dict-style function)
        self.key = f"Rec[{name}]"

    def sort(self):
        def build():
            d = z3.Datatype(_mangle(self.name))
            d.declare("mk_" + _mangle(self.name), *[(f"{self.name}__{f}", t.sort()) for f, t in self.fields.items()])
            return d.create()
        return _dt(self.key, build)

    def index(self, f: str) -> int:
        return list(self.fields).index(f)


class TRef(Ty):
    """Reference to a mutable object of (real) class `cls`.  Field types live in FIELD_TYPES."""

    def __init__(self, cls: str):
        self.cls = cls
        self.key = f"Ref[{cls}]"

    def sort(self):
        return z3.IntSort()


class TSet(Ty):
    def __init__(self, elem: Ty):
        self.elem = elem
        self.key = f"Set[{elem.key}]"

    def sort(self):
        return z3.ArraySort(self.elem.sort(), z3.BoolSort())


class TDict(Ty):
    def __init__(self, k: Ty, v: Ty):
        self.k, self.v = k, v
        self.key = f"Dict[{k.key},{v.key}]"

    def sort(self):
        def build():
            m = _mangle(self.key)
            d = z3.Datatype(m)
            d.declare("mk_" + m,
                      ("dom_" + m, z3.ArraySort(self.k.sort(), z3.BoolSort())),
                      ("val_" + m, z3.ArraySort(self.k.sort(), self.v.sort())))
            r = d.create()
            r.dom, r.val = getattr(r, "dom_" + m), getattr(r, "val_" + m)
            return r
        return _dt(self.key, build)


class TDefaultDict(TDict):
    """collections.defaultdict(<factory>) whose factory makes the EMPTY value of V (set / list): the same sort and type key as
    TDict(K, V); reading an absent key is not a KeyError, it yields `empty` (a z3 term of V's sort) -- and, as in Python, an
    in-place update of that value (`d[k].add(x)`) stores it under the key."""

    def __init__(self, k: Ty, v: Ty, empty):
        super().__init__(k, v)
        self.empty = empty


class TEnum(Ty):
    """A finite set of opaque tags (used for class ids, category strings...)."""

    def __init__(self, name: str, tags: list):
        self.name = name
        self.tags = list(tags)
        self.key = f"Enum[{name}]"

    def sort(self):
        def build():
            s, consts = z3.EnumSort(_mangle(self.name), [f"{_mangle(self.name)}_{_mangle(str(t))}" for t in self.tags])
            _sort_cache[self.key + "#consts"] = consts
            return s
        return _dt(self.key, build)

    def const(self, tag):
        self.sort()
        return _sort_cache[self.key + "#consts"][self.tags.index(tag)]


class TOpaque(Ty):
    """Values that are only compared for equality (hashable signatures, config values...)."""

    def __init__(self, name: str):
        self.name = name
        self.key = f"Opaque[{name}]"

    def sort(self):
        return _dt(self.key, lambda: z3.DeclareSort(_mangle(self.name)))


class _Sink(Ty):
    """Reporting / UI objects (formatters, output dicts): every method call on a sink is a no-op that returns a
    sink, stores into it are dropped.  Using a sink in control flow is unsupported (=> undecided), so abstracting
    these objects cannot hide an effect on the tracked state."""
    key = "Sink"

    def sort(self):
        return _dt("Sink", lambda: z3.DeclareSort("Sink"))


SINK = _Sink()

SLICE = TRec("slice", {"start": INT, "stop": INT})

# mutable-class field tables:  cls name -> {field: Ty}
FIELD_TYPES: dict = {}


def declare_fields(cls: str, **fields: Ty) -> TRef:
    FIELD_TYPES.setdefault(cls, {}).update(fields)
    return TRef(cls)


def _mangle(s: str) -> str:
    out = []
    for ch in s:
        out.append(ch if ch.isalnum() or ch == "_" else "_")
    return "".join(out)
