"""pyvc.dsl -- the sidecar vocabulary: contracts, spec functions, lemmas.

A contract is a class decorated with @contract("module:Qual.name", ...).  Its members are plain Python
functions whose *source* pyvc compiles to SMT and whose *code object* the replay harness executes with
CPython on real values -- one text, two interpretations.

  requires(params...)                 precondition
  ensures(params..., result, old)     postcondition on every normal return (`old` = pre-state namespace)
  raises = {"ExcClass": cond_fn|None} exceptional postconditions: may raise ExcClass only when cond(params)
  modifies = ["param", "self.field"]  frame
  inv_<k>(locals...)                  invariant of the k-th loop (syntactic order, 1-based)
  dec_<k>(locals...)                  termination measure of the k-th loop
  types = {"param": Ty}               static types of parameters (and of locals pyvc cannot infer)
  ret = Ty                            return type (needed where the function is *called* modularly)
  region = (start, end|None), region_params = [...]   verify only a statement range of a large function (see Contract)
"""
from __future__ import annotations

import inspect
from types import SimpleNamespace

CONTRACTS: dict = {}
SPECS: dict = {}
LEMMAS: dict = {}
REGIONS: dict = {}   # contract key -> (start line text, end line text | None, [free variable names])


class Contract:
    def __init__(self, key, cls, props, kind):
        self.key = key
        self.props = props
        self.kind = kind  # 'verify' | 'external' | 'inline'
        d = cls.__dict__ if cls is not None else {}
        self.name = cls.__name__ if cls is not None else key
        self.requires = _fn(d.get("requires"))
        self.ensures = _fn(d.get("ensures"))
        self.raises = dict(d.get("raises", {}))
        for k, v in list(self.raises.items()):
            self.raises[k] = _fn(v)
        self.modifies = list(d.get("modifies", []))
        self.types = dict(d.get("types", {}))
        self.ret = d.get("ret")
        self.invs = {}
        self.decs = {}
        self.hints = {}
        for k, v in d.items():
            if k.startswith("inv_"):
                self.invs[int(k[4:])] = _fn(v)
            elif k.startswith("dec_"):
                self.decs[int(k[4:])] = _fn(v)
            elif k.startswith("hint_"):
                self.hints[k[5:]] = _fn(v)
        self.pure = bool(d.get("pure", False))
        self.ghost_out = dict(d.get("ghost_out", {}))  # local name -> Ty: final values of locals exposed to ensures
        self.functional = bool(d.get("functional", False))  # result is a deterministic function of the arguments
        self.ghost_yield = d.get("ghost_yield")  # Ty of yielded values for generators
        self.params = d.get("params")     # explicit parameter list (when a real parameter is called `result`/`old`)
        self.uses = list(d.get("uses", []))
        self.uses_axioms = list(d.get("uses_axioms", []))   # @assumed statements, asserted universally at entry
        self.notes = d.get("notes", "")
        self.self_type = d.get("self_type")
        self.bounded_only = bool(d.get("bounded_only", False))
        self.opts = dict(d.get("opts", {}))
        # region contract: only the statements of the function from the one whose first source line (stripped) is
        # region[0] up to (excluding) the one starting with region[1] (None: to the end of that statement list) are
        # verified, as a function of the free variables `region_params` (their declared types are ASSUMPTIONS about
        # what the code before the region establishes)
        self.region = d.get("region")
        if self.region is not None:
            REGIONS[key] = (self.region[0], self.region[1], list(d.get("region_params", [])))


def _fn(f):
    if isinstance(f, staticmethod):
        return f.__func__
    return f


def contract(key, props=(), kind="verify"):
    if isinstance(props, str):
        props = (props,)

    def deco(cls):
        c = Contract(key, cls, tuple(props), kind)
        CONTRACTS[key] = c
        return c
    return deco


def external(key, props=()):
    """Assumed (trusted, unchecked) contract of a function outside /repo/src."""
    return contract(key, props, kind="external")


def inline(key):
    """Mark a small repo helper to be inlined from its real body at every call."""
    CONTRACTS[key] = Contract(key, None, (), "inline")
    return CONTRACTS[key]


class Spec:
    def __init__(self, fn, recursive, uninterpreted=False):
        self.fn = fn
        self.name = fn.__name__
        self.recursive = recursive
        self.uninterpreted = uninterpreted
        self.__name__ = fn.__name__

    def __call__(self, *a, **k):
        return self.fn(*a, **k)


def spec(fn=None, *, recursive=False, uninterpreted=False, axiom=None, opaque=False):
    """uninterpreted=True: the SMT reading is an uninterpreted function of the (annotated) argument sorts;
    the Python body is only the *native* reading used in replays (e.g. `return v.source_signature()`)."""
    def deco(f):
        s = Spec(f, recursive, uninterpreted)
        s.opaque = opaque  # applications are atoms p(args) plus the instance p(args) == body(args)
        s.axiom = axiom   # axiom(params..., result) -> bool: the function's defining property (must determine it)
        SPECS[f.__name__] = s
        return s
    return deco(fn) if fn is not None else deco


class Lemma:
    def __init__(self, fn, measure, hyps, props, unfold):
        self.fn = fn
        self.name = fn.__name__
        self.measure = measure
        self.hyps = hyps
        self.props = props
        self.unfold = unfold

    def __call__(self, *a):
        return self.fn(*a)


def lemma(measure=None, hyps=None, props=(), unfold=None):
    """A lemma `fn(args) -> bool`, proved by well-founded induction: the statement at `args` may use the
    statement at every tuple returned by `hyps(args)` whose `measure` is >= 0 and strictly smaller."""
    def deco(f):
        l = Lemma(f, measure, hyps, tuple(props), unfold)
        LEMMAS[f.__name__] = l
        return l
    return deco


def assumed(props=()):
    """An axiom: a statement `fn(args) -> bool` that is ASSUMED for all arguments (no proof obligation).  Only for
    definitional facts about uninterpreted spec symbols; every one is listed in the evidence as unchecked."""
    def deco(f):
        l = Lemma(f, None, None, tuple(props), None)
        l.assumed = True
        LEMMAS[f.__name__] = l
        return l
    return deco


def was(old, obj):
    """The pre-state version of heap object `obj` (for fields of objects reached through lists):  was(old, v).fixes.
    Natively: the deep copy made at entry (the replay harness records the copy of every reachable object)."""
    memo = getattr(old, "_memo", None)
    return memo.get(id(obj), obj) if memo is not None else obj


def implies(a, b):
    return (not a) or b


def iff(a, b):
    return bool(a) == bool(b)


def make_old(**kw):
    return SimpleNamespace(**kw)


def src_of(fn):
    return inspect.getsource(fn)


def ref_class(key, base=None, **fields):
    """Declare a mutable repo class: TRef type + typed fields (heap arrays) + real class object."""
    from . import ty as T
    from .engine import resolve_key
    from . import exec as X
    cls = resolve_key(key)[0]
    name = cls.__name__
    T.declare_fields(name, **fields)
    X.CLASS_OBJ[name] = cls
    t = T.TRef(name)
    X.REF_TYPES[cls] = t
    if base is not None:
        X.REF_BASE[name] = base
    return t


def rec_class(key, **fields):
    """Declare an immutable repo record class (NamedTuple / frozen dataclass) as a z3 datatype."""
    from . import ty as T
    from .engine import resolve_key
    from . import exec as X
    cls = resolve_key(key)[0]
    real = getattr(cls, "_fields", None)
    if real is None and hasattr(cls, "__dataclass_fields__"):
        real = tuple(cls.__dataclass_fields__)
    if real is not None and tuple(real) != tuple(fields):
        raise RuntimeError(f"stale record declaration for {key}: real fields {real}, sidecar {tuple(fields)}")
    t = T.TRec(cls.__name__, fields, cls=key)
    X.REC_TYPES[cls] = t
    return t


def alias_external(obj, key):
    from . import exec as X
    from .engine import unwrap_callable
    X.EXTERNAL_ALIASES[id(unwrap_callable(obj)[0])] = key


FOLDS: dict = {}


def register_fold(list_ty, upto_spec, prefix_lemma, concat_lemma=None):
    """A fold over lists given as a recursive spec `upto(xs, k)` (fold of the first k elements).  The engine then
    assumes, wherever the verified code appends to / concatenates lists of this type, the matching *instances of
    the two lemmas* (which are proved by induction like any other lemma):
        prefix_lemma(xs, ys, k):      all(xs[j] == ys[j] for j < k)  =>  upto(xs, k) == upto(ys, k)
        concat_lemma(a, b, r, k):     r == a ++ b (elementwise) and 0 <= k <= len(b) =>  upto(r, len(a) + k) == upto(a, len(a)) (+) upto(b, k)
    """
    FOLDS.setdefault(list_ty.key, []).append((upto_spec, prefix_lemma, concat_lemma))


DICT_CLASSES: set = set()


def dict_class(name, **fields):
    """A plain `dict` with constant string keys that is MUTATED in place and shared by reference (e.g. the serialised
    violation records): modelled as a heap object whose fields are the keys.  A key that may be absent has an
    Optional type (None = absent)."""
    from . import ty as T
    T.declare_fields(name, **fields)
    DICT_CLASSES.add(name)
    return T.TRef(name)
