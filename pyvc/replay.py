"""pyvc.replay -- the second interpretation of the sidecar: contracts executed by CPython on the real code.

Used (1) to replay a solver counter-model against the real function, (2) to search small inputs for a real
failing input when the solver gives none (bounded, labelled as such), (3) as the encoder-vs-CPython
differential: every input tried here that satisfies `requires` must satisfy `ensures` on the unchanged tree.
"""
from __future__ import annotations

import copy
import inspect
import itertools
import random
from types import SimpleNamespace

import z3

from . import ty as T
from .ty import INT, BOOL, CHAR, NONE, SLICE, TStr, TList, TTuple, TOpt, TRec, TRef, TSet, TDict, TEnum, Ty
from .dsl import Contract
from .engine import V, K, resolve_key, unwrap_callable, seq_arr, seq_len, is_str
from .exec import resolve_class, contract_ast

BUILDERS: dict = {}      # ref-class short name -> fn(rng, gen) -> real object   (random construction)
FROM_MODEL: dict = {}    # ref-class short name -> fn(fields: dict) -> real object  (from solver model)
INT_POOL = [-1, 0, 1, 2, 3, 4, 6]


class Gen:
    def __init__(self, rng, alphabet="a\n ", max_len=4, ints=None):
        self.rng = rng
        self.alphabet = alphabet
        self.max_len = max_len
        self.ints = ints or INT_POOL

    def value(self, t: Ty):
        r = self.rng
        if t == INT:
            return r.choice(self.ints)
        if t == BOOL:
            return r.random() < 0.5
        if t == NONE:
            return None
        if t == CHAR:
            return r.choice(self.alphabet)
        if isinstance(t, TStr):
            n = r.randint(0, self.max_len)
            return "".join(r.choice(self.alphabet) for _ in range(n))
        if isinstance(t, TList):
            n = r.randint(0, min(3, self.max_len))
            return [self.value(t.elem) for _ in range(n)]
        if isinstance(t, TTuple):
            return tuple(self.value(e) for e in t.elems)
        if isinstance(t, TOpt):
            return None if r.random() < 0.3 else self.value(t.inner)
        if isinstance(t, TEnum):
            return r.choice(t.tags)
        if isinstance(t, TRec):
            if t is SLICE or t.name == "slice":
                a = r.choice([0, 0, 1, 2, 3])
                return slice(a, a + r.choice([0, 0, 1, 2]))
            cls = resolve_class(t.cls)
            return cls(**{f: self.value(ft) for f, ft in t.fields.items()})
        if isinstance(t, TRef):
            b = BUILDERS.get(t.cls)
            if b is None:
                raise NoBuilder(t.cls)
            return b(r, self)
        if isinstance(t, TSet):
            return {self.value(t.elem) for _ in range(r.randint(0, 3))}
        if isinstance(t, TDict):
            return {self.value(t.k): self.value(t.v) for _ in range(r.randint(0, 3))}
        raise NoBuilder(str(t))


class NoBuilder(Exception):
    pass


def concretize(model, v, heap=None, depth=0):
    """z3 model value of symbolic V -> Python value (None if not representable)."""
    t = v.ty
    ev = lambda z: model.eval(z, model_completion=True)
    if t in (INT,):
        return ev(v.z).as_long()
    if t == CHAR:
        c = ev(v.z).as_long()
        return chr(c) if 0 <= c < 0x110000 else "?"
    if t == BOOL:
        return z3.is_true(ev(v.z))
    if t == NONE:
        return None
    if isinstance(t, TStr):
        if t.view == "native":
            return ev(v.z).as_string()
        if t.view == "opaque":
            return "t%d" % (hash(str(ev(v.z))) % 97)
        n = ev(seq_len(v)).as_long()
        n = max(0, min(n, 12))
        out = []
        for i in range(n):
            c = ev(z3.Select(seq_arr(v), i)).as_long()
            out.append(chr(c) if 0 < c < 0x110000 and (c < 0xD800 or c > 0xDFFF) else "a")
        return "".join(out)
    if isinstance(t, TList):
        n = ev(seq_len(v)).as_long()
        n = max(0, min(n, 8))
        return [concretize(model, V(t.elem, z3.Select(seq_arr(v), i)), heap, depth + 1) for i in range(n)]
    if isinstance(t, TTuple):
        return tuple(concretize(model, V(e, t.sort().accessor(0, i)(v.z)), heap, depth + 1) for i, e in enumerate(t.elems))
    if isinstance(t, TOpt):
        s = t.sort()
        if z3.is_true(ev(s.is_none(v.z))):
            return None
        return concretize(model, V(t.inner, s.v(v.z)), heap, depth + 1)
    if isinstance(t, TEnum):
        val = ev(v.z)
        for tag in t.tags:
            if val.eq(t.const(tag)):
                return tag
        return t.tags[0]
    if isinstance(t, TRec):
        vals = {f: concretize(model, V(ft, t.sort().accessor(0, i)(v.z)), heap, depth + 1)
                for i, (f, ft) in enumerate(t.fields.items())}
        if t.name == "slice":
            return slice(vals["start"], vals["stop"])
        return resolve_class(t.cls)(**vals)
    if isinstance(t, TRef):
        fm = FROM_MODEL.get(t.cls)
        if fm is None or heap is None or depth > 3:
            raise NoBuilder(t.cls)
        fields = {}
        for (cls, fld), arr in heap.items():
            from .exec import declaring_class
            try:
                if declaring_class(t.cls, fld) != cls:
                    continue
            except KeyError:
                continue
            ft = T.FIELD_TYPES[cls][fld]
            try:
                fields[fld] = concretize(model, V(ft, z3.Select(arr, v.z)), heap, depth + 1)
            except NoBuilder:
                pass
        return fm(fields)
    raise NoBuilder(str(t))


class NativeCheck:
    """Executes a contract against the real function with CPython."""

    def __init__(self, c: Contract):
        self.c = c
        obj, owner = resolve_key(c.key)
        self.fn, self.kind = unwrap_callable(obj)
        self.owner = owner
        sig = inspect.signature(self.fn)
        self.params = [n for n, p in sig.parameters.items() if p.kind not in (p.VAR_POSITIONAL, p.VAR_KEYWORD)]

    def gen_args(self, gen: Gen):
        args = {}
        for p in self.params:
            t = self.c.types.get(p)
            if t is None:
                raise NoBuilder(p)
            if isinstance(t, Ty):
                args[p] = gen.value(t)
            else:
                args[p] = t
        return args

    def call_clause(self, fn, pool):
        _, ps = contract_ast(fn)
        return fn(*[pool[p] for p in ps])

    def run(self, args: dict):
        """Returns (verdict, detail): verdict in ok | pre-false | violated | error."""
        c = self.c
        try:
            if c.requires is not None and not self.call_clause(c.requires, args):
                return "pre-false", None
        except Exception as e:  # precondition text itself failed on this input (e.g. index error): not admissible
            return "pre-false", f"requires raised {e!r}"
        dyn = c.hints.get("dynamic_class")
        if dyn is not None:
            try:
                if not self.call_clause(dyn, args):
                    return "pre-false", None     # the body under test never runs for such a receiver
            except Exception:
                return "pre-false", None
        memo = {}
        old = SimpleNamespace(**copy.deepcopy(args, memo))
        old._memo = memo
        call_args = dict(args)
        try:
            res = self.fn(**call_args)
            if c.ghost_yield is not None:
                res = list(res)
        except Exception as e:
            name = type(e).__name__
            for en, cond in c.raises.items():
                cls_ok = any(k.__name__ == en.rstrip("+") for k in type(e).__mro__)
                if cls_ok:
                    if cond is None:
                        return "ok", f"raised {name} (allowed)"
                    try:
                        okc = self.call_clause(cond, vars(old))
                    except Exception as e2:
                        return "error", f"raises-condition raised {e2!r}"
                    if okc:
                        return "ok", f"raised {name} (allowed)"
                    return "violated", {"clause": f"raises[{en}]", "observed": f"raised {e!r} although its condition is false"}
            return "violated", {"clause": "no-raise", "observed": f"raised {e!r}"}
        for en, cond in c.raises.items():
            if cond is not None and c.opts.get("raises_iff", True):
                try:
                    if self.call_clause(cond, vars(old)):
                        return "violated", {"clause": f"raises-iff[{en}]", "observed": f"returned {res!r} although the raise condition holds"}
                except Exception:
                    pass
        if c.ensures is not None:
            pool = dict(call_args)
            pool["result"] = res
            pool["old"] = old
            try:
                if c.ghost_out:
                    # ghost outputs are existentially quantified: search small witnesses
                    names = list(c.ghost_out)
                    ok = False
                    for combo in itertools.product(range(-1, 9), repeat=len(names)):
                        pool.update(dict(zip(names, combo)))
                        try:
                            if self.call_clause(c.ensures, pool):
                                ok = True
                                break
                        except (IndexError, KeyError):
                            continue
                else:
                    ok = self.call_clause(c.ensures, pool)
            except Exception as e:
                return "error", f"ensures raised {e!r}"
            if not ok:
                return "violated", {"clause": "ensures", "observed": repr(res)[:500]}
        return "ok", None


def search(c: Contract, seed: int, tries: int, first_args=None, alphabet=None, max_len=None):
    """Bounded search for a real failing input of contract c.  Returns dict with counts and first failure."""
    if getattr(c, "region", None) is not None:
        return {"skipped": "region contract: a statement range cannot be called natively"}
    try:
        nc = NativeCheck(c)
    except Exception as e:
        return {"skipped": f"cannot resolve: {e!r}"}
    rng = random.Random(seed)
    gen = Gen(rng, alphabet=alphabet or c.opts.get("alphabet", "a\n "), max_len=max_len or c.opts.get("max_len", 4),
              ints=c.opts.get("ints"))
    stats = {"tried": 0, "admissible": 0, "distinct": 0, "failure": None, "errors": 0, "samples": []}
    seen = set()
    cands = []
    if first_args is not None:
        cands.append(first_args)
    for k in range(tries + len(cands)):
        try:
            args = cands[k] if k < len(cands) else nc.gen_args(gen)
        except NoBuilder as e:
            stats["skipped"] = f"no builder for {e}"
            return stats
        stats["tried"] += 1
        shown = safe_repr(args)
        verdict, detail = nc.run(args)
        if verdict == "pre-false":
            continue
        stats["admissible"] += 1
        if shown not in seen:
            seen.add(shown)
            stats["distinct"] += 1
            if len(stats["samples"]) < 3:
                stats["samples"].append(shown)
        if verdict == "error":
            stats["errors"] += 1
            if stats.get("first_error") is None:
                stats["first_error"] = {"args": shown, "detail": detail}
        if verdict == "violated":
            stats["failure"] = {"args": shown, "detail": detail, "from_model": k < len(cands)}
            return stats
    return stats


def describe(v, depth=0):
    r = repr(v)
    if r.startswith("<") and hasattr(v, "__dict__") and depth < 2:
        inner = ", ".join(f"{k}={describe(x, depth + 1)}" for k, x in list(vars(v).items())[:8])
        return f"{type(v).__name__}({inner})"
    if isinstance(v, (list, tuple)) and depth < 2:
        return type(v).__name__ + "[" + ", ".join(describe(x, depth + 1) for x in list(v)[:8]) + "]"
    return r[:300]


def safe_repr(args):
    try:
        return "{" + ", ".join(f"{k!r}: {describe(v)}" for k, v in args.items())[:1500] + "}"
    except Exception:
        return "<unrepresentable>"
