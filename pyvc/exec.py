"""pyvc.exec -- the symbolic executor (expressions, statements, loops, calls, exceptions)."""
from __future__ import annotations

import ast
import builtins
import inspect
import textwrap
import typing
from types import SimpleNamespace

import z3

from . import ty as T
from . import ops
from .ty import SINK, INT, BOOL, CHAR, NONE, SLICE, TStr, TList, TTuple, TOpt, TRec, TRef, TSet, TDict, TEnum, Ty
from .dsl import CONTRACTS, SPECS, LEMMAS, Spec, Lemma, Contract
from .dsl import implies as _implies, iff as _iff, was as _was
from .engine import (SDict, V, K, PyObj, STuple, BoundMethod, Unsupported, Stale, State, Obligation, Normalizer,
                     PURE_BUILTINS, PURE_METHODS, MUTATING_METHODS, none_v, mk_int, mk_bool, fresh, seq_arr,
                     seq_len, mk_seq, str_const, is_str, load_function, key_of, unwrap_callable, _is_logger_call)
from .ops import (coerce, to_v, truthy, is_none, val_eq, tuple_get, rec_get, rec_make, forall, exists, infer_ty,
                  seq_slice, seq_concat, seq_index, list_append, list_literal, fresh_seq, wf_assumptions, unwrap_opt)

REC_DECLS: dict = {}
REC_AXIOMS: dict = {}
REC_BODIES: dict = {}
SPEC_MEMO: dict = {}
# class tables -------------------------------------------------------------------------------
REF_BASE: dict = {}        # short class name -> short base-class name (for shared heap fields)
REC_TYPES: dict = {}       # real class object -> TRec   (constructor calls / isinstance)
REF_TYPES: dict = {}       # real class object -> TRef
EXTERNAL_ALIASES: dict = {}  # real callable object id -> contract key


def declaring_class(cls: str, field: str) -> str:
    c = cls
    while c is not None:
        if field in T.FIELD_TYPES.get(c, {}):
            return c
        c = REF_BASE.get(c)
    raise KeyError(field)


def has_field(cls: str, field: str) -> bool:
    try:
        declaring_class(cls, field)
        return True
    except KeyError:
        return False


def unfold_equations(term, depth=1):
    """Definitional equations  f(args) == body[args]  for every application of a recursive spec inside term."""
    out = []
    seen = set()
    stack = [term]
    decls = {b[0].name(): b for b in REC_BODIES.values()}
    while stack:
        e = stack.pop()
        if e.get_id() in seen:
            continue
        seen.add(e.get_id())
        if z3.is_app(e):
            d = decls.get(e.decl().name())
            if d is not None and e.num_args() == len(d[1]):
                out.append(e == z3.substitute(d[2], *[(fv, e.arg(i)) for i, fv in enumerate(d[1])]))
            stack.extend(e.children())
        elif z3.is_quantifier(e):
            pass
    return out


def mentions(expr, consts) -> bool:
    ids = {c.get_id() for c in consts}
    seen = set()
    stack = [expr]
    while stack:
        e = stack.pop()
        i = e.get_id()
        if i in seen:
            continue
        seen.add(i)
        if i in ids:
            return True
        if z3.is_quantifier(e):
            stack.append(e.body())
        else:
            stack.extend(e.children())
    return False


def _minted_since(expr, c0):
    """names of uninterpreted symbols (constants or functions) in `expr` that were minted by T.fresh_name after the
    counter value c0 (bound variables of quantifiers do not count)"""
    out, seen, stack = [], set(), [expr]
    while stack:
        e = stack.pop()
        k = e.get_id()
        if k in seen:
            continue
        seen.add(k)
        if z3.is_quantifier(e):
            stack.append(e.body())
            continue
        if z3.is_app(e) and e.decl().kind() == z3.Z3_OP_UNINTERPRETED:
            nm = e.decl().name()
            if "!" in nm:
                try:
                    if int(nm.rsplit("!", 1)[1]) > c0:
                        out.append(nm)
                except ValueError:
                    pass
        stack.extend(e.children())
    return out


def _stray_constants(expr, formals):
    """uninterpreted 0-ary constants of `expr` that are neither formals nor global symbols (names minted by T.fresh_name)"""
    ids = {c.get_id() for c in formals}
    out, seen, stack = [], set(), [expr]
    bound_depth = 0
    while stack:
        e = stack.pop()
        i = e.get_id()
        if i in seen:
            continue
        seen.add(i)
        if z3.is_quantifier(e):
            stack.append(e.body())
            continue
        if z3.is_const(e) and e.decl().kind() == z3.Z3_OP_UNINTERPRETED and i not in ids:
            nm = e.decl().name()
            if "!" in nm:
                out.append(nm)
        stack.extend(e.children())
    return out


def flatten_and(g):
    """Split a goal into its top-level conjuncts (also under a leading implication: A => (B and C))."""
    if z3.is_and(g):
        out = []
        for c in g.children():
            out.extend(flatten_and(c))
        return out
    if z3.is_implies(g) and z3.is_and(g.arg(1)):
        return [z3.Implies(g.arg(0), c) for c in flatten_and(g.arg(1))]
    return [g]


class ExcInfo:
    def __init__(self, cls, or_subclass=False, value=None, line=0):
        self.cls = cls
        self.or_subclass = or_subclass
        self.value = value
        self.line = line

    def __repr__(self):
        return f"{self.cls.__name__}{'+' if self.or_subclass else ''}"


class Outcome:
    __slots__ = ("kind", "value")

    def __init__(self, kind, value=None):
        self.kind = kind
        self.value = value


NEXT = Outcome("next")


class Executor:
    def __init__(self, contract: Contract, prop: str, feas_timeout_ms=500):
        self.c = contract
        self.prop = prop
        self.obligations: list = []
        self.undecided: list = []
        self.path_id = 0
        self.feas = z3.Solver()
        self.feas.set("timeout", feas_timeout_ms)
        self.fkey = contract.key
        self.inlined: set = set()
        self.callees: set = set()
        self.externals_used: set = set()
        self.rec_decls = REC_DECLS
        self.loop_ord: dict = {}
        self.cur_line = 0
        self.owner_stack = []
        self.depth = 0
        self.paths_finished = 0

    # ------------------------------------------------------------------ obligations
    in_spec = 0

    def emit(self, st: State, kind: str, tag: str, goal, note=""):
        if z3.is_true(goal):
            return
        if self.in_spec and kind in ("bounds", "nonnull"):
            return  # contract / spec text is not executable code: no run-time error obligations
        bits = "".join(x[-1] for x in st.trace)
        parts = [goal]
        if kind in ("post", "inv-preserve", "inv-entry", "lemma", "raises-post"):
            parts = flatten_and(goal)
        for k, g in enumerate(parts):
            if z3.is_true(g):
                continue
            t = tag if len(parts) == 1 else f"{tag}.{k + 1}"
            name = f"{self.prop}/{self.fkey.replace(':', '.')}/{kind}[{t}]/p{bits}/L{self.cur_line}#{len(self.obligations)}"
            self.obligations.append(Obligation(name=name, hyps=list(st.pc), goal=g, kind=kind, func=self.fkey,
                                               line=self.cur_line, note=note))

    def feasible(self, st: State) -> bool:
        from .engine import text_literal_axioms
        self.feas.push()
        try:
            self.feas.add(*st.pc)
            self.feas.add(*text_literal_axioms())
            r = self.feas.check()
        finally:
            self.feas.pop()
        return r != z3.unsat

    # ------------------------------------------------------------------ name resolution
    def lookup(self, st: State, name: str):
        if name in st.env:
            return st.env[name]
        g = st.ghost.get("__globals__", {})
        if name in g:
            return self.lift_py(g[name])
        if hasattr(builtins, name):
            return PyObj(getattr(builtins, name))
        raise Unsupported(f"unbound name {name!r} (line {self.cur_line})")

    def lift_py(self, o):
        if isinstance(o, (V, K, STuple)):
            return o
        if isinstance(o, (bool, int, str, type(None))):
            return K(o)
        if isinstance(o, tuple) and all(isinstance(x, (bool, int, str, type(None))) for x in o):
            return K(o)
        return PyObj(o)

    # ------------------------------------------------------------------ expressions
    def eval(self, st: State, e) -> object:
        m = getattr(self, "e_" + e.__class__.__name__, None)
        if m is None:
            raise Unsupported(f"expression {e.__class__.__name__} (line {getattr(e, 'lineno', self.cur_line)})")
        return m(st, e)

    def e_Constant(self, st, e):
        c = e.value
        if isinstance(c, float):
            return fresh(SINK, "float")      # floating point only occurs in reporting code: a sink
        if isinstance(c, bool):
            return mk_bool(c)
        if isinstance(c, int):
            return mk_int(c)
        if c is None or isinstance(c, str):
            return K(c)
        if c is Ellipsis:
            return K(None)
        raise Unsupported(f"constant {c!r}")

    def e_Name(self, st, e):
        return self.lookup(st, e.id)

    def e_Tuple(self, st, e):
        return STuple([self.eval(st, x) for x in e.elts])

    def e_List(self, st, e):
        items = [self.eval(st, x) for x in e.elts]
        if not items or all(isinstance(x, K) for x in items):
            return STuple(items)  # typed on use (coerce to the list type of the context); constants unroll
        vs = self.unify([to_v(x) if not isinstance(x, K) else x for x in items])
        return list_literal(vs, TList(vs[0].ty))

    def unify(self, items):
        tys = [x.ty for x in items if isinstance(x, V)]
        if not tys:
            return [to_v(x) for x in items]
        t = tys[0]
        for u in tys[1:]:
            if u != t:
                if isinstance(u, TOpt) and u.inner == t:
                    t = u
                elif isinstance(t, TOpt) and t.inner == u:
                    pass
                elif u == NONE:
                    t = TOpt(t) if not isinstance(t, TOpt) else t
                elif t == NONE:
                    t = TOpt(u) if not isinstance(u, TOpt) else u
                else:
                    raise Unsupported(f"cannot unify {t} and {u}")
        if any(isinstance(x, K) and x.v is None for x in items) and not isinstance(t, TOpt) and t != NONE:
            t = TOpt(t)
        return [coerce(x, t) for x in items]

    def e_JoinedStr(self, st, e):
        # f-string: the text is dropped (DESIGN 2.1); the value is an arbitrary opaque text
        return fresh(T.Text, "fstr")

    def e_IfExp(self, st, e):
        c = truthy(self.eval(st, e.test))
        if z3.is_true(z3.simplify(c)):
            return self.eval(st, e.body)
        if z3.is_false(z3.simplify(c)):
            return self.eval(st, e.orelse)
        a = self.eval_guarded(st, e.body, c)
        b = self.eval_guarded(st, e.orelse, z3.Not(c))
        if isinstance(a, PyObj) and isinstance(b, PyObj) and a.o in (all, any) and b.o in (all, any):
            # `check = all if c else any`: a quantifier builtin chosen by a condition (only usable as `check(<generator>)`)
            return PyObj(("ifquant", c, a.o, b.o))
        a_none, b_none = isinstance(a, K) and a.v is None, isinstance(b, K) and b.v is None
        if a_none != b_none and isinstance(b if a_none else a, (K, V)):
            # `x if c else None` (or the mirror) with x of a plain (non-Optional) type: an Optional of that type
            other = to_v(b if a_none else a)
            if other.ty in (BOOL, INT):
                ot = TOpt(other.ty)
                a, b = coerce(a, ot), coerce(b, ot)
        a, b = self.unify_pair(a, b) if (isinstance(a, V) or isinstance(b, V)) else (to_v(a), to_v(b))
        return V(a.ty, z3.If(c, a.z, b.z))

    def eval_guarded(self, st, node, guard):
        """Evaluate `node` under an extra path guard (short-circuit operand / conditional branch): obligations
        emitted inside carry the guard; assumptions made inside are kept as guard => assumption."""
        if guard is None or z3.is_true(guard):
            return self.eval(st, node)
        st2 = st.fork()
        st2.assume(guard)
        n = len(st2.pc)
        v = self.eval(st2, node)
        for z in st2.pc[n:]:
            st.assume(z3.Implies(guard, z))
        for k, a in st2.heap.items():
            if k not in st.heap:
                st.heap[k] = a
        return v

    def e_BoolOp(self, st, e):
        vals = []
        guard = None
        for x in e.values:
            if guard is not None and z3.is_false(z3.simplify(guard)):
                break      # statically short-circuited: the remaining operands are never evaluated
            v = self.eval_guarded(st, x, guard)
            vals.append(v)
            t = truthy(v)
            g = t if isinstance(e.op, ast.And) else z3.Not(t)
            guard = g if guard is None else z3.And(guard, g)
        if all(isinstance(v, V) and v.ty == BOOL for v in vals):
            return V(BOOL, (z3.And if isinstance(e.op, ast.And) else z3.Or)(*[v.z for v in vals]))
        # value-returning and/or:  a or b  ==  a if a else b
        res = vals[-1]
        for v in reversed(vals[:-1]):
            c = truthy(v)
            if isinstance(e.op, ast.And):
                c = z3.Not(c)
            sc = z3.simplify(c)
            if z3.is_true(sc):
                res = v
                continue
            if z3.is_false(sc):
                continue
            if isinstance(res, V) and res.ty == BOOL and not (isinstance(v, V) and v.ty == BOOL):
                # used as a condition:  x and y  with non-bool x
                res = V(BOOL, z3.If(c, truthy(v), res.z))
                continue
            a, b = self.unify_pair(v, res)
            res = V(a.ty, z3.If(c, a.z, b.z))
        return res

    def unify_pair(self, a, b):
        if isinstance(a, V) and isinstance(a.ty, TOpt) and isinstance(b, V) and b.ty == a.ty.inner:
            # `x or default` with Optional x: the result has the inner type
            return unwrap_opt(a), b
        if isinstance(a, K) and isinstance(b, V):
            return coerce(a, b.ty), b
        if isinstance(b, K) and isinstance(a, V):
            return a, coerce(b, a.ty)
        if isinstance(a, STuple) and isinstance(b, V):
            return coerce(a, b.ty), b
        if isinstance(b, STuple) and isinstance(a, V):
            return a, coerce(b, a.ty)
        r = self.unify([a, b])
        return r[0], r[1]

    def e_UnaryOp(self, st, e):
        v = self.eval(st, e.operand)
        if isinstance(e.op, ast.Not):
            return V(BOOL, z3.Not(truthy(v)))
        if isinstance(e.op, ast.USub):
            return V(INT, -coerce(v, INT).z)
        if isinstance(e.op, ast.UAdd):
            return coerce(v, INT)
        raise Unsupported("unary op")

    def e_BinOp(self, st, e):
        a = self.eval(st, e.left)
        b = self.eval(st, e.right)
        return self.binop(st, e.op, a, b)

    def binop(self, st, op, a, b):
        if (isinstance(a, V) and a.ty == SINK) or (isinstance(b, V) and b.ty == SINK):
            return fresh(SINK, "sinkop")
        if isinstance(a, K) and isinstance(b, K):
            if isinstance(op, ast.Add):
                return self.lift_py(a.v + b.v)
            if isinstance(op, ast.Mod) and isinstance(a.v, str):
                return fresh(T.Text, "fmt")
        if isinstance(op, ast.Mod) and ((isinstance(a, K) and isinstance(a.v, str)) or (isinstance(a, V) and is_str(a.ty))):
            return fresh(T.Text, "fmt")
        a2 = a if isinstance(a, V) else None
        b2 = b if isinstance(b, V) else None
        seq_t = None
        for x in (a2, b2):
            if x is not None and (is_str(x.ty) or isinstance(x.ty, TList)):
                seq_t = x.ty
        if seq_t is not None:
            if isinstance(op, ast.Add):
                return seq_concat(coerce(a, seq_t), coerce(b, seq_t), st)
            if isinstance(op, ast.Mult):
                raise Unsupported("sequence repetition")
        if isinstance(a, STuple) and isinstance(b, STuple) and isinstance(op, ast.Add):
            return STuple(a.items + b.items)
        if isinstance(op, ast.BitOr) and any(isinstance(x, V) and isinstance(x.ty, TSet) for x in (a, b)):
            # set union as an expression (`s | t`): z3's array-based set union (extensional; no fresh constant)
            sty = next(x.ty for x in (a, b) if isinstance(x, V) and isinstance(x.ty, TSet))
            return V(sty, z3.SetUnion(coerce(a, sty).z, coerce(b, sty).z))
        if isinstance(op, ast.BitAnd) and any(isinstance(x, V) and isinstance(x.ty, TSet) for x in (a, b)):
            sty = next(x.ty for x in (a, b) if isinstance(x, V) and isinstance(x.ty, TSet))
            return V(sty, z3.SetIntersect(coerce(a, sty).z, coerce(b, sty).z))      # set intersection as an expression (`s & t`)
        x = coerce(a, INT).z
        y = coerce(b, INT).z
        if isinstance(op, ast.Add):
            return V(INT, x + y)
        if isinstance(op, ast.Sub):
            return V(INT, x - y)
        if isinstance(op, ast.Mult):
            return V(INT, x * y)
        if isinstance(op, ast.FloorDiv):
            self.emit(st, "bounds", "div-nonzero", y != 0)
            # Python floor division rounds toward -inf; z3 `/` on Int is Euclidean: equal for y > 0
            return V(INT, z3.If(y > 0, x / y, -((-x) / y) - z3.If((-x) % y == 0, 0, 1) if False else z3.If(y > 0, x / y, (-x) / (-y))))
        if isinstance(op, ast.Mod):
            self.emit(st, "bounds", "mod-nonzero", y != 0)
            return V(INT, z3.If(y > 0, x % y, -((-x) % (-y))))
        raise Unsupported(f"binary op {op.__class__.__name__}")

    def e_Compare(self, st, e):
        left = self.eval(st, e.left)
        parts = []
        for op, rn in zip(e.ops, e.comparators):
            right = self.eval(st, rn)
            parts.append(self.compare(st, op, left, right))
            left = right
        return V(BOOL, z3.And(*parts) if len(parts) > 1 else parts[0])

    def compare(self, st, op, a, b):
        if isinstance(op, ast.Eq):
            return val_eq(a, b)
        if isinstance(op, ast.NotEq):
            return z3.Not(val_eq(a, b))
        if isinstance(op, (ast.Is, ast.IsNot)):
            if isinstance(b, K) and b.v is None:
                r = is_none(a)
            elif isinstance(a, K) and a.v is None:
                r = is_none(b)
            elif isinstance(a, V) and isinstance(b, V) and isinstance(a.ty, TRef) and isinstance(b.ty, TRef):
                r = a.z == b.z
            elif isinstance(a, V) and isinstance(b, V) and a.ty == BOOL and b.ty == BOOL:
                r = a.z == b.z
            elif isinstance(a, V) and isinstance(b, V) and isinstance(a.ty, TOpt) and a.ty.inner == BOOL and b.ty == BOOL:
                r = z3.And(a.ty.sort().is_some(a.z), a.ty.sort().v(a.z) == b.z)     # `x is True/False` on Optional[bool]
            elif isinstance(a, V) and isinstance(b, V) and isinstance(b.ty, TOpt) and b.ty.inner == BOOL and a.ty == BOOL:
                r = z3.And(b.ty.sort().is_some(b.z), b.ty.sort().v(b.z) == a.z)
            elif isinstance(a, PyObj) and isinstance(b, PyObj):
                r = z3.BoolVal(a.o is b.o)
            elif isinstance(a, V) and isinstance(b, V) and isinstance(a.ty, TOpt) and isinstance(a.ty.inner, TRef):
                r = val_eq(a, b)
            elif (isinstance(a, V) and isinstance(b, V) and isinstance(a.ty, TRef) and isinstance(b.ty, TOpt)
                  and isinstance(b.ty.inner, TRef)):
                r = val_eq(b, a)          # `ref is optional_ref` (mirror of the case above)
            else:
                raise Unsupported(f"`is` between {a!r} and {b!r}")
            return z3.Not(r) if isinstance(op, ast.IsNot) else r
        if isinstance(op, (ast.In, ast.NotIn)):
            r = self.contains(st, b, a)
            return z3.Not(r) if isinstance(op, ast.NotIn) else r
        # ordering
        return self.order(op, a, b)

    def order(self, op, a, b):
        if isinstance(a, (STuple,)) or isinstance(b, STuple) or (isinstance(a, V) and isinstance(a.ty, TTuple)):
            la = a.items if isinstance(a, STuple) else [tuple_get(a, i) for i in range(len(a.ty.elems))]
            lb = b.items if isinstance(b, STuple) else [tuple_get(b, i) for i in range(len(b.ty.elems))]
            if len(la) != len(lb):
                raise Unsupported("ordering of tuples of different length")
            strict = isinstance(op, (ast.Lt, ast.Gt))
            less = isinstance(op, (ast.Lt, ast.LtE))
            # lexicographic
            res = z3.BoolVal(not strict)
            for x, y in reversed(list(zip(la, lb))):
                lt = self.order(ast.Lt() if less else ast.Gt(), x, y)
                res = z3.Or(lt, z3.And(val_eq(x, y), res))
            return res
        if (isinstance(a, V) and a.ty == SINK) or (isinstance(b, V) and b.ty == SINK):
            return z3.Bool(T.fresh_name("sink_cmp"))
        x = coerce(unwrap_opt(a) if isinstance(a, V) else a, INT).z
        y = coerce(unwrap_opt(b) if isinstance(b, V) else b, INT).z
        if isinstance(op, ast.Lt):
            return x < y
        if isinstance(op, ast.LtE):
            return x <= y
        if isinstance(op, ast.Gt):
            return x > y
        if isinstance(op, ast.GtE):
            return x >= y
        raise Unsupported("comparison")

    def contains(self, st, cont, item):
        if (isinstance(cont, V) and cont.ty == SINK) or (isinstance(item, V) and item.ty == SINK):
            return z3.Bool(T.fresh_name("sink_in"))
        sd = ops.sdict_of(cont)
        if sd is not None:
            if isinstance(item, K):
                return z3.BoolVal(item.v in sd.items)
            raise Unsupported("`in` on structural dict with non-constant key")
        if isinstance(cont, STuple):
            return z3.Or(*[val_eq(item, x) for x in cont.items]) if cont.items else z3.BoolVal(False)
        if isinstance(cont, K):
            if isinstance(cont.v, (tuple, list)):
                return z3.Or(*[val_eq(item, K(x)) for x in cont.v]) if cont.v else z3.BoolVal(False)
            if isinstance(cont.v, str):
                if isinstance(item, K):
                    return z3.BoolVal(item.v in cont.v)
                if isinstance(item, V) and item.ty == CHAR:
                    return z3.Or(*[item.z == ord(ch) for ch in cont.v]) if cont.v else z3.BoolVal(False)
            raise Unsupported("`in` on constant")
        if isinstance(cont, PyObj) and isinstance(cont.o, tuple) and cont.o and cont.o[0] == "setlit":
            # `x in {a, b}`: membership in a set display is equality with one of its elements
            return z3.Or(*[val_eq(item, x) for x in cont.o[1]]) if cont.o[1] else z3.BoolVal(False)
        if isinstance(cont, PyObj):
            raise Unsupported(f"`in` on python object {cont.o!r}")
        t = cont.ty
        if isinstance(t, TOpt):
            cont = unwrap_opt(cont)
            t = cont.ty
        if isinstance(t, TList):
            i = z3.Int(T.fresh_name("qin"))
            it = coerce(item, t.elem)
            return exists([i], z3.And(0 <= i, i < seq_len(cont), val_eq(V(t.elem, z3.Select(seq_arr(cont), i)), it)))
        if isinstance(t, TSet):
            return z3.Select(cont.z, coerce(item, t.elem).z)
        if isinstance(t, TDict):
            return z3.Select(t.sort().dom(cont.z), coerce(item, t.k).z)
        if is_str(t) and t.view == "native":
            return z3.Contains(cont.z, coerce(item, t).z)
        raise Unsupported(f"`in` on {t}")

    def e_Subscript(self, st, e):
        base = self.eval(st, e.value)
        if isinstance(e.slice, ast.Slice):
            if e.slice.step is not None:
                raise Unsupported("slice step")
            lo = coerce(self.eval(st, e.slice.lower), INT).z if e.slice.lower is not None else None
            hi = coerce(self.eval(st, e.slice.upper), INT).z if e.slice.upper is not None else None
            if isinstance(base, K) and isinstance(base.v, str):
                base = to_v(base)
            if isinstance(base, V) and isinstance(base.ty, TOpt):
                base = unwrap_opt(base)
            if isinstance(base, STuple):
                if all(x is None or z3.is_int_value(z3.simplify(x)) for x in (lo, hi)):
                    l = None if lo is None else z3.simplify(lo).as_long()
                    h = None if hi is None else z3.simplify(hi).as_long()
                    return STuple(base.items[l:h])
                raise Unsupported("symbolic slice of tuple")
            return seq_slice(base, lo, hi, st)
        idx = self.eval(st, e.slice)
        return self.subscript(st, base, idx)

    def subscript(self, st, base, idx):
        if isinstance(base, V) and base.ty == SINK:
            return fresh(SINK, "sinkitem")
        from .dsl import DICT_CLASSES
        if isinstance(base, V) and isinstance(base.ty, TRef) and base.ty.cls in DICT_CLASSES:
            if not (isinstance(idx, K) and isinstance(idx.v, str) and has_field(base.ty.cls, idx.v)):
                raise Unsupported(f"dict object {base.ty.cls} indexed by {idx!r}")
            v = self.heap_get(st, base, idx.v)
            if isinstance(v.ty, TOpt):
                self.emit(st, "bounds", "dict-key", z3.Not(is_none(v)), note=f"KeyError {idx.v!r} otherwise")
                return unwrap_opt(v)
            return v
        sd = ops.sdict_of(base)
        if sd is not None:
            if not (isinstance(idx, K) and isinstance(idx.v, str)):
                raise Unsupported("structural dict indexed by a non-constant key")
            if idx.v not in sd.items:
                self.emit(st, "bounds", "dict-key", z3.BoolVal(False), note=f"KeyError {idx.v!r}")
                raise Unsupported(f"KeyError {idx.v!r} on this path")
            return sd.items[idx.v]
        if isinstance(base, V) and isinstance(base.ty, TOpt):
            self.emit(st, "nonnull", "subscript", z3.Not(is_none(base)))
            base = unwrap_opt(base)
        if isinstance(base, (STuple, K)) or (isinstance(base, V) and isinstance(base.ty, TTuple)):
            iz = z3.simplify(coerce(idx, INT).z)
            if not z3.is_int_value(iz):
                raise Unsupported("symbolic tuple index")
            n = iz.as_long()
            if isinstance(base, K):
                return self.lift_py(base.v[n])
            if isinstance(base, STuple):
                return base.items[n]
            if n < 0:
                n += len(base.ty.elems)
            return tuple_get(base, n)
        if isinstance(base, V) and isinstance(base.ty, T.TDefaultDict):
            t = base.ty                     # defaultdict: an absent key reads as the empty value (and is no error)
            k = coerce(idx, t.k)
            return V(t.v, z3.If(z3.Select(t.sort().dom(base.z), k.z), z3.Select(t.sort().val(base.z), k.z), t.empty))
        if isinstance(base, V) and isinstance(base.ty, TDict):
            t = base.ty
            k = coerce(idx, t.k)
            self.emit(st, "bounds", "dict-key", z3.Select(t.sort().dom(base.z), k.z), note="KeyError otherwise")
            return V(t.v, z3.Select(t.sort().val(base.z), k.z))
        if isinstance(base, V) and (isinstance(base.ty, TList) or is_str(base.ty)):
            if isinstance(idx, V) and idx.ty == SLICE:
                return seq_slice(base, rec_get(idx, "start").z, rec_get(idx, "stop").z, st)
            if isinstance(idx, V) and isinstance(idx.ty, TOpt):
                idx = unwrap_opt(idx)
            iz = coerce(idx, INT).z
            return seq_index(base, iz, st, obl=lambda g: self.emit(st, "bounds", "index", g, note="IndexError otherwise"),
                             math=bool(self.in_spec))
        if isinstance(base, PyObj):
            # typing generics etc.
            return base
        raise Unsupported(f"subscript on {base!r}")

    def e_Attribute(self, st, e):
        base = self.eval(st, e.value)
        return self.getattr(st, base, e.attr)

    def getattr(self, st, base, attr):
        if isinstance(base, PyObj) and base.o == ("anyobj",):
            return fresh(T.Text, "anyattr")
        if isinstance(base, PyObj) and base.o == ("super",):
            owner = self.owner_stack[-1] if self.owner_stack else None
            if owner is None:
                raise Unsupported("super() outside a method")
            mro = inspect.getmro(owner)
            for c in mro[1:]:
                if attr in c.__dict__:
                    o = c.__dict__[attr]
                    if inspect.isfunction(o):
                        selfv = st.env.get("self")
                        return PyObj(("superbound", o, selfv, c))
                    return PyObj(("noop",))     # builtin base class (e.g. ValueError.__init__): no tracked effect
            raise Unsupported(f"super().{attr} not found")
        if isinstance(base, PyObj):
            try:
                o = inspect.getattr_static(base.o, attr) if inspect.isclass(base.o) else getattr(base.o, attr)
            except AttributeError:
                raise Unsupported(f"attribute {attr} of {base.o!r}")
            if isinstance(o, classmethod):
                return PyObj(("classbound", o.__func__, base.o))
            if isinstance(o, staticmethod):
                o = o.__func__
            return self.lift_py(o)
        if isinstance(base, K):
            if isinstance(base.v, str):
                return BoundMethod(base, attr)
            raise Unsupported(f"attribute {attr} on constant")
        if isinstance(base, (STuple, SDict)):
            return BoundMethod(base, attr)
        t = base.ty
        if t == SINK:
            return BoundMethod(base, attr)
        if isinstance(t, TOpt):
            if t.inner == SINK:
                return BoundMethod(unwrap_opt(base), attr)
            self.emit(st, "nonnull", attr, z3.Not(is_none(base)), note="AttributeError on None otherwise")
            base = unwrap_opt(base)
            t = base.ty
        if isinstance(t, TRec):
            if attr in t.fields:
                return rec_get(base, attr)
            return self.class_attr(st, base, t.cls, attr)
        if isinstance(t, TRef):
            if has_field(t.cls, attr):
                return self.heap_get(st, base, attr)
            from .dsl import DICT_CLASSES
            if t.cls in DICT_CLASSES:
                return BoundMethod(base, attr)
            return self.class_attr(st, base, CLASS_OBJ.get(t.cls), attr)
        return BoundMethod(base, attr)

    def class_attr(self, st, base, cls_key, attr):
        """Attribute found on the real class: property (inlined), method (bound), constant."""
        if cls_key is None:
            raise Unsupported(f"attribute {attr} on {base.ty}")
        clsobj = cls_key if inspect.isclass(cls_key) else resolve_class(cls_key)
        try:
            o = inspect.getattr_static(clsobj, attr)
        except AttributeError:
            raise Unsupported(f"{clsobj.__name__} has no attribute {attr}")
        if isinstance(o, property) or o.__class__.__name__ == "cached_property":
            fn = o.fget if isinstance(o, property) else o.func
            return self.call_function(st, fn, [base], {}, expr_only=True)
        if inspect.isfunction(o) or isinstance(o, (staticmethod, classmethod)):
            return BoundMethod(base, attr)
        return self.lift_py(o)

    def heap_arr(self, st, cls, field):
        dc = declaring_class(cls, field)
        k = (dc, field)
        if k not in st.heap:
            ft = T.FIELD_TYPES[dc][field]
            st.heap[k] = z3.Const(f"heap0_{dc}_{field}", z3.ArraySort(z3.IntSort(), ft.sort()))
        return k, st.heap[k], T.FIELD_TYPES[dc][field]

    def heap_get(self, st, ref: V, field):
        k, arr, ft = self.heap_arr(st, ref.ty.cls, field)
        v = V(ft, z3.Select(arr, ref.z))
        if ops.needs_wf(ft):
            # type invariant of the stored value (lengths >= 0 ...), once per (state, term)
            seen = st.ghost.setdefault("__wf_seen__", set())
            key = v.z.get_id()
            if key not in seen:
                st.ghost["__wf_seen__"] = seen | {key}
                wf_assumptions(v, st)
        return v

    def heap_set(self, st, ref: V, field, val):
        k, arr, ft = self.heap_arr(st, ref.ty.cls, field)
        st.heap[k] = z3.Store(arr, ref.z, coerce(val, ft).z)

    def e_Lambda(self, st, e):
        return PyObj(("lambda", e, dict(st.env)))

    def e_Starred(self, st, e):
        raise Unsupported("starred expression")

    def e_Slice(self, st, e):
        raise Unsupported("bare slice")

    def e_Dict(self, st, e):
        if e.keys and all(k is None for k in e.keys):
            vals = [self.eval(st, v) for v in e.values]
            if all(isinstance(v, V) and isinstance(v.ty, TDict) for v in vals) and all(v.ty == vals[0].ty for v in vals):
                # {**a, **b, ...} of dicts of one type: the keys of all of them, a later one taking precedence
                t = TDict(vals[0].ty.k, vals[0].ty.v)
                s = t.sort()
                dom, val = s.dom(vals[0].z), s.val(vals[0].z)
                kq = z3.Const(T.fresh_name("qmk"), t.k.sort())
                for v in vals[1:]:
                    nv = z3.Const(T.fresh_name("mergeval"), val.sort())
                    st.assume(z3.ForAll([kq], z3.Select(nv, kq) == z3.If(z3.Select(s.dom(v.z), kq), z3.Select(s.val(v.z), kq), z3.Select(val, kq))))
                    dom, val = z3.SetUnion(dom, s.dom(v.z)), nv
                return V(t, s.constructor(0)(dom, val))
        items = {}
        for k, v in zip(e.keys, e.values):
            if k is None:      # {**other}
                other = ops.sdict_of(self.eval(st, v))
                if other is None:
                    raise Unsupported("** of a non-structural dict")
                items.update(other.items)
                continue
            if not (isinstance(k, ast.Constant) and isinstance(k.value, str)):
                raise Unsupported("dict literal with non-constant keys")
            items[k.value] = self.eval(st, v)
        return SDict(items)

    def e_Set(self, st, e):
        return PyObj(("setlit", [self.eval(st, x) for x in e.elts]))

    def e_DictComp(self, st, e):
        """{kx(x): vx(x) for x in <set | list> if c(x)} -> a fresh dict r with: every admitted element's key is a key of r; every
        key of r is the key of SOME admitted element w(key) and carries that element's value.  (Which element wins when two
        admitted elements have the same key is not modelled: any of them -- sound for every iteration order.)"""
        if len(e.generators) != 1 or e.generators[0].is_async:
            raise Unsupported("dict comprehension with several generators")
        g = e.generators[0]
        src = self.eval(st, g.iter)
        if isinstance(src, V) and isinstance(src.ty, TOpt):
            src = unwrap_opt(src)
        if isinstance(src, V) and isinstance(src.ty, TSet):
            x = z3.Const(T.fresh_name("qdc"), src.ty.elem.sort())
            inrange, elem = z3.Select(src.z, x), V(src.ty.elem, x)
        elif isinstance(src, V) and isinstance(src.ty, TList):
            x = z3.Int(T.fresh_name("qdc"))
            inrange, elem = z3.And(0 <= x, x < seq_len(src)), V(src.ty.elem, z3.Select(seq_arr(src), x))
        else:
            raise Unsupported("dict comprehension source")
        st2 = st.fork()
        st2.assume(inrange)
        self.bind_target(st2, g.target, elem)
        n0, c0 = len(st2.pc), T._counter[0]
        cond = z3.And(*[truthy(self.eval(st2, c)) for c in g.ifs]) if g.ifs else z3.BoolVal(True)
        kx = to_v(self.eval(st2, e.key))
        vx = self.eval(st2, e.value)
        if isinstance(vx, PyObj) and isinstance(vx.o, tuple) and vx.o and vx.o[0] == "setlit" and vx.o[1]:
            vx = coerce(vx, TSet(to_v(vx.o[1][0]).ty))
        vx = to_v(vx)
        for z in st2.pc[n0:]:
            if mentions(z, [x]):
                if _minted_since(z, c0):
                    raise Unsupported("dict comprehension element needs a fresh value per element")
                st.assume(z3.ForAll([x], z3.Implies(inrange, z)))
            else:
                st.assume(z)
        if _minted_since(kx.z, c0) or _minted_since(vx.z, c0) or _minted_since(cond, c0):
            raise Unsupported("dict comprehension element is a fresh value that does not depend on the element")
        t = TDict(kx.ty, vx.ty)
        r = fresh(t, "dictcomp")
        s = t.sort()
        w = z3.Function(T.fresh_name("dcw"), kx.ty.sort(), x.sort())
        key = z3.Const(T.fresh_name("qdk"), kx.ty.sort())
        at = lambda ex: z3.substitute(ex, (x, w(key)))
        st.assume(z3.ForAll([x], z3.Implies(z3.And(inrange, cond), z3.Select(s.dom(r.z), kx.z))))
        st.assume(z3.ForAll([key], z3.Implies(z3.Select(s.dom(r.z), key),
                                              z3.And(at(inrange), at(cond), at(kx.z) == key, z3.Select(s.val(r.z), key) == at(vx.z)))))
        return r

    def e_ListComp(self, st, e):
        return self.comprehension(st, e)

    def e_GeneratorExp(self, st, e):
        return PyObj(("genexp", e, dict(st.env)))

    def flatten_comp_any(self, st, e):
        """[y for x in xs for y in <expr of x>] (no filters, identity element) where the inner iterable is an arbitrary
        PURE expression of list type: over-approximated by an UNCONSTRAINED fresh list of the inner element type (sound
        for safety proofs: nothing is assumed about the result).  The inner expression is evaluated once, for a generic
        element of xs, so that its own obligations (callee preconditions, non-None) are still emitted."""
        g1, g2 = e.generators
        ok = (not g1.ifs and not g2.ifs and isinstance(g1.target, ast.Name) and isinstance(g2.target, ast.Name)
              and isinstance(e.elt, ast.Name) and e.elt.id == g2.target.id)
        if not ok:
            raise Unsupported("nested comprehension (only the flattening form is supported)")
        outer = self.eval(st, g1.iter)
        if isinstance(outer, V) and isinstance(outer.ty, TOpt):
            outer = unwrap_opt(outer)
        if not (isinstance(outer, V) and isinstance(outer.ty, TList)):
            raise Unsupported("flatten: outer iterable is not a list")
        a = z3.Int(T.fresh_name("qa"))
        st2 = st.fork()
        st2.assume(z3.And(0 <= a, a < seq_len(outer)))
        self.bind_target(st2, g1.target, V(outer.ty.elem, z3.Select(seq_arr(outer), a)))
        heap0 = dict(st2.heap)
        inner = self.eval(st2, g2.iter)
        if any(k in heap0 and heap0[k] is not v for k, v in st2.heap.items()):
            raise Unsupported("flatten: inner iterable has an effect on the heap")
        if not (isinstance(inner, V) and isinstance(inner.ty, TList)):
            raise Unsupported("flatten: inner iterable is not a list")
        return fresh_seq(inner.ty, st, "flat_any")

    # comprehension [f(x) for x in xs] (map only) -> fresh list defined pointwise
    def flatten_comp(self, st, e):
        """[x for xs in xss for x in xs] (no filters, identity element): fresh list with index maps both ways."""
        g1, g2 = e.generators
        ok = (not g1.ifs and not g2.ifs and isinstance(g1.target, ast.Name) and isinstance(g2.target, ast.Name)
              and isinstance(g2.iter, ast.Name) and g2.iter.id == g1.target.id
              and isinstance(e.elt, ast.Name) and e.elt.id == g2.target.id)
        if not ok:
            return self.flatten_comp_any(st, e)
        outer = self.eval(st, g1.iter)
        if not (isinstance(outer, V) and isinstance(outer.ty, TList) and isinstance(outer.ty.elem, TList)):
            raise Unsupported("flatten of non list-of-lists")
        it = outer.ty.elem
        r = fresh_seq(it, st, "flat")
        fa = z3.Function(T.fresh_name("fa"), z3.IntSort(), z3.IntSort())
        fb = z3.Function(T.fresh_name("fb"), z3.IntSort(), z3.IntSort())
        fi = z3.Function(T.fresh_name("fidx"), z3.IntSort(), z3.IntSort(), z3.IntSort())
        j, a, b = z3.Int(T.fresh_name("qj")), z3.Int(T.fresh_name("qa")), z3.Int(T.fresh_name("qb"))
        n = seq_len(r)
        inner = lambda ai: V(it, z3.Select(seq_arr(outer), ai))
        st.assume(forall([j], z3.Implies(z3.And(0 <= j, j < n), z3.And(
            0 <= fa(j), fa(j) < seq_len(outer), 0 <= fb(j), fb(j) < seq_len(inner(fa(j))),
            z3.Select(seq_arr(r), j) == z3.Select(seq_arr(inner(fa(j))), fb(j)), fi(fa(j), fb(j)) == j))))
        st.assume(forall([a, b], z3.Implies(z3.And(0 <= a, a < seq_len(outer), 0 <= b, b < seq_len(inner(a))), z3.And(
            0 <= fi(a, b), fi(a, b) < n, fa(fi(a, b)) == a, fb(fi(a, b)) == b,
            z3.Select(seq_arr(r), fi(a, b)) == z3.Select(seq_arr(inner(a)), b)))))
        return r

    def flatten_value(self, st, outer):
        """itertools.chain.from_iterable(xss) for a list VALUE xss of lists (or of Optional lists: iterating a None
        element is a TypeError, hence a non-None obligation for every element): the same fresh list with index maps
        both ways as flatten_comp."""
        if isinstance(outer, V) and isinstance(outer.ty, TOpt):
            outer = unwrap_opt(outer)
        if not (isinstance(outer, V) and isinstance(outer.ty, TList)):
            raise Unsupported("chain.from_iterable of a non-list")
        et = outer.ty.elem
        it = et.inner if isinstance(et, TOpt) else et
        if not isinstance(it, TList):
            raise Unsupported("chain.from_iterable of a list whose elements are not lists")
        j, a, b = z3.Int(T.fresh_name("qj")), z3.Int(T.fresh_name("qa")), z3.Int(T.fresh_name("qb"))
        if isinstance(et, TOpt):
            self.emit(st, "nonnull", "chain.from_iterable", forall([a], z3.Implies(z3.And(0 <= a, a < seq_len(outer)),
                      z3.Not(is_none(V(et, z3.Select(seq_arr(outer), a)))))), note="TypeError (None is not iterable) otherwise")
            inner = lambda ai: unwrap_opt(V(et, z3.Select(seq_arr(outer), ai)))
        else:
            inner = lambda ai: V(it, z3.Select(seq_arr(outer), ai))
        r = fresh_seq(it, st, "chain")
        fa = z3.Function(T.fresh_name("fa"), z3.IntSort(), z3.IntSort())
        fb = z3.Function(T.fresh_name("fb"), z3.IntSort(), z3.IntSort())
        fi = z3.Function(T.fresh_name("fidx"), z3.IntSort(), z3.IntSort(), z3.IntSort())
        n = seq_len(r)
        by_pos = lambda jj: z3.Implies(z3.And(0 <= jj, jj < n), z3.And(
            0 <= fa(jj), fa(jj) < seq_len(outer), 0 <= fb(jj), fb(jj) < seq_len(inner(fa(jj))),
            z3.Select(seq_arr(r), jj) == z3.Select(seq_arr(inner(fa(jj))), fb(jj)), fi(fa(jj), fb(jj)) == jj))
        by_src = lambda aa, bb: z3.Implies(z3.And(0 <= aa, aa < seq_len(outer), 0 <= bb, bb < seq_len(inner(aa))), z3.And(
            0 <= fi(aa, bb), fi(aa, bb) < n, fa(fi(aa, bb)) == aa, fb(fi(aa, bb)) == bb,
            z3.Select(seq_arr(r), fi(aa, bb)) == z3.Select(seq_arr(inner(aa)), bb)))
        st.assume(forall([j], by_pos(j)))
        st.assume(forall([a, b], by_src(a, b)))
        # the instances at the first element (what `xs[0]` / `len(xs) > 1` tests after the call need), stated ground
        st.assume(by_pos(z3.IntVal(0)))
        st.assume(by_src(z3.IntVal(0), z3.IntVal(0)))
        return r

    def comprehension(self, st, e):
        if len(e.generators) == 2:
            return self.flatten_comp(st, e)
        if len(e.generators) != 1:
            raise Unsupported("nested comprehension")
        g = e.generators[0]
        src = self.eval(st, g.iter)
        if isinstance(src, V) and isinstance(src.ty, TOpt):
            src = unwrap_opt(src)
        if isinstance(src, STuple):
            outs = []
            for it in src.items:
                st2 = st.fork()
                self.bind_target(st2, g.target, it)
                if g.ifs:
                    raise Unsupported("filter in comprehension over tuple")
                outs.append(self.eval(st2, e.elt))
            return STuple(outs)
        if not (isinstance(src, V) and isinstance(src.ty, TList)):
            raise Unsupported("comprehension source")
        i = z3.Int(T.fresh_name("qm"))
        st2 = st.fork()
        self.bind_target(st2, g.target, V(src.ty.elem, z3.Select(seq_arr(src), i)))
        if g.ifs:
            return self.filter_comp(st, st2, e, g, src, i)
        rng = z3.And(0 <= i, i < seq_len(src))
        st2.assume(rng)       # obligations emitted while evaluating the element see the index range
        n0 = len(st2.pc)
        c0 = T._counter[0]
        elt = to_v(self.eval(st2, e.elt))
        for z in st2.pc[n0:]:
            if mentions(z, [i]):
                # a fact that ties a symbol minted while evaluating the element (an inner comprehension, slice, callee
                # result: ONE symbol for all indices) to the index cannot be stated for every index at once
                minted = _minted_since(z, c0)
                if minted:
                    raise Unsupported(f"comprehension element needs a fresh value per index ({minted[0]}): nested "
                                      "comprehension / slice / impure call inside a list comprehension")
                st.assume(forall([i], z3.Implies(rng, z)))
            else:
                st.assume(z)
        if _minted_since(elt.z, c0):
            raise Unsupported("comprehension element is a fresh value that does not depend on the index")
        r = fresh_seq(TList(elt.ty), st, "comp")
        st.assume(seq_len(r) == seq_len(src))
        st.assume(forall([i], z3.Implies(z3.And(0 <= i, i < seq_len(src)), z3.Select(seq_arr(r), i) == elt.z)))
        return r

    def filter_comp(self, st, st2, e, g, src, i):
        """[elt for x in xs if c]: fresh list r with a strictly increasing index map into xs (order kept),
        every selected element satisfies c, and every element satisfying c is selected."""
        cond = z3.And(*[truthy(self.eval(st2, c)) for c in g.ifs])
        elt = to_v(self.eval(st2, e.elt))
        r = fresh_seq(TList(elt.ty), st, "filt")
        m = z3.Function(T.fresh_name("fmap"), z3.IntSort(), z3.IntSort())
        inv = z3.Function(T.fresh_name("finv"), z3.IntSort(), z3.IntSort())
        n, rl = seq_len(src), seq_len(r)
        j = z3.Int(T.fresh_name("qf"))
        j2 = z3.Int(T.fresh_name("qf"))
        sub = lambda ex, at: z3.substitute(ex, (i, at))
        st.assume(rl <= n)
        st.assume(forall([j], z3.Implies(z3.And(0 <= j, j < rl),
                                          z3.And(0 <= m(j), m(j) < n, sub(cond, m(j)), z3.Select(seq_arr(r), j) == sub(elt.z, m(j)),
                                                 inv(m(j)) == j))))
        st.assume(forall([j, j2], z3.Implies(z3.And(0 <= j, j < j2, j2 < rl), m(j) < m(j2))))
        st.assume(forall([i], z3.Implies(z3.And(0 <= i, i < n, cond), z3.And(0 <= inv(i), inv(i) < rl, m(inv(i)) == i))))
        st.ghost.setdefault("__filters__", []).append((r, src, m, inv))
        return r

    # ------------------------------------------------------------------ calls (expression level: pure)
    def e_Call(self, st, e):
        if _is_logger_call(e):
            return K(None)
        f = self.eval(st, e.func)
        if any(isinstance(a, ast.Starred) for a in e.args):
            raise Unsupported("star-args in call")
        # quantifier builtins take a generator: evaluate lazily
        if isinstance(f, PyObj) and f.o in (all, any, sum) and len(e.args) == 1 and isinstance(e.args[0], (ast.GeneratorExp, ast.ListComp)):
            return self.quantified(st, f.o, e.args[0])
        if self.is_ifquant(f) and len(e.args) == 1 and isinstance(e.args[0], (ast.GeneratorExp, ast.ListComp)):
            return self.quantified_choice(st, f, e.args[0])
        args = [self.eval(st, a) for a in e.args]
        kwargs = self.eval_kwargs(st, e.keywords)
        return self.apply(st, f, args, kwargs, e, stmt_level=False)

    def eval_kwargs(self, st, keywords):
        kwargs = {}
        for k in keywords:
            val = self.eval(st, k.value)
            if k.arg is None:
                sd = ops.sdict_of(val)
                if sd is None:
                    raise Unsupported("** of a non-structural dict in call")
                kwargs.update(sd.items)
            else:
                kwargs[k.arg] = val
        return kwargs

    @staticmethod
    def is_ifquant(f):
        return isinstance(f, PyObj) and isinstance(f.o, tuple) and len(f.o) == 4 and f.o[0] == "ifquant"

    def quantified_choice(self, st, f, g):
        """(all if c else any)(<generator>)"""
        _, c, qa, qb = f.o
        ra = self.quantified(st, qa, g)
        rb = ra if qb is qa else self.quantified(st, qb, g)
        return V(BOOL, z3.If(c, ra.z, rb.z))

    def quantified(self, st, which, g):
        gens = g.generators
        qvars = []
        guards = []
        st2 = st.fork()
        for gen in gens:
            it = gen.iter
            if isinstance(it, ast.Call) and isinstance(it.func, ast.Name) and it.func.id == "range":
                ra = [coerce(self.eval(st2, a), INT).z for a in it.args]
                if len(ra) > 2:
                    raise Unsupported("range() with a step inside a quantifier")
                lo, hi = (z3.IntVal(0), ra[0]) if len(ra) == 1 else (ra[0], ra[1])
                i = z3.Int(T.fresh_name("q"))
                qvars.append(i)
                guards.append(z3.And(lo <= i, i < hi))
                if not mentions(lo, qvars[:-1]) and not mentions(hi, qvars[:-1]):
                    ops.note_range(lo, hi)
                self.bind_target(st2, gen.target, V(INT, i))
            else:
                src = self.eval(st2, it)
                if isinstance(src, V) and isinstance(src.ty, TOpt):
                    src = unwrap_opt(src)
                if isinstance(src, (STuple, K)):
                    items = src.items if isinstance(src, STuple) else [self.lift_py(x) for x in src.v]
                    if len(gens) != 1:
                        raise Unsupported("nested quantifier over tuple")
                    outs = []
                    for it_ in items:
                        st3 = st.fork()
                        self.bind_target(st3, gen.target, it_)
                        ok = z3.And(*[truthy(self.eval(st3, c)) for c in gen.ifs]) if gen.ifs else z3.BoolVal(True)
                        body = truthy(self.eval(st3, g.elt))
                        outs.append(z3.Implies(ok, body) if which is all else z3.And(ok, body))
                    if which is sum:
                        raise Unsupported("sum over tuple")
                    return V(BOOL, (z3.And if which is all else z3.Or)(*outs) if outs else z3.BoolVal(which is all))
                enum_idx = None
                if isinstance(src, V) and isinstance(src.ty, TSet):
                    x = z3.Const(T.fresh_name("qs"), src.ty.elem.sort())
                    qvars.append(x)
                    guards.append(z3.Select(src.z, x))
                    self.bind_target(st2, gen.target, V(src.ty.elem, x))
                    for c in gen.ifs:
                        guards.append(truthy(self.eval(st2, c)))
                    continue
                if isinstance(src, PyObj) and isinstance(src.o, tuple) and src.o[0] == "enumerate":
                    enum_idx, src = True, src.o[1]
                if not (isinstance(src, V) and isinstance(src.ty, TList)):
                    if isinstance(src, V) and is_str(src.ty) and src.ty.view == "array":
                        i = z3.Int(T.fresh_name("q"))
                        qvars.append(i)
                        guards.append(z3.And(0 <= i, i < seq_len(src)))
                        self.bind_target(st2, gen.target, V(CHAR, z3.Select(seq_arr(src), i)))
                        for c in gen.ifs:
                            guards.append(truthy(self.eval(st2, c)))
                        continue
                    raise Unsupported(f"quantifier over {src!r}")
                i = z3.Int(T.fresh_name("q"))
                qvars.append(i)
                guards.append(z3.And(0 <= i, i < seq_len(src)))
                el = V(src.ty.elem, z3.Select(seq_arr(src), i))
                self.bind_target(st2, gen.target, STuple([V(INT, i), el]) if enum_idx else el)
            for c in gen.ifs:
                guards.append(truthy(self.eval(st2, c)))
        if which is sum:
            if self.c.opts.get("sum_models") and not self.in_spec:
                r = self.sum_by_model(st, g)
                if r is not None:
                    return r
            return self.sum_of(st, st2, g, qvars, guards)
        st2b = st2.fork()
        st2b.assume(z3.And(*guards))   # obligations emitted inside the body see the range guards
        nb = len(st2b.pc)
        body = truthy(self.eval(st2b, g.elt))
        # facts introduced while evaluating the body (contract ensures of pure calls, definitions of fresh
        # slices...) may mention the bound variables: they are kept *inside* the quantifier
        extras = []
        for z in st2.pc[len(st.pc):] + st2b.pc[nb:]:
            if mentions(z, qvars):
                extras.append(z)
            else:
                st.assume(z)   # independent of the bound variables: a fact of the enclosing state
        guard = z3.And(*guards)
        if which is all:
            return V(BOOL, forall(qvars, z3.Implies(z3.And(guard, *extras) if extras else guard, body)))
        return V(BOOL, exists(qvars, z3.And(guard, *extras, body) if extras else z3.And(guard, body)))

    def sum_by_model(self, st, g):
        """opt-in (Contract.opts["sum_models"] = [recursive specs]): `sum(<elt> for <target> in <list> if <cond>)` in the verified
        code is the value  f(list, len(list), v1, ..., vm)  of a recursive spec f(xs, n, v1..vm) of the sidecar (v1..vm: the free local
        names of the generator expression other than the list, in order of first occurrence) PROVIDED f satisfies the recurrences of
        this very sum, which are emitted as obligations of their own (no hypotheses, arbitrary list / index / values):
            f(xs, 0, vs) == 0        0 <= k < len(xs)  =>  f(xs, k + 1, vs) == f(xs, k, vs) + (elt(xs[k]) if cond(xs[k]) else 0)
        By induction on len(xs) the two make f(xs, len(xs), vs) the sum; nothing is assumed."""
        if len(g.generators) != 1 or not isinstance(g.generators[0].iter, ast.Name):
            return None
        gen = g.generators[0]
        src = self.eval(st, gen.iter)
        if not (isinstance(src, V) and isinstance(src.ty, TList)):
            return None
        bound = {n.id for n in ast.walk(gen.target) if isinstance(n, ast.Name)}
        free = []
        for part in [g.elt] + list(gen.ifs):
            for n in ast.walk(part):
                if isinstance(n, ast.Name) and n.id not in bound and n.id != gen.iter.id and n.id in st.env and n.id not in free:
                    free.append(n.id)
        fvals = [st.env[n] for n in free]
        if not all(isinstance(v, V) for v in fvals):
            return None
        for sp in self.c.opts["sum_models"]:
            node, params = contract_ast(sp.fn)
            ann = sp.fn.__annotations__
            if not (sp.recursive and len(params) == 2 + len(free) and ann.get(params[0]) == src.ty
                    and all(ann.get(p) == v.ty for p, v in zip(params[2:], fvals))):
                continue
            mk = (sp.name, ast.dump(g))
            done = self.__dict__.setdefault("_sum_models_done", set())     # once per run of this executor
            if mk not in done:
                done.add(mk)
                s0 = State()
                s0.ghost = dict(st.ghost)
                xs = fresh_seq(src.ty, s0, "sm_xs")
                wf_assumptions(xs, s0)
                k = fresh(INT, "sm_k")
                vs = [fresh(v.ty, "sm_" + n) for n, v in zip(free, fvals)]
                s0.env = dict(zip(free, vs))
                s0.env[gen.iter.id] = xs
                self.bind_target(s0, gen.target, V(src.ty.elem, z3.Select(seq_arr(xs), k.z)))
                cond = z3.And(*[truthy(self.eval(s0, c)) for c in gen.ifs]) if gen.ifs else z3.BoolVal(True)
                term = coerce(self.eval(s0, g.elt), INT).z
                self._concrete_specs = True          # the recurrences are about the DEFINED function, never an abstracted symbol
                try:
                    f = lambda n: coerce(self.apply_spec(s0, sp, [xs, V(INT, n)] + vs, {}), INT).z
                    f0, fk, fk1 = f(z3.IntVal(0)), f(k.z), f(k.z + 1)
                finally:
                    self._concrete_specs = False
                self.emit(s0, "sum-model", sp.name + ".base", f0 == 0)
                self.emit(s0, "sum-model", sp.name + ".step",
                          z3.Implies(z3.And(0 <= k.z, k.z < seq_len(xs)), fk1 == fk + z3.If(cond, term, 0)))
            return self.apply_spec(st, sp, [src, V(INT, seq_len(src))] + fvals, {})
        return None

    def sum_of(self, st, st2, g, qvars, guards):
        """sum(term(i) for i ...): a fresh integer with the facts that hold of every finite sum of non-negative
        terms (>= 0, >= each term, zero iff every term is zero); the exact value for an empty or singleton range."""
        st2b = st2.fork()
        st2b.assume(z3.And(*guards))
        nb = len(st2b.pc)
        term = coerce(self.eval(st2b, g.elt), INT).z
        extras = [z for z in st2.pc[len(st.pc):] + st2b.pc[nb:]]
        pre = z3.And(*guards, *extras) if extras else z3.And(*guards)
        r = fresh(INT, "sum")
        nonneg = forall(qvars, z3.Implies(pre, term >= 0))
        st.assume(z3.Implies(nonneg, z3.And(r.z >= 0,
                                            (r.z == 0) == forall(qvars, z3.Implies(pre, term == 0)),
                                            forall(qvars, z3.Implies(pre, r.z >= term)))))
        st.assume(z3.Implies(z3.Not(exists(qvars, pre)), r.z == 0))
        return r

    # ------------------------------------------------------------------ call dispatch
    def apply(self, st, f, args, kwargs, node, stmt_level):
        """Returns a value (expression level) or a list of (state, Outcome) when stmt_level."""
        if isinstance(f, BoundMethod):
            return self.apply_method(st, f, args, kwargs, node, stmt_level)
        if isinstance(f, (Spec, Lemma)) or (isinstance(f, PyObj) and isinstance(f.o, (Spec, Lemma))):
            sp = f.o if isinstance(f, PyObj) else f
            r = self.apply_spec(st, sp, args, kwargs)
            return self.wrap(st, r, stmt_level)
        if isinstance(f, V) and isinstance(f.ty, TRef) and f.ty.cls in CALLABLE_CONTRACT:
            # calling an OBJECT of a declared class (functools.partial, callable task): the (assumed) contract registered for it
            return self.call_contract(st, CONTRACTS[CALLABLE_CONTRACT[f.ty.cls]], [f] + args, kwargs, stmt_level, node)
        if not isinstance(f, PyObj):
            raise Unsupported(f"call of {f!r}")
        o = f.o
        if isinstance(o, Contract):
            r = self.call_contract(st, o, args, kwargs, stmt_level, node)
            return r
        if isinstance(o, tuple) and o and o[0] == "classbound":
            return self.call_function(st, o[1], [PyObj(o[2])] + args, kwargs, stmt_level=stmt_level, node=node)
        if isinstance(o, tuple) and o and o[0] == "noop":
            return self.wrap(st, K(None), stmt_level)
        if isinstance(o, tuple) and o and o[0] == "superbound":
            return self.call_function(st, o[1], [o[2]] + args, kwargs, stmt_level=stmt_level, node=node, owner=o[3])
        if isinstance(o, tuple) and o and o[0] == "localfn":
            if args or kwargs:
                raise Unsupported("call of a local function with arguments")
            return self.wrap(st, self.eval(st, o[1]), stmt_level)      # see s_FunctionDef: evaluated in the state of the call
        if isinstance(o, tuple) and o and o[0] == "lambda":
            _, lam, env = o
            st2 = st.fork()
            st2.env = dict(env)
            for p, a in zip(lam.args.args, args):
                st2.env[p.arg] = a
            r = self.eval(st2, lam.body)
            return self.wrap(st, r, stmt_level)
        bi = self.builtin(st, o, args, kwargs, node)
        if bi is not NotImplemented:
            return self.wrap(st, bi, stmt_level)
        if inspect.isclass(o):
            return self.construct(st, o, args, kwargs, node, stmt_level)
        return self.call_function(st, o, args, kwargs, stmt_level=stmt_level, node=node)

    def wrap(self, st, r, stmt_level):
        if stmt_level:
            return [(st, Outcome("value", r))]
        return r

    def builtin(self, st, o, args, kwargs, node):
        if args and any(o is w for w in ITER_WRAPPERS):
            return args[0]       # a progress-bar style wrapper: iterating it yields exactly the elements of its first argument, in order
        if o in (int, str, bool, len, repr, list, tuple, sorted, min, max, abs) and any(isinstance(a, V) and a.ty == SINK for a in args):
            return fresh(SINK, "sinkfn") if o is not bool else V(BOOL, truthy(args[0]))
        if o is _was:
            from .stmts import OldRef
            ns = args[0].o
            return PyObj(OldRef(args[1], ns))
        if o is _implies:
            return V(BOOL, z3.Implies(truthy(args[0]), truthy(args[1])))
        if o is _iff:
            return V(BOOL, truthy(args[0]) == truthy(args[1]))
        if o is len:
            a = args[0]
            if isinstance(a, STuple):
                return mk_int(len(a.items))
            if isinstance(a, K):
                return mk_int(len(a.v))
            if isinstance(a.ty, TOpt):
                a = unwrap_opt(a)
            if isinstance(a.ty, TTuple):
                return mk_int(len(a.ty.elems))
            if isinstance(a.ty, TRec):
                hook = REC_LEN.get(a.ty.name)
                if hook:
                    return hook(self, st, a)
            return V(INT, seq_len(a))
        if o in (min, max):
            if len(args) == 1:
                raise Unsupported("min/max over iterable")
            zs = [coerce(a, INT).z for a in args]
            r = zs[0]
            for z in zs[1:]:
                r = z3.If(z < r, z, r) if o is min else z3.If(z > r, z, r)
            return V(INT, r)
        if o is abs:
            z = coerce(args[0], INT).z
            return V(INT, z3.If(z < 0, -z, z))
        if o is int:
            a = args[0]
            if isinstance(a, V) and isinstance(a.ty, TOpt):
                a = unwrap_opt(a)
            if isinstance(a, V) and a.ty in (INT, BOOL, CHAR):
                return coerce(a, INT)
            raise Unsupported("int() of non-int")
        if o is bool:
            return V(BOOL, truthy(args[0]))
        if o is slice:
            if len(args) == 2:
                a0 = args[0]
                return rec_make(SLICE, {"start": a0, "stop": args[1]})
            raise Unsupported("slice() arity")
        if o is tuple:
            if not args:
                return STuple([])
            a = args[0]
            if isinstance(a, PyObj) and isinstance(a.o, tuple) and a.o[0] == "genexp":
                return self.comprehension(st, ast.ListComp(elt=a.o[1].elt, generators=a.o[1].generators))
            return a
        if o is list:
            if not args:
                return STuple([])
            a = args[0]
            if isinstance(a, PyObj) and isinstance(a.o, tuple) and a.o[0] == "genexp":
                fake = ast.ListComp(elt=a.o[1].elt, generators=a.o[1].generators)
                return self.comprehension(st, fake)
            if isinstance(a, V) and isinstance(a.ty, TSet):
                return self.list_of_set(st, a)
            return a
        if o in (any, all) and len(args) == 1 and not kwargs and isinstance(args[0], V) and isinstance(args[0].ty, TList):
            # any(xs) / all(xs) of a list VALUE: some / every element is truthy
            xs = args[0]
            i = z3.Int(T.fresh_name("qa"))
            el = truthy(V(xs.ty.elem, z3.Select(seq_arr(xs), i)))
            rng = z3.And(0 <= i, i < seq_len(xs))
            return V(BOOL, exists([i], z3.And(rng, el)) if o is any else forall([i], z3.Implies(rng, el)))
        if o is isinstance:
            return V(BOOL, self.isinstance(st, args[0], args[1]))
        if o is next and len(args) == 2 and isinstance(args[0], PyObj) and isinstance(args[0].o, tuple) and args[0].o[0] == "genexp" \
                and isinstance(args[1], K) and args[1].v is None:
            # next((<elt> for x in xs if c), None): the first element of the (filtered) comprehension, None when it is empty
            g = args[0].o[1]
            xs = self.comprehension(st, ast.ListComp(elt=g.elt, generators=g.generators))
            if not (isinstance(xs, V) and isinstance(xs.ty, TList)):
                raise Unsupported("next() over this generator")
            ot = TOpt(xs.ty.elem) if not isinstance(xs.ty.elem, TOpt) else xs.ty.elem
            first = coerce(V(xs.ty.elem, z3.Select(seq_arr(xs), 0)), ot)
            return V(ot, z3.If(seq_len(xs) > 0, first.z, ot.sort().none))
        if o is enumerate:
            return PyObj(("enumerate", args[0]))
        if o is reversed:
            return PyObj(("reversed", args[0]))
        if o is zip:
            return PyObj(("zip", args))
        if o is range:
            return PyObj(("range", [coerce(a, INT) for a in args]))
        if o is typing.cast:
            return args[1]
        if o is sorted:
            rev = kwargs.get("reverse")
            if rev is not None and not (isinstance(rev, K) and rev.v is False):
                raise Unsupported("sorted(..., reverse=...) is not modelled")      # it used to be read as ascending
            if set(kwargs) - {"key", "reverse"}:
                raise Unsupported("sorted() with unknown keyword arguments")
            return self.sorted(st, args[0], kwargs.get("key"))
        if o is str:
            a = args[0]
            if isinstance(a, V) and isinstance(a.ty, TRef) and CLASS_OBJ.get(a.ty.cls) is not None and "__str__" in vars(CLASS_OBJ[a.ty.cls]):
                return self.call_function(st, vars(CLASS_OBJ[a.ty.cls])["__str__"], [a], {}, expr_only=True)
            if isinstance(a, V) and is_str(a.ty):
                return a
            if isinstance(a, K) and isinstance(a.v, str):
                return a
            r = fresh(T.Text, "str")
            return r
        if o is repr:
            return fresh(T.Text, "repr")
        if o is super and not args:
            return PyObj(("super",))
        if o is hasattr and isinstance(args[1], K):
            a = args[0]
            if isinstance(a, V) and isinstance(a.ty, TRef):
                if has_field(a.ty.cls, args[1].v):
                    return mk_bool(True)
                return fresh(BOOL, "hasattr")   # depends on the dynamic class: unknown
            raise Unsupported("hasattr on this value")
        if o is getattr and len(args) == 2 and isinstance(args[1], K):
            a = args[0]
            if isinstance(a, V) and isinstance(a.ty, TRef) and not has_field(a.ty.cls, args[1].v):
                return PyObj(("anyobj",))      # attribute of a subclass we know nothing about
            return self.getattr(st, a, args[1].v)
        if o is next and len(args) == 2 and isinstance(args[0], PyObj) and isinstance(args[0].o, tuple) and args[0].o[0] == "genexp":
            # next((x for x in xs if c), default): first element of the (order-preserving) filtered list, else the default
            _, gnode, genv = args[0].o
            saved = st.env
            st.env = dict(genv)
            try:
                lst = self.comprehension(st, ast.ListComp(elt=gnode.elt, generators=gnode.generators))
            finally:
                st.env = saved
            if not (isinstance(lst, V) and isinstance(lst.ty, TList)):
                raise Unsupported("next() over this generator")
            first = V(lst.ty.elem, z3.Select(seq_arr(lst), 0))
            if isinstance(args[1], K) and args[1].v is None and not isinstance(lst.ty.elem, TOpt):
                ot = TOpt(lst.ty.elem)
                return V(ot, z3.If(seq_len(lst) > 0, coerce(first, ot).z, ot.sort().none))
            return V(lst.ty.elem, z3.If(seq_len(lst) > 0, first.z, coerce(args[1], lst.ty.elem).z))
        if len(args) == 1 and getattr(o, "__name__", None) == "from_iterable" and (
                getattr(o, "__objclass__", None) is __import__("itertools").chain
                or getattr(o, "__self__", None) is __import__("itertools").chain):
            # itertools.chain.from_iterable(<generator | list of lists>): the concatenation, as a list value
            a = args[0]
            if isinstance(a, PyObj) and isinstance(a.o, tuple) and a.o[0] == "genexp":
                _, gnode, genv = a.o
                saved = st.env
                st.env = dict(genv)
                try:
                    a = self.comprehension(st, ast.ListComp(elt=gnode.elt, generators=gnode.generators))
                finally:
                    st.env = saved
            return self.flatten_value(st, a)
        if o is set and not args:
            return PyObj(("emptyset",))
        if o is __import__("collections").defaultdict and len(args) == 1 and not kwargs and isinstance(args[0], PyObj) and args[0].o is set:
            return PyObj(("defaultdict", "set"))       # typed by the declared type of the local it is assigned to (TDefaultDict)
        if o is dict and not args:
            return SDict(kwargs)
        if o is set and len(args) == 1:
            return self.set_of(st, args[0])
        return NotImplemented

    def list_of_set(self, st, a):
        """list(<set>): a fresh list that enumerates the set without repetition, in an ARBITRARY order (the iteration order of
        a set is not modelled; two calls on the same set are not assumed to agree)"""
        et = a.ty.elem
        r = fresh_seq(TList(et), st, "listof")
        n, arr = seq_len(r), seq_arr(r)
        i, j = z3.Int(T.fresh_name("qi")), z3.Int(T.fresh_name("qi"))
        x = z3.Const(T.fresh_name("qx"), et.sort())
        wit = z3.Function(T.fresh_name("listw"), et.sort(), z3.IntSort())
        st.assume(forall([i], z3.Implies(z3.And(0 <= i, i < n), z3.Select(a.z, z3.Select(arr, i)))))
        st.assume(forall([i, j], z3.Implies(z3.And(0 <= i, i < j, j < n), z3.Select(arr, i) != z3.Select(arr, j))))
        st.assume(z3.ForAll([x], z3.Implies(z3.Select(a.z, x), z3.And(0 <= wit(x), wit(x) < n, z3.Select(arr, wit(x)) == x))))
        return r

    def set_of(self, st, a):
        if isinstance(a, V) and isinstance(a.ty, TSet):
            return a
        if isinstance(a, V) and isinstance(a.ty, TList):
            r = fresh(TSet(a.ty.elem), "setof")
            x = z3.Const(T.fresh_name("qx"), a.ty.elem.sort())
            i = z3.Int(T.fresh_name("qi"))
            st.assume(forall([i], z3.Implies(z3.And(0 <= i, i < seq_len(a)), z3.Select(r.z, z3.Select(seq_arr(a), i)))))
            wit = z3.Function(T.fresh_name("setw"), a.ty.elem.sort(), z3.IntSort())
            st.assume(z3.ForAll([x], z3.Implies(z3.Select(r.z, x), z3.And(0 <= wit(x), wit(x) < seq_len(a), z3.Select(seq_arr(a), wit(x)) == x))))
            return r
        raise Unsupported("set() of this value")

    def sorted(self, st, xs, key):
        if isinstance(xs, V) and isinstance(xs.ty, TOpt):
            xs = unwrap_opt(xs)
        if isinstance(xs, PyObj) and isinstance(xs.o, tuple) and xs.o[0] == "genexp":
            saved = st.env
            st.env = dict(xs.o[2])
            try:
                xs = self.comprehension(st, ast.ListComp(elt=xs.o[1].elt, generators=xs.o[1].generators))
            finally:
                st.env = saved
        if isinstance(xs, V) and isinstance(xs.ty, TSet) and key is None:
            # sorted(<set>): a deterministic function of the set's value -- an uninterpreted function symbol (one per
            # element type) whose result enumerates the set without repetition (the order itself is not modelled).  The
            # axioms are closed, so the term may occur under quantifiers and in contract text (`sorted(s)` there too).
            lty = TList(xs.ty.elem)
            fk = "sorted_set:" + xs.ty.elem.key
            if fk not in REC_DECLS:
                F = z3.Function("sorted_set_" + T._mangle(xs.ty.elem.key), xs.ty.sort(), lty.sort())
                W = z3.Function("sorted_set_at_" + T._mangle(xs.ty.elem.key), xs.ty.sort(), xs.ty.elem.sort(), z3.IntSort())
                sv = z3.Const("ss_s", xs.ty.sort())
                xv = z3.Const("ss_x", xs.ty.elem.sort())
                i, j = z3.Int("ss_i"), z3.Int("ss_j")
                ls = lty.sort()
                ln, at = ls.len(F(sv)), (lambda k: z3.Select(ls.arr(F(sv)), k))
                REC_DECLS[fk] = (F, [
                    z3.ForAll([sv], ln >= 0, patterns=[F(sv)]),
                    z3.ForAll([sv, i], z3.Implies(z3.And(0 <= i, i < ln), z3.Select(sv, at(i))), patterns=[at(i)]),
                    z3.ForAll([sv, xv], z3.Implies(z3.Select(sv, xv), z3.And(0 <= W(sv, xv), W(sv, xv) < ln, at(W(sv, xv)) == xv)),
                              patterns=[z3.MultiPattern(z3.Select(sv, xv), F(sv))]),
                    z3.ForAll([sv, i, j], z3.Implies(z3.And(0 <= i, i < j, j < ln), at(i) != at(j)), patterns=[z3.MultiPattern(at(i), at(j))]),
                ])
            F, axs = REC_DECLS[fk]
            if not ops.MODE.get("pure"):
                for ax in axs:
                    st.assume(ax)
            self.externals_used.add("builtins.sorted (assumed for a set argument: a function of the set; a repetition-free enumeration of it)")
            return V(lty, F(xs.z))
        if not (isinstance(xs, V) and isinstance(xs.ty, TList)):
            raise Unsupported("sorted() of non-list")
        r = fresh_seq(xs.ty, st, "sorted")
        n = seq_len(xs)
        st.assume(seq_len(r) == n)
        perm = z3.Function(T.fresh_name("perm"), z3.IntSort(), z3.IntSort())
        pinv = z3.Function(T.fresh_name("pinv"), z3.IntSort(), z3.IntSort())
        i = z3.Int(T.fresh_name("qp"))
        j = z3.Int(T.fresh_name("qp"))
        el = lambda lst, at: V(xs.ty.elem, z3.Select(seq_arr(lst), at))

        def kf(v):
            if key is None:
                return v
            return self.apply(st, key, [v], {}, None, stmt_level=False)
        st.assume(forall([i], z3.Implies(z3.And(0 <= i, i < n),
                                          z3.And(0 <= perm(i), perm(i) < n, z3.Select(seq_arr(r), i) == z3.Select(seq_arr(xs), perm(i)),
                                                 pinv(perm(i)) == i))))
        st.assume(forall([i], z3.Implies(z3.And(0 <= i, i < n), z3.And(0 <= pinv(i), pinv(i) < n, perm(pinv(i)) == i))))
        # consequence of the two above, stated with a trigger on xs[j] so that "every input element occurs
        # in the output" is found by E-matching
        if ops.MODE["bounded"] is None:
            st.assume(z3.ForAll([j], z3.Implies(z3.And(0 <= j, j < n),
                                                z3.And(0 <= pinv(j), pinv(j) < n,
                                                       z3.Select(seq_arr(r), pinv(j)) == z3.Select(seq_arr(xs), j))),
                                patterns=[z3.Select(seq_arr(xs), j)]))
        le = self.order(ast.LtE(), kf(el(r, i)), kf(el(r, j)))
        st.assume(forall([i, j], z3.Implies(z3.And(0 <= i, i < j, j < n), le)))
        keq = val_eq(kf(el(r, i)), kf(el(r, j)))
        st.assume(forall([i, j], z3.Implies(z3.And(0 <= i, i < j, j < n, keq), perm(i) < perm(j))))
        st.ghost.setdefault("__sorted__", []).append((r, xs, perm, pinv))
        self.externals_used.add("builtins.sorted (assumed: stable permutation ordered by key)")
        return r

    def isinstance(self, st, v, cls):
        classes = []
        if isinstance(cls, STuple):
            classes = [c.o for c in cls.items]
        elif isinstance(cls, PyObj):
            classes = list(cls.o) if isinstance(cls.o, tuple) else [cls.o]
        else:
            raise Unsupported("isinstance class")
        if isinstance(v, K):
            return z3.BoolVal(isinstance(v.v, tuple(classes)))
        if isinstance(v, STuple):
            return z3.BoolVal(any(issubclass(tuple, c) for c in classes))
        t = v.ty
        if isinstance(t, TOpt):
            inner = self.isinstance(st, unwrap_opt(v), cls)
            return z3.And(z3.Not(is_none(v)), inner)
        if isinstance(t, TRef):
            hook = ISINSTANCE_HOOK.get(t.cls)
            if hook is None:
                real = CLASS_OBJ.get(t.cls)
                if real is not None:
                    if any(issubclass(real, c) for c in classes):
                        return z3.BoolVal(True)
                    if not any(issubclass(c, real) for c in classes):
                        return z3.BoolVal(False)    # unrelated class (e.g. str): never an instance
                raise Unsupported(f"isinstance on {t}")
            return z3.Or(*[hook(self, st, v, c) for c in classes])
        pyt = {INT: int, BOOL: bool}.get(t)
        if pyt is not None:
            return z3.BoolVal(any(issubclass(pyt, c) for c in classes))
        if is_str(t):
            return z3.BoolVal(any(issubclass(str, c) for c in classes))
        if isinstance(t, TList):
            return z3.BoolVal(any(issubclass(list, c) for c in classes))
        if isinstance(t, TRec) and t.cls is not None:
            return z3.BoolVal(any(issubclass(resolve_class(t.cls), c) for c in classes))
        raise Unsupported(f"isinstance on {t}")

    # ------------------------------------------------------------------ spec functions / lemmas
    def apply_spec(self, st, sp, args, kwargs):
        fn = sp.fn
        node, params = contract_ast(fn)
        if isinstance(sp, Spec) and sp.recursive:
            return self.apply_rec_spec(st, sp, args)
        if isinstance(sp, Spec) and sp.uninterpreted:
            ann = fn.__annotations__
            ptys = [ann[p] for p in params]
            rty = ann["return"]
            if sp.name not in self.rec_decls:
                self.rec_decls[sp.name] = z3.Function("uf_" + sp.name, *[t.sort() for t in ptys], rty.sort())
            cargs = [coerce(a, t) for a, t in zip(args, ptys)]
            res = V(rty, self.rec_decls[sp.name](*[a.z for a in cargs]))
            ax = getattr(sp, "axiom", None)
            if ax is not None:
                # definitional axiom, quantified over the arguments and triggered on the application
                mk = ("axiom", sp.name)
                if mk not in SPEC_MEMO:
                    anode, aparams = contract_ast(ax)
                    formals = [fresh(t, "ax_" + p) for p, t in zip(params, ptys)]
                    app = self.rec_decls[sp.name](*[f.z for f in formals])
                    env = dict(zip(aparams, formals + [V(rty, app)]))
                    sub = State()
                    sub.ghost = dict(st.ghost)
                    saved = ops.MODE["bounded"]
                    ops.MODE["bounded"] = None
                    try:
                        val = truthy(self.eval_fn_body(sub, ax, anode, env))
                    finally:
                        ops.MODE["bounded"] = saved
                    body = z3.Implies(z3.And(*sub.pc), val) if sub.pc else val
                    SPEC_MEMO[mk] = z3.ForAll([f.z for f in formals], body, patterns=[app])
                st.assume(SPEC_MEMO[mk])
            return res
        env = {}
        ann = fn.__annotations__
        for p, a in zip(params, args):
            t = ann.get(p)
            env[p] = coerce(a, t) if isinstance(t, Ty) and not isinstance(a, (BoundMethod,)) else a
        for p in params[len(args):]:
            if p in kwargs:
                env[p] = kwargs[p]
        if isinstance(sp, Spec) and sp.name in (self.c.opts.get("abstract_specs") or ()) and not getattr(self, "_concrete_specs", False):
            # opt-in (see apply_rec_spec): in this function's verification conditions the spec is an uninterpreted symbol of its
            # arguments (an atom, for a predicate); its body is seen only where it is not abstracted (the lemmas about it)
            rty = ann.get("return")
            if not isinstance(rty, Ty) or not all(isinstance(v, V) for v in env.values()):
                raise Unsupported(f"abstract spec {sp.name}: needs an annotated return type and symbolic arguments")
            ak = "abstract:" + sp.name + ":" + ",".join(str(v.ty) for v in env.values())
            if ak not in self.rec_decls:
                self.rec_decls[ak] = z3.Function("abs_" + sp.name, *[v.ty.sort() for v in env.values()], rty.sort())
            return V(rty, self.rec_decls[ak](*[v.z for v in env.values()]))
        # memoise: the same spec applied to the same terms yields the *same* z3 term (so that a quantified
        # premise occurring twice is recognised propositionally)
        try:
            mk = (sp.name, ops.MODE["bounded"], tuple((str(v.ty), v.z.get_id()) if isinstance(v, V) else repr(v) for v in env.values()))
        except Exception:
            mk = None
        if mk is not None and mk in SPEC_MEMO and all(isinstance(v, (V, K)) for v in env.values()):
            val, extra = SPEC_MEMO[mk]
            for z in extra:
                st.assume(z)
            return val
        n0 = len(st.pc)
        if getattr(sp, "opaque", False) and all(isinstance(v, V) for v in env.values()):
            # opaque predicate: an atom p(args) + ONE global, triggered definition  forall x. p(x) == body(x)
            fk = "opaque:" + sp.name + ":" + ",".join(str(v.ty) for v in env.values())
            if fk not in REC_DECLS:
                formals = {p: fresh(v.ty, "op_" + p) for p, v in env.items()}
                sub = State()
                sub.ghost = dict(st.ghost)
                saved = ops.MODE["bounded"]
                ops.MODE["bounded"] = None
                try:
                    bval = self.eval_fn_body(sub, fn, node, formals)
                finally:
                    ops.MODE["bounded"] = saved
                bv = to_v(bval) if not isinstance(bval, V) else bval
                decl = z3.Function("p_" + sp.name, *[v.ty.sort() for v in env.values()], bv.ty.sort())
                app = decl(*[f.z for f in formals.values()])
                defs = [z3.ForAll([f.z for f in formals.values()], app == bv.z, patterns=[app])]
                for z in sub.pc:
                    defs.append(z3.ForAll([f.z for f in formals.values()], z, patterns=[app]) if mentions(z, [f.z for f in formals.values()]) else z)
                REC_DECLS[fk] = (decl, bv.ty, defs)
            decl, rty, defs = REC_DECLS[fk]
            for d in defs:
                st.assume(d)
            val = V(rty, decl(*[v.z for v in env.values()]))
        else:
            val = self.eval_fn_body(st, fn, node, env)
        if mk is not None and all(isinstance(v, (V, K)) for v in env.values()):
            SPEC_MEMO[mk] = (val, list(st.pc[n0:]))
        return val

    def apply_rec_spec(self, st, sp, args):
        fn = sp.fn
        node, params = contract_ast(fn)
        ann = fn.__annotations__
        ptys = [ann[p] for p in params]
        rty = ann["return"]
        if sp.name in (self.c.opts.get("abstract_specs") or ()) and not getattr(self, "_concrete_specs", False):
            # opt-in (Contract.opts["abstract_specs"] / Lemma.opts): inside THIS function's (lemma's) verification conditions the
            # recursive spec is an UNINTERPRETED symbol -- the solver never unfolds its definition; whatever the proof needs about it
            # must come from instances of proved lemmas (hints / unfold).  Sound: the conditions are then valid for every
            # interpretation of the symbol that satisfies those instances, in particular for the defined function.
            ak = "abstract:" + sp.name
            if ak not in self.rec_decls:
                self.rec_decls[ak] = z3.Function("abs_" + sp.name, *[t.sort() for t in ptys], rty.sort())
            return V(rty, self.rec_decls[ak](*[coerce(a, t).z for a, t in zip(args, ptys)]))
        if sp.name not in self.rec_decls:
            f = z3.RecFunction("spec_" + sp.name, *[t.sort() for t in ptys], rty.sort())
            self.rec_decls[sp.name] = f
            formals = [z3.Const(f"{sp.name}_{p}", t.sort()) for p, t in zip(params, ptys)]
            st0 = State()
            st0.ghost["__globals__"] = fn.__globals__
            env = {p: V(t, z) for p, t, z in zip(params, ptys, formals)}
            saved = ops.MODE["bounded"]
            ops.MODE["bounded"] = None
            ops.MODE["pure"] = True
            try:
                body = coerce(self.eval_fn_body(st0, fn, node, env), rty)
            finally:
                ops.MODE["bounded"] = saved
                ops.MODE["pure"] = False
            # closed facts used by the body (axioms of uninterpreted specs, tx_len(empty) == 0): kept and
            # assumed wherever the function is applied; anything mentioning the formals is quantified
            closed = []
            for z in st0.pc:
                if mentions(z, formals):
                    # a side condition that ties a FRESH constant to the formals would be quantified into a falsehood
                    # (one constant for all arguments): refuse rather than assume it
                    stray = _stray_constants(z, formals)
                    if stray:
                        raise Unsupported(f"recursive spec {sp.name}: its body needs a fresh value depending on the arguments ({stray[0]})")
                    closed.append(z3.ForAll(formals, z))
                else:
                    closed.append(z)
            REC_AXIOMS[sp.name] = closed
            REC_BODIES[sp.name] = (f, formals, body.z)
            z3.RecAddDefinition(f, formals, body.z)
        f = self.rec_decls[sp.name]
        for z in REC_AXIOMS.get(sp.name, []):
            st.assume(z)
        zs = [coerce(a, t).z for a, t in zip(args, ptys)]
        return V(rty, f(*zs))

    def eval_fn_body(self, st, fn, node, env):
        """Evaluate a contract/spec function body (assignments + return) in env; st collects assumptions."""
        st2 = st.fork()
        st2.env = dict(env)
        st2.ghost = dict(st.ghost)
        st2.ghost["__globals__"] = _globals_of(fn)
        n0 = len(st.pc)
        val = None
        self.in_spec += 1
        try:
            val = self._eval_fn_stmts(st2, fn, node)
        finally:
            self.in_spec -= 1
        for z in st2.pc[n0:]:
            st.assume(z)
        if val is None:
            raise Unsupported(f"contract function {fn.__name__} has no return")
        return val

    def _eval_fn_stmts(self, st2, fn, node):
        val = None
        for s in node.body:
            if isinstance(s, ast.Expr) and isinstance(s.value, ast.Constant):
                continue
            if isinstance(s, ast.Assign) and len(s.targets) == 1:
                self.bind_target(st2, s.targets[0], self.eval(st2, s.value))
                continue
            if isinstance(s, ast.Return):
                val = self.eval(st2, s.value)
                break
            if isinstance(s, ast.If):
                val = self.eval_if_chain(st2, s, node.body[node.body.index(s) + 1:])
                break
            raise Unsupported(f"contract function {fn.__name__}: statement {s.__class__.__name__}")
        return val

    def eval_if_chain(self, st, s, rest):
        """if c: return a  [elif...]  else/fallthrough: return b   ->  If(c, a, b)"""
        c = truthy(self.eval(st, s.test))

        def block(stmts, tail):
            stmts = list(stmts) + list(tail)
            for k, x in enumerate(stmts):
                if isinstance(x, ast.Expr) and isinstance(x.value, ast.Constant):
                    continue
                if isinstance(x, ast.Return):
                    return self.eval(st, x.value)
                if isinstance(x, ast.If):
                    return self.eval_if_chain(st, x, stmts[k + 1:])
                if isinstance(x, ast.Assign) and len(x.targets) == 1:
                    self.bind_target(st, x.targets[0], self.eval(st, x.value))
                    continue
                raise Unsupported("contract function: complex branch")
            raise Unsupported("contract function: branch without return")
        a = block(s.body, [])
        b = block(s.orelse, rest) if s.orelse else block(rest, [])
        a, b = self.unify_pair(a, b) if not (isinstance(a, V) and isinstance(b, V) and a.ty == b.ty) else (a, b)
        return V(a.ty, z3.If(c, a.z, b.z))

    def eval_contract(self, st, fn, bindings: dict):
        """Evaluate requires/ensures/inv function `fn`, binding its parameters by name from `bindings`."""
        node, params = contract_ast(fn)
        env = {}
        for p in params:
            if p not in bindings:
                raise Stale(f"{self.fkey}: contract clause {fn.__qualname__} names {p!r}, which does not exist here")
            env[p] = bindings[p]
        r = self.eval_fn_body(st, fn, node, env)
        return truthy(r)

    # ------------------------------------------------------------------ targets
    def bind_target(self, st, target, val):
        if isinstance(target, ast.Name):
            st.env[target.id] = val
            if st.ghost.get("__alias__"):
                alias_detach(st, target.id)     # re-binding a name ends its aliasing (opt-in, see alias_join)
            return
        if isinstance(target, (ast.Tuple, ast.List)):
            n = len(target.elts)
            if isinstance(val, V) and isinstance(val.ty, TList) and not any(isinstance(t, ast.Starred) for t in target.elts):
                # `a, b = xs` with xs a list: ValueError unless it has exactly as many elements as there are targets
                self.emit(st, "bounds", "unpack-length", seq_len(val) == n, note="ValueError otherwise")
                for i, t in enumerate(target.elts):
                    self.bind_target(st, t, V(val.ty.elem, z3.Select(seq_arr(val), i)))
                return
            for i, t in enumerate(target.elts):
                if isinstance(t, ast.Starred):
                    raise Unsupported("starred target")
                self.bind_target(st, t, tuple_get(val, i) if not isinstance(val, V) or isinstance(val.ty, TTuple) else self.rec_pos(val, i))
            return
        if isinstance(target, ast.Attribute):
            base = self.eval(st, target.value)
            if isinstance(base, V) and isinstance(base.ty, TOpt):
                base = unwrap_opt(base)
            if isinstance(base, V) and isinstance(base.ty, TRef):
                if not has_field(base.ty.cls, target.attr):
                    raise Unsupported(f"assignment to undeclared field {base.ty.cls}.{target.attr}")
                self.heap_set(st, base, target.attr, val)
                return
            raise Unsupported("attribute assignment on non-reference")
        if isinstance(target, ast.Subscript):
            base_node = target.value
            base = self.eval(st, base_node)
            idx = self.eval(st, target.slice)
            if isinstance(base, V) and base.ty == SINK:
                return
            from .dsl import DICT_CLASSES
            if isinstance(base, V) and isinstance(base.ty, TRef) and base.ty.cls in DICT_CLASSES:
                if not (isinstance(idx, K) and isinstance(idx.v, str) and has_field(base.ty.cls, idx.v)):
                    raise Unsupported(f"dict object {base.ty.cls} store at {idx!r}")
                self.heap_set(st, base, idx.v, val)
                return
            sd = ops.sdict_of(base)
            if sd is not None:
                if not (isinstance(idx, K) and isinstance(idx.v, str)):
                    raise Unsupported("structural dict store with non-constant key")
                items = dict(sd.items)
                items[idx.v] = val
                self.assign_lvalue(st, base_node, SDict(items))
                return
            if isinstance(base, V) and isinstance(base.ty, TList):
                iz = ops.norm_index(coerce(idx, INT).z, seq_len(base))
                self.emit(st, "bounds", "store-index", z3.And(0 <= iz, iz < seq_len(base)))
                new = mk_seq(base.ty, z3.Store(seq_arr(base), iz, coerce(val, base.ty.elem).z), seq_len(base))
                self.assign_lvalue(st, base_node, new)
                return
            if isinstance(base, V) and isinstance(base.ty, TDict):
                t = base.ty
                k = coerce(idx, t.k)
                s = t.sort()
                new = V(t, s.constructor(0)(z3.Store(s.dom(base.z), k.z, True), z3.Store(s.val(base.z), k.z, coerce(val, t.v).z)))
                self.assign_lvalue(st, base_node, new)
                return
            raise Unsupported("subscript assignment")
        raise Unsupported(f"assignment target {target.__class__.__name__}")

    def rec_pos(self, val, i):
        if isinstance(val.ty, TRec):
            f = list(val.ty.fields)[i]
            return rec_get(val, f)
        raise Unsupported(f"unpacking {val.ty}")

    def assign_lvalue(self, st, node, val):
        if isinstance(node, ast.Name):
            st.env[node.id] = val
            for other in (st.ghost.get("__alias__") or {}).get(node.id, ()):
                st.env[other] = val             # in-place mutation: every local alias of the container sees it
            return
        if isinstance(node, ast.Attribute):
            self.bind_target(st, ast.Attribute(value=node.value, attr=node.attr, ctx=ast.Store()), val)
            return
        if isinstance(node, ast.Subscript) and not isinstance(node.slice, ast.Slice):
            # in-place update of a container held in a dict / list slot (`d[k].add(x)`): containers are values here, so the
            # updated value is stored back under the same key / index
            self.bind_target(st, ast.Subscript(value=node.value, slice=node.slice, ctx=ast.Store()), val)
            return
        raise Unsupported("mutation of a value that is not a variable or field")


# ------------------------------------------------------------------------------------------------- local aliases
# Containers (lists, sets, dicts) are VALUES in this engine, so `ys = xs; ys.append(v)` would leave xs unchanged.  A
# contract may opt in (opts = {"track_aliases": True}) to have plain `name = name` assignments of container values
# recorded as alias groups in st.ghost["__alias__"] (name -> frozenset of names bound to the same object; the dict is
# replaced, never mutated, so that forked states stay independent).  Every in-place mutation goes through
# Executor.assign_lvalue, which then updates the whole group; re-binding a name (bind_target) takes it out of its group.
# Without the option no group is ever created and nothing changes.
def alias_join(st, new_name, src_name):
    al = dict(st.ghost.get("__alias__") or {})
    group = set(al.get(src_name, frozenset([src_name]))) | {new_name}
    for n in group:
        al[n] = frozenset(group)
    st.ghost["__alias__"] = al


def alias_detach(st, name):
    al = st.ghost.get("__alias__") or {}
    if name not in al:
        return
    al = dict(al)
    group = set(al.pop(name)) - {name}
    for n in group:
        if len(group) > 1:
            al[n] = frozenset(group)
        else:
            al.pop(n, None)
    st.ghost["__alias__"] = al


# -------------------------------------------------------------------------------------------------
CLASS_OBJ: dict = {}       # short ref-class name -> real class object (for properties / methods)
CALLABLE_CONTRACT: dict = {}   # short ref-class name -> key of the contract applied when an object of that class is CALLED
ITER_WRAPPERS: list = []       # real callables (registered by a sidecar, listed in its TRUSTED) whose result iterates exactly as their first argument (tqdm)
REC_LEN: dict = {}
ISINSTANCE_HOOK: dict = {}
_contract_ast_cache: dict = {}


def resolve_class(key):
    if inspect.isclass(key):
        return key
    from .engine import resolve_key
    return resolve_key(key)[0]


def _globals_of(fn):
    g = dict(fn.__globals__)
    if fn.__closure__:
        for name, cell in zip(fn.__code__.co_freevars, fn.__closure__):
            try:
                g[name] = cell.cell_contents
            except ValueError:
                pass
    return g


def contract_ast(fn):
    if fn in _contract_ast_cache:
        return _contract_ast_cache[fn]
    lines, start = inspect.getsourcelines(fn)
    src = textwrap.dedent("".join(lines))
    try:
        tree = ast.parse(src)
    except SyntaxError:
        if fn.__name__ != "<lambda>":
            raise
        # a lambda in the middle of a multi-line call: cut the expression out of the text
        tree = None
        # the body of the lambda may continue on the following lines: take up to 8 more lines from the file
        try:
            import linecache
            fl = fn.__code__.co_firstlineno
            more = [linecache.getline(fn.__code__.co_filename, fl + len(lines) + d) for d in range(8)]
            src = src + "".join(more)
        except Exception:
            pass
        at = src.find("lambda")
        while at >= 0 and tree is None:
            text = src[at:]
            want_args = list(fn.__code__.co_varnames[:fn.__code__.co_argcount])
            for n in range(8, len(text) + 1):
                try:
                    cand = ast.parse("(" + text[:n].strip() + "\n)", mode="eval")
                except SyntaxError:
                    continue
                if isinstance(cand.body, ast.Lambda) and [a.arg for a in cand.body.args.args] == want_args:
                    try:
                        code = compile(ast.Expression(body=cand.body), "<x>", "eval").co_consts[0]
                        fc = fn.__code__
                        if (code.co_code, code.co_names, code.co_consts) != (fc.co_code, fc.co_names, fc.co_consts):
                            continue          # a prefix that happens to parse: keep extending
                    except Exception:
                        continue
                    tree = ast.Module(body=[ast.Expr(value=cand.body)], type_ignores=[])
                    for nd in ast.walk(tree):
                        if hasattr(nd, "lineno"):
                            nd.lineno = fn.__code__.co_firstlineno - start + 1
                    break
            at = src.find("lambda", at + 1)
        if tree is None:
            raise
    node = tree.body[0]
    if fn.__name__ != "<lambda>" and isinstance(node, ast.FunctionDef):
        params = [a.arg for a in node.args.args]
    else:
        want = list(fn.__code__.co_varnames[:fn.__code__.co_argcount])
        rel = fn.__code__.co_firstlineno - start + 1
        cands = [n for n in ast.walk(tree) if isinstance(n, ast.Lambda) and [a.arg for a in n.args.args] == want]
        same_line = [n for n in cands if n.lineno == rel]
        cands = same_line or cands
        if len(cands) > 1:
            def code_of(n):
                return compile(ast.Expression(body=n), "<x>", "eval").co_consts[0].co_code
            exact = [n for n in cands if code_of(n) == fn.__code__.co_code]
            cands = exact or cands
        if not cands:
            raise Unsupported(f"cannot locate lambda source for {fn!r}")
        lam = cands[0]
        params = want
        node = ast.FunctionDef(name="<lambda>", args=lam.args, body=[ast.Return(value=lam.body)], decorator_list=[])
    _contract_ast_cache[fn] = (node, params)
    return node, params
