"""pyvc.verify -- per-function VC generation driver, lemma obligations, solving."""
from __future__ import annotations

import ast
import inspect
import subprocess
import tempfile
import time
import os

import z3

from . import ty as T
from . import ops
from .ty import INT, BOOL, CHAR, NONE, SLICE, TStr, TList, TTuple, TOpt, TRec, TRef, TSet, TDict, TEnum, Ty
from .dsl import CONTRACTS, SPECS, LEMMAS, Contract, Lemma
from .engine import (V, K, PyObj, STuple, Unsupported, Stale, State, Obligation, load_function, fresh, seq_len,
                     is_str, mk_seq)
from .ops import coerce, to_v, truthy, wf_assumptions, fresh_seq
from .exec import contract_ast, _globals_of, CLASS_OBJ
from .stmts import FullExecutor, Namespace, Outcome, ExcInfo, resolve_exc


class FunctionReport:
    def __init__(self, key):
        self.key = key
        self.sha = None
        self.file = None
        self.obligations: list = []
        self.undecided: list = []      # (reason) for paths crossing unsupported constructs
        self.inlined = []
        self.callees = []
        self.externals = []
        self.error = None
        self.paths = 0
        self.inputs = {}
        self.raised_classes = set()


def number_loops(body):
    ords = {}
    k = 0

    class W(ast.NodeVisitor):
        def visit_For(self, n):
            nonlocal k
            k += 1
            ords[id(n)] = k
            self.generic_visit(n)

        def visit_While(self, n):
            nonlocal k
            k += 1
            ords[id(n)] = k
            self.generic_visit(n)

        def visit_FunctionDef(self, n):
            pass

        def visit_Lambda(self, n):
            pass
    w = W()
    for s in body:
        w.visit(s)
    return ords, k


def make_param(name, t, st, ex):
    if isinstance(t, (TList, TStr)):
        v = fresh_seq(t, st, name)
    else:
        v = fresh(t, name)
    wf_assumptions(v, st)
    if isinstance(t, TRef):
        # input references are below the allocation counter
        st.assume(z3.And(v.z >= 0, v.z < (1 << 20)))
    return v


def gen_function(c: Contract, prop: str, bounded=None) -> FunctionReport:
    """Symbolically execute the real function of contract c; return its proof obligations."""
    rep = FunctionReport(c.key)
    ops.MODE["bounded"] = bounded
    ops.MODE["side"] = []
    # opt-in per contract: refutation mode leaves native (z3) strings unbounded -- no quantifier ranges over them
    ops.MODE["free_native_str"] = bool(c.opts.get("refute_free_native_str"))
    try:
        node, fn, kind, sha, fname, owner = load_function(c.key)
        rep.sha, rep.file = sha, fname
        ex = FullExecutor(c, prop, feas_timeout_ms=int(c.opts.get("feas_timeout_ms", 500)))   # opt-in per contract: budget of a path-feasibility query
        ex.local_types = {k: v for k, v in c.types.items() if isinstance(v, Ty)}
        ex.owner_stack = [owner]
        body = ex.normalise(node.body)
        ex.loop_ord, nloops = number_loops(body)
        for k in c.invs:
            if k > nloops:
                raise Stale(f"{c.key}: invariant inv_{k} but the function has only {nloops} loops")
        st = State()
        st.assume(T.text_len()(T.text_empty()) == 0)
        st.ghost["__globals__"] = _globals_of(fn)
        params = [a.arg for a in node.args.posonlyargs + node.args.args + node.args.kwonlyargs]
        if node.args.vararg is not None:
            params.append(node.args.vararg.arg)
        for p in params:
            t = c.types.get(p)
            if t is None:
                raise Unsupported(f"{c.key}: parameter {p} has no type in the sidecar")
            if isinstance(t, Ty):
                st.env[p] = make_param(p, t, st, ex)
            else:
                st.env[p] = ex.lift_py(t)   # a concrete Python object (e.g. the class for `cls`)
        rep.inputs = {p: st.env[p] for p in params}
        if c.ghost_yield is not None:
            lt = TList(c.ghost_yield)
            st.ghost["__yielded__"] = mk_seq(lt, z3.K(z3.IntSort(), ops.default_val(c.ghost_yield)), z3.IntVal(0))
        ex.cur_line = node.lineno
        if c.requires is not None:
            st.assume(ex.eval_contract(st, c.requires, dict(st.env)))
        n_req = len(st.pc)        # (path condition up to here: type invariants of the inputs and `requires`)
        for ax in c.uses_axioms:
            anode, aparams = contract_ast(ax.fn)
            ann = ax.fn.__annotations__
            formals = {p: fresh(ann[p], "ax_" + p) for p in aparams}
            sub = State()
            sub.ghost = dict(st.ghost)
            sub.heap = st.heap          # the axiom reads the entry heap
            stmt = truthy(ex.eval_fn_body(sub, ax.fn, anode, formals))
            ax_body = z3.Implies(z3.And(*sub.pc), stmt) if sub.pc else stmt
            st.assume(z3.ForAll([f.z for f in formals.values()], ax_body))
            rep.axioms = getattr(rep, "axioms", []) + [ax.name]
        dyn = c.hints.get("dynamic_class")
        if dyn is not None:
            # a method body runs only for receivers whose class does not override it: facts about the dynamic
            # class of `self` that follow from that (NOT assumed at call sites)
            st.assume(ex.eval_contract(st, dyn, dict(st.env)))
        pre_pc = list(st.pc)
        st.old = Namespace(dict(st.env), dict(st.heap))
        # vacuity: the precondition must be satisfiable
        s = z3.Solver()
        s.set("timeout", 60000)      # one query per function; generous so that the verdict does not depend on machine load
        s.add(*pre_pc)
        r = s.check()
        if r == z3.unknown and c.uses_axioms:
            # the @assumed (definitional, quantified) statements defeat the model search: decide the satisfiability of the
            # precondition proper, without them
            s = z3.Solver()
            s.set("timeout", 10000)
            s.add(*pre_pc[:n_req])
            r = s.check()
        ob = Obligation(name=f"{prop}/{c.key.replace(':', '.')}/vacuity[requires]", hyps=[], goal=None, kind="vacuity",
                        func=c.key, line=node.lineno)
        ob.status = "discharged" if r == z3.sat else ("failed" if r == z3.unsat else "unknown")
        ob.backend = "z3-inproc"
        ob.note = "requires is satisfiable" if r == z3.sat else f"requires satisfiability: {r}"
        vac = ob
        outs = ex.exec_block(st, body)
        rep.paths = len(outs)
        for s1, oc in outs:
            ex.cur_line = node.end_lineno or node.lineno
            if oc.kind == "unsupported":
                rep.undecided.append(oc.value)
                continue
            if oc.kind in ("break", "continue"):
                rep.undecided.append(f"{oc.kind} outside loop")
                continue
            if oc.kind == "raise":
                exc: ExcInfo = oc.value
                ex.cur_line = exc.line or ex.cur_line
                rep.raised_classes.add(exc.cls.__name__)
                allowed = None
                for en, cond in c.raises.items():
                    cls = resolve_exc(en, c)
                    if issubclass(exc.cls, cls) and (not exc.or_subclass or en.endswith("+") or exc.cls is cls):
                        allowed = (en, cond)
                        break
                if allowed is None:
                    ex.emit(s1, "no-raise", exc.cls.__name__ + ("+" if exc.or_subclass else ""), z3.BoolVal(False),
                            note=f"path raises {exc!r}, which the contract does not allow")
                elif allowed[1] is not None:
                    b = dict(s1.old.env)
                    s2 = s1.fork()
                    s2.heap = dict(s1.old.heap)      # raise conditions speak about the state at entry
                    g = ex.eval_contract(s2, allowed[1], b)
                    ex.emit(s1, "raises", allowed[0], g)
                # exceptional frame / postcondition
                efn = c.hints.get("on_raise")
                if efn is not None:
                    # exceptional postcondition: sees the parameters (entry values), `old`, the locals at the raise
                    # point, the exception class name and (for sys.exit-like externals) its first argument
                    b = dict(s1.env)
                    b.update(s1.old.env)
                    b["old"] = PyObj(s1.old)
                    b["exc_class"] = K(exc.cls.__name__)
                    b["exc_value"] = exc.value[0] if exc.value else K(None)
                    _, eps = contract_ast(efn)
                    missing = [k for k in eps if k not in b]
                    if missing:
                        for k in missing:      # a local that is not defined on this path: arbitrary
                            t = c.types.get(k)
                            if not isinstance(t, Ty):
                                raise Stale(f"{c.key}: on_raise names {k!r} (undefined here, no declared type)")
                            b[k] = fresh(t, "undef_" + k)
                    s2 = s1.fork()
                    g = ex.eval_contract(s2, efn, {k: v for k, v in b.items() if k in eps})
                    extra = s2.pc[len(s1.pc):]
                    ex.emit(s1, "raises-post", exc.cls.__name__, z3.Implies(z3.And(*extra), g) if extra else g)
                continue
            # normal return
            if c.ghost_yield is not None:
                result = s1.ghost["__yielded__"]
            else:
                result = oc.value if oc.kind == "return" and oc.value is not None else K(None)
                if c.ret is not None:
                    result = coerce(result, c.ret)
            if c.ensures is not None:
                _, eps = contract_ast(c.ensures)
                b = {}
                for p in eps:
                    if p == "result":
                        b[p] = result
                    elif p == "old":
                        b[p] = PyObj(s1.old)
                    elif p in c.ghost_out:
                        # ghost output: the final value of a local (arbitrary on paths that never define it);
                        # `name: (local, Ty)` renames a local whose name is reserved (e.g. a local called `result`)
                        spec_ = c.ghost_out[p]
                        lname, gty = spec_ if isinstance(spec_, tuple) else (p, spec_)
                        gv = s1.env.get(lname)
                        b[p] = coerce(gv, gty) if gv is not None else fresh(gty, "ghost_" + p)
                    elif p in s1.old.env:
                        # parameters: current value (lists may have been mutated in place -> env updated)
                        b[p] = s1.env.get(p, s1.old.env[p]) if p in c.modifies else s1.old.env[p]
                    else:
                        raise Stale(f"{c.key}: ensures names {p!r}")
                hp = c.hints.get("post")
                if hp is not None:
                    # proof hint: instances of *proved* lemmas may be assumed (checked: lemma calls only)
                    check_hint_is_lemmas(hp)
                    s1.assume(ex.eval_contract(s1, hp, {k: v for k, v in b.items() if k in contract_ast(hp)[1]}))
                s2 = s1.fork()
                g = ex.eval_contract(s2, c.ensures, b)
                extra = s2.pc[len(s1.pc):]
                ex.emit(s1, "post", "ensures", z3.Implies(z3.And(*extra), g) if extra else g)
            # raises_iff: when a raise-condition holds the function must not return normally
            for en, cond in c.raises.items():
                if cond is not None and c.opts.get("raises_iff", True):
                    s2 = s1.fork()
                    s2.heap = dict(s1.old.heap)      # raise conditions speak about the state at entry
                    g = ex.eval_contract(s2, cond, dict(s1.old.env))
                    ex.emit(s1, "raises-iff", en, z3.Not(g), note="normal return although the raise condition holds")
        if bounded is not None:
            for o in ex.obligations:
                o.hyps = o.hyps + list(ops.MODE["side"])
        rep.obligations = [vac] + ex.obligations
        rep.inlined = sorted(ex.inlined)
        rep.callees = sorted(ex.callees)
        rep.externals = sorted(ex.externals_used)
    except Stale as e:
        rep.error = ("stale", str(e))
    except Unsupported as e:
        rep.error = ("unsupported", str(e))
    finally:
        ops.MODE["bounded"] = None
        ops.MODE["free_native_str"] = False
    return rep


def check_hint_is_lemmas(fn):
    """A hint may only conjoin applications of @lemma functions (whose statements are proved separately)."""
    node, _ = contract_ast(fn)
    g = _globals_of(fn)
    for s in node.body:
        if isinstance(s, ast.Expr) and isinstance(s.value, ast.Constant):
            continue
        if not isinstance(s, ast.Return):
            raise Unsupported(f"hint {fn.__qualname__}: only `return L1(...) and L2(...)` is allowed")
        parts = s.value.values if isinstance(s.value, ast.BoolOp) and isinstance(s.value.op, ast.And) else [s.value]
        for p in parts:
            if isinstance(p, ast.Call) and isinstance(p.func, ast.Name) and p.func.id == "implies":
                p = p.args[1]
            ok = isinstance(p, ast.Call) and isinstance(p.func, ast.Name) and isinstance(g.get(p.func.id), Lemma)
            if not ok:
                raise Unsupported(f"hint {fn.__qualname__}: {ast.unparse(p)} is not a lemma application")


def gen_lemma(l: Lemma, prop: str, bounded=None) -> FunctionReport:
    rep = FunctionReport("lemma:" + l.name)
    ops.MODE["bounded"] = bounded
    ops.MODE["side"] = []
    try:
        fn = l.fn
        node, params = contract_ast(fn)
        ann = fn.__annotations__
        c = Contract("lemma:" + l.name, None, (prop,), "verify")
        c.opts.update(getattr(l, "opts", None) or {})      # opt-in per lemma (set `L.opts = {...}` after the decorator)
        ex = FullExecutor(c, prop, feas_timeout_ms=int(c.opts.get("feas_timeout_ms", 500)))   # opt-in per contract: budget of a path-feasibility query
        st = State()
        st.ghost["__globals__"] = _globals_of(fn)
        env = {}
        for p in params:
            env[p] = make_param(p, ann[p], st, ex)
        rep.inputs = dict(env)
        rep.sha = __import__("hashlib").sha256(inspect.getsource(fn).encode()).hexdigest()
        rep.file = inspect.getsourcefile(fn)

        def stmt_at(args):
            e2 = dict(zip(params, [coerce(a, ann[p]) for a, p in zip(args, params)]))
            return truthy(ex.eval_fn_body(st, fn, node, e2))
        if l.hyps is not None:
            hnode, hparams = contract_ast(l.hyps)
            insts = ex.eval_fn_body(st, l.hyps, hnode, {p: env[p] for p in hparams})
            insts = insts.items if isinstance(insts, STuple) else [insts]
            mnode, mparams = contract_ast(l.measure)
            m0 = coerce(ex.eval_fn_body(st, l.measure, mnode, {p: env[p] for p in mparams}), INT).z
            for inst in insts:
                args = inst.items
                e2 = dict(zip(params, args))
                mi = coerce(ex.eval_fn_body(st, l.measure, mnode, {p: e2[p] for p in mparams}), INT).z
                st.assume(z3.Implies(z3.And(mi >= 0, mi < m0), stmt_at(args)))
        if l.unfold is not None:
            check_hint_is_lemmas(l.unfold)     # only instances of other (proved) lemmas may be used
            unode, uparams = contract_ast(l.unfold)
            u = ex.eval_fn_body(st, l.unfold, unode, {p: env[p] for p in uparams})
            st.assume(truthy(u))
        goal = stmt_at([env[p] for p in params])
        # definitional unfolding of the recursive specs at the lemma's own arguments (instances of definitions)
        from .exec import unfold_equations
        for eq in unfold_equations(goal):
            st.assume(eq)
        ex.fkey = "lemma." + l.name
        ex.emit(st, "lemma", "statement", goal)
        if bounded is not None:
            for o in ex.obligations:
                o.hyps = o.hyps + list(ops.MODE["side"])
        rep.obligations = ex.obligations
    except Stale as e:
        rep.error = ("stale", str(e))
    except Unsupported as e:
        rep.error = ("unsupported", str(e))
    finally:
        ops.MODE["bounded"] = None
    return rep


# ---------------------------------------------------------------------------------------------- solving
def _z3_check(ob, timeout_ms, seed, bounded=False):
    from .engine import text_literal_axioms
    s = z3.Solver()
    s.set("timeout", timeout_ms)
    if seed:
        s.set("random_seed", seed)
    s.add(*ob.hyps)
    s.add(*text_literal_axioms(bounded))
    s.add(z3.Not(ob.goal))
    return s, s.check()


def solve_obligation(ob: Obligation, timeout_ms=10000, use_cli=True, bounded=False):
    """unsat -> discharged.  `sat` is believed only for the bounded (quantifier-free) re-encoding and only after the
    model has been re-evaluated against the query; a `sat` on a quantified query is treated as unknown (z3's model
    finder is not reliable there: observed to flip between sat and unsat on identical queries)."""
    if ob.kind == "vacuity":
        return ob
    t0 = time.time()
    s, r = _z3_check(ob, timeout_ms, 0, bounded)
    if r != z3.unsat and not bounded:
        # one retry with another seed and a longer budget (verdicts must not flip on a loaded machine)
        s, r = _z3_check(ob, timeout_ms * 3, 7)
        if r != z3.unsat:
            # the budgets are wall-clock: on a machine whose cores are all busy (other checks, a test suite) a query that
            # takes 8 s alone can miss 30 s.  Only then: a third, much longer attempt.
            try:
                busy = os.getloadavg()[0] > 0.75 * (os.cpu_count() or 4)
            except OSError:
                busy = False
            if busy:
                s, r = _z3_check(ob, timeout_ms * 10, 11)
    ob.time_s = time.time() - t0
    if r == z3.unsat:
        ob.status, ob.backend = "discharged", "z3-5.1.0-inproc"
        return ob
    if r == z3.sat and bounded:
        m = s.model()
        try:
            # re-evaluate the quantifier-free part of the query under the model (a hypothesis that still contains a
            # quantifier -- sets, uninterpreted-sort axioms -- cannot be evaluated and is left to the solver's word)
            ok = True
            for h in ob.hyps:
                v = m.eval(h, model_completion=True)
                if z3.is_false(v):
                    ok = False
                    break
            gv = m.eval(ob.goal, model_completion=True)
            if z3.is_true(gv):
                ok = False
        except Exception:
            ok = False
        if ok:
            ob.status, ob.backend = "sat", "z3-5.1.0-inproc (bounded encoding, model re-evaluated)"
            ob.model = m
            return ob
    ob.status = "unknown"
    ob.backend = "z3-5.1.0-inproc"
    if use_cli and not bounded:
        import re as _re
        smt = _re.sub(r"\(_ (spec_\w+) 0\)", r"\1", s.to_smt2())     # z3 prints recursive-function applications indexed
        for name, cmd in (("cvc5-1.0.3", ["/usr/bin/cvc5", "--tlimit=20000", "--strings-exp", "--lang=smt2"]),
                          ("z3-4.8.12", ["/usr/bin/z3", "-T:30", "-smt2"])):
            res = run_cli(cmd, smt)
            if res == "unsat":
                ob.status, ob.backend = "discharged", name
                ob.time_s = time.time() - t0
                return ob
    ob.time_s = time.time() - t0
    return ob


def run_cli(cmd, smt: str) -> str:
    with tempfile.NamedTemporaryFile("w", suffix=".smt2", delete=False) as f:
        f.write("(set-logic ALL)\n" + smt)
        path = f.name
    try:
        p = subprocess.run(cmd + [path], capture_output=True, text=True, timeout=45)
        out = p.stdout.strip().splitlines()
        return out[0].strip() if out else "error"
    except Exception:
        return "error"
    finally:
        os.unlink(path)
