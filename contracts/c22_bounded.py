"""C22 -- non-SMT parts.  Nothing in this module is a proof.

BOUNDED  exit_code_matrix   generated small files (clean / fixable / unfixable lint violation / parse error / non-fatal and fatal
                            templating error, alone and combined) x suppression (none, bare `-- noqa`, `-- noqa: <codes>` for the
                            error / the lint codes / both, `-- noqa: disable=...` range, ignore = parsing|templating by `--ignore` or
                            .sqlfluff, warnings = <codes> for the lint codes / the error codes / both, and combinations) x command
                            (lint, fix, format) x input route (one path, a directory with two files, two path arguments, stdin `-`) x
                            flags (--nofail for lint; --FIX-EVEN-UNPARSABLE / fix_even_unparsable = True and --check answering y for
                            fix): the REAL click commands are run in-process (click.testing.CliRunner) and the exit code is compared
                            with the property's formula, computed INDEPENDENTLY from the raw (unfiltered) violation list of a
                            separate Linter.lint_string run: suppression is decided here from the generated noqa comments and the
                            generated ignore / warnings lists (never from v.ignore / v.warning / the ignore mask / get_violations).
BOUNDED  usage_matrix       usage and configuration errors exit 2: unknown dialect (command line, config file, in-file directive),
                            no dialect, nonexistent path, bad configuration values (templater, integer option, rule option: config
                            file, nested config file, in-file directive), missing --config file, malformed config file, unknown
                            option, invalid option value, `format --rules`; x lint / fix / format x path / stdin.

Tiers: thorough = the full product (16 bodies x 12 suppression modes, those that apply: 105 pairs, x 22 (command, route, flags)
combinations = 2310 runs, ~3 min at 6 processes); quick = 12 bodies, one rotating combination for two of every three pairs plus
forced path/stdin (and directory / two-path) runs for the classes the property is most delicate about (~100 runs).
Failure ids: C22/matrix/<command>/<route>/<clause>, C22/matrix/<command>/route-agreement/<class>, C22/matrix/usage/<scenario>-exits-2.

The property's formula (C22):
  lint            1 iff some file has a violation (of ANY class) that is neither suppressed (noqa / ignore) nor a warning; --nofail: 0
  fix / format    1 iff  some file has an unsuppressed non-warning LINT violation that remains unfixable: it carries no fix, or its file
                         is not fixed at all (a templating / parsing error in the file -- even a suppressed one -- unless
                         fix_even_unparsable; C18)
                  or     some file has an unsuppressed non-warning templating / parsing error that blocks fixing (always without
                         fix_even_unparsable; with fix_even_unparsable when nothing could be parsed at all: a fatal templating error)
                  else 0.
  Under fix_even_unparsable an unsuppressed templating / parsing error that did NOT stop the parse is read either way by the
  property text (it does not block fixing, but it is an unsuppressed violation that remains): no exit code is prescribed for that
  class, only that the routes (path / stdin) agree on the same input and configuration.
"""
from __future__ import annotations

import ast
import inspect
import itertools
import multiprocessing as mp
import os
import random
import shutil
import tempfile
import time

F_LINT = "sqlfluff.cli.commands:lint"
F_PATHS = "sqlfluff.cli.commands:_paths_fix"
F_STDIN = "sqlfluff.cli.commands:_stdin_fix"
F_HANDLER = "sqlfluff.cli.commands:PathAndUserErrorHandler.__exit__"

# the rule selection `sqlfluff format` forces (read from the real source of cli_format when it has the expected shape; this copy is
# the fallback)
_FORMAT_RULES_FALLBACK = ("capitalisation,layout,ambiguous.union,convention.not_equal,convention.coalesce,"
                          "convention.select_trailing_comma,convention.is_null,jinja.padding,structure.distinct,")


def _format_rules():
    try:
        from sqlfluff.cli import commands
        fn = commands.cli_format.callback
        while hasattr(fn, "__wrapped__"):
            fn = fn.__wrapped__
        import textwrap
        tree = ast.parse(textwrap.dedent(inspect.getsource(fn)))
        for n in ast.walk(tree):
            if (isinstance(n, ast.Assign) and len(n.targets) == 1 and isinstance(n.targets[0], ast.Subscript)
                    and isinstance(n.targets[0].value, ast.Name) and n.targets[0].value.id == "kwargs"
                    and isinstance(n.targets[0].slice, ast.Constant) and n.targets[0].slice.value == "rules"
                    and isinstance(n.value, ast.Constant) and isinstance(n.value.value, str)):
                return n.value.value
    except Exception:   # pragma: no cover
        pass
    return _FORMAT_RULES_FALLBACK


def _failed(id_, function, detail):
    return {"name": id_, "id": id_, "kind": "bounded", "status": "failed", "function": function, "detail": detail,
            "reproduced": True, "backend": "CPython (bounded run of the real CLI commands)"}


class _Fails:
    def __init__(self):
        self.by_id = {}

    def add(self, id_, function, witness):
        rec = self.by_id.get(id_)
        if rec is None:
            self.by_id[id_] = rec = _failed(id_, function, {"witnesses": [], "count": 0})
        rec["detail"]["count"] += 1
        if len(rec["detail"]["witnesses"]) < 3:
            rec["detail"]["witnesses"].append(witness)

    def list(self):
        return [self.by_id[k] for k in sorted(self.by_id)]


# =============================================================================================== the generated files
_LONG = "x" * 100
_RF02 = "SELECT {c} FROM t1 INNER JOIN t2 ON t1.id = t2.id"
# @N1@ / @N2@: inline noqa slots at the end of a problem line; @PRE@: slot for a `-- noqa: disable=...` line above the file
BODIES = [
    ("clean", "SELECT a FROM tbl\n"),
    ("fixable", "SELECT a  FROM tbl@N1@\n"),
    ("fixable-two-lines", "SELECT a  FROM tbl;@N1@\nSELECT b from tbl;@N2@\n"),
    ("unfixable", _RF02.format(c="a") + "@N1@\n"),
    ("unfixable-layout", "@PRE@-- " + _LONG + "\nSELECT a FROM tbl\n"),
    ("fixable+unfixable", "SELECT a  FROM tbl;@N1@\n" + _RF02.format(c="b") + ";@N2@\n"),
    ("fixable+unfixable-layout", "@PRE@-- " + _LONG + "\nSELECT a  FROM tbl\n"),
    ("parse+fixable-same-line", "SELECT a  FROM tbl WHERE a ! 3@N1@\n"),
    ("parse+fixable-other-line", "SELECT a  FROM tbl;@N1@\nSELECT b\nFROM tbl\nWHERE b ! 3;@N2@\n"),
    ("parse+unfixable", _RF02.format(c="a") + ";@N1@\nSELECT b\nFROM tbl\nWHERE b ! 3;@N2@\n"),
    ("parse-only", "SELECT a\nFROM tbl\nWHERE a ! 3@N1@\n"),
    ("templating+fixable", "SELECT a  FROM tbl{{ undefined_xyz }}@N1@\n"),
    ("templating-only", "SELECT a FROM tbl{{ undefined_xyz }}@N1@\n"),
    ("templating+parse+fixable", "SELECT a  FROM tbl WHERE a = {{ undefined_xyz }}@N1@\n"),
    ("templating-fatal", "SELECT a  FROM tbl WHERE a = {{ 1 + }}@N1@\n"),
    ("templating-fatal-block", "SELECT a  FROM tbl\n{% if %}@N1@\n"),
]
# bodies that only the thorough tier runs (variants of a class the quick tier already has)
THOROUGH_ONLY = {"fixable-two-lines", "fixable+unfixable-layout", "templating+parse+fixable", "templating-fatal-block"}
SIBLINGS = [("clean", "SELECT b FROM tbl\n"), ("fixable", "SELECT b  FROM tbl\n"), ("unfixable", _RF02.format(c="b") + "\n")]
MODES = ["none", "noqa-bare", "noqa-error-codes", "noqa-lint-codes", "noqa-all-codes", "ignore-error", "warn-lint", "warn-error",
         "warn-all", "noqa-error+warn-lint", "ignore-error+warn-lint", "noqa-lint+ignore-error"]
ROUTES = ["path", "dir", "paths2", "stdin"]
_ERR_CODES = ("PRS", "TMP")
_IGNORE_OF = {"PRS": "parsing", "TMP": "templating"}


def _combos():
    out = []
    for route in ROUTES:
        out.append(("lint", route, ()))
        out.append(("lint", route, ("nofail",)))
        out.append(("fix", route, ()))
        out.append(("fix", route, ("feu",)))
        out.append(("format", route, ()))
    out.append(("fix", "path", ("check-y",)))
    out.append(("fix", "dir", ("check-y",)))
    return out


def _raw(sql, ignore=(), rules=None, fix=False):
    """the raw, UNFILTERED violation list of a separate Linter run (attributes read: class, code, line, fixes)"""
    from sqlfluff.core import FluffConfig, Linter
    from sqlfluff.core.errors import SQLLintError, SQLParseError, SQLTemplaterError
    ov = {"dialect": "ansi"}
    if rules:
        ov["rules"] = rules
    if ignore:
        ov["ignore"] = ",".join(ignore)      # changes what the templater reports, so it is part of the run's configuration
    lf = Linter(config=FluffConfig(overrides=ov)).lint_string(sql, fix=fix)
    out = []
    for v in lf.violations:
        kind = ("lint" if isinstance(v, SQLLintError) else "parsing" if isinstance(v, SQLParseError)
                else "templating" if isinstance(v, SQLTemplaterError) else type(v).__name__)
        out.append({"kind": kind, "code": v.rule_code(), "line": v.line_no, "has_fix": bool(getattr(v, "fixes", None))})
    return out, lf.tree is not None


def _build(template, mode, probe):
    """fill the noqa slots / the configuration for a suppression mode.  `probe` = raw violations of the template with empty slots.
    Returns (sql, cfg, noqa model) or None when the mode does not apply to this body."""
    err_codes = sorted({v["code"] for v in probe if v["kind"] in ("parsing", "templating")})
    lint_codes = sorted({v["code"] for v in probe if v["kind"] == "lint"})
    need_err = mode in ("noqa-error-codes", "ignore-error", "warn-error", "noqa-error+warn-lint", "ignore-error+warn-lint",
                        "noqa-lint+ignore-error", "warn-all")
    need_lint = mode in ("noqa-lint-codes", "warn-lint", "noqa-error+warn-lint", "ignore-error+warn-lint", "noqa-lint+ignore-error",
                         "warn-all")
    if mode == "noqa-all-codes" and not (err_codes and lint_codes):
        return None
    if (need_err and not err_codes) or (need_lint and not lint_codes):
        return None
    if mode == "noqa-bare" and not probe:
        return None
    has_slots = any(s in template for s in ("@N1@", "@N2@", "@PRE@"))
    if mode.startswith("noqa") and not has_slots:
        return None
    if "@PRE@" in template and mode in ("noqa-error-codes", "noqa-error+warn-lint"):
        return None
    noqa_what = {"noqa-bare": "bare", "noqa-error-codes": "err", "noqa-lint-codes": "lint", "noqa-all-codes": "all",
                 "noqa-error+warn-lint": "err", "noqa-lint+ignore-error": "lint"}.get(mode)
    cfg = {"ignore": [], "warnings": []}
    if mode in ("ignore-error", "ignore-error+warn-lint", "noqa-lint+ignore-error"):
        cfg["ignore"] = [_IGNORE_OF[c] for c in err_codes]
    if mode in ("warn-lint", "noqa-error+warn-lint", "ignore-error+warn-lint", "warn-all"):
        cfg["warnings"] += lint_codes
    if mode in ("warn-error", "warn-all"):
        cfg["warnings"] += err_codes
    # line numbers of the probe refer to the template without a @PRE@ line
    inline, ranges, out_lines = {}, [], []
    src_lines = template.split("\n")
    if "@PRE@" in template:
        src_lines[0] = src_lines[0].replace("@PRE@", "")
        if noqa_what == "bare":
            out_lines.append("-- noqa: disable=all")
            ranges.append((1, None))
        elif noqa_what in ("lint", "all"):
            out_lines.append("-- noqa: disable=" + ",".join(lint_codes))
            ranges.append((1, set(lint_codes)))
    for k, line in enumerate(src_lines):
        probe_line = k + 1
        slot = "@N1@" if "@N1@" in line else "@N2@" if "@N2@" in line else None
        if slot:
            here = sorted({v["code"] for v in probe if v["line"] == probe_line})
            if noqa_what == "bare":
                codes = None
            elif noqa_what == "err":
                codes = [c for c in here if c in _ERR_CODES]
            elif noqa_what == "lint":
                codes = [c for c in here if c not in _ERR_CODES]
            elif noqa_what == "all":
                codes = here
            else:
                codes = []
            if codes is None:
                line = line.replace(slot, "  -- noqa")
                inline[len(out_lines) + 1] = None
            elif codes:
                line = line.replace(slot, "  -- noqa: " + ",".join(codes))
                inline[len(out_lines) + 1] = set(codes)
            else:
                line = line.replace(slot, "")
        out_lines.append(line)
    return "\n".join(out_lines), cfg, {"inline": inline, "ranges": ranges}


def _judge(raw, cfg, noqa):
    """the property's notions, decided from the GENERATED suppression (not from what sqlfluff recorded on the violation)"""
    out = []
    for v in raw:
        ignored = v["kind"] in cfg["ignore"]
        masked = False
        if v["line"] in noqa["inline"]:
            codes = noqa["inline"][v["line"]]
            masked = codes is None or v["code"] in codes
        for start, codes in noqa["ranges"]:
            if v["line"] >= start and (codes is None or v["code"] in codes):
                masked = True
        warn = v["code"] in cfg["warnings"]
        out.append(dict(v, suppressed=ignored or masked, warning=warn, live=not (ignored or masked) and not warn))
    return out


_NO_NOQA = {"inline": {}, "ranges": []}


def _expect(command, flags, files):
    """files: [{"lint": judged raw list of the lint run, "fix": (judged raw list of the fix run, has_tree)}]
    -> (expected exit code | None, clause, explanation)"""
    if command == "lint":
        if "nofail" in flags:
            return 0, "nofail-exits-0", "--nofail"
        live = [v for f in files for v in f["lint"] if v["live"]]
        if live:
            return 1, "unsuppressed-violation-exits-1", f"live: {sorted({v['code'] for v in live})}"
        what = ("clean" if not any(f["lint"] for f in files)
                else "warnings-only" if not any(v["suppressed"] for f in files for v in f["lint"])
                else "suppressed-only" if not any(v["warning"] and not v["suppressed"] for f in files for v in f["lint"])
                else "suppressed-and-warnings")
        return 0, "no-unsuppressed-violation-exits-0", what
    feu = "feu" in flags
    unfix, err, fatal, blocked, ambiguous = [], [], [], [], []
    for f in files:
        raw, has_tree = f["fix"]
        tmp_prs = [v for v in raw if v["kind"] in ("parsing", "templating")]
        not_fixed = (bool(tmp_prs) and not feu) or not has_tree
        for v in raw:
            if v["kind"] == "lint" and v["live"]:
                if not v["has_fix"]:
                    unfix.append(v["code"])
                elif not_fixed:
                    (err if any(e["live"] for e in tmp_prs) else blocked).append(v["code"])
        for e in tmp_prs:
            if e["live"]:
                if not feu:
                    err.append(e["code"])
                elif not has_tree:
                    fatal.append(e["code"])
                else:
                    ambiguous.append(e["code"])
    if unfix:
        return 1, "unfixable-violation-exits-1", f"unfixable live lint violations: {sorted(set(unfix))}"
    if err:
        return 1, "unsuppressed-tmp-prs-error-exits-1", f"live templating/parsing error blocks fixing: {sorted(set(err))}"
    if fatal:
        return 1, "fatal-templating-error-exits-1", f"fix_even_unparsable, but nothing could be parsed: live {sorted(set(fatal))}"
    if blocked:
        return 1, "fix-blocked-by-suppressed-tmp-prs-exits-1", (f"live fixable violations {sorted(set(blocked))} stay unfixed: the file has a "
                                                                  "suppressed / warning-only templating or parsing error")
    if ambiguous:
        return None, "route-agreement", f"fix_even_unparsable with a live, non-blocking {sorted(set(ambiguous))}"
    what = ("clean" if not any(f["fix"][0] for f in files) else "all-fixed-or-suppressed-or-warnings")
    return 0, "nothing-unfixable-exits-0", what


def _invoke(command, args, inp):
    from click.testing import CliRunner
    from sqlfluff.cli import commands
    cmd = {"lint": commands.lint, "fix": commands.fix, "format": commands.cli_format}[command]
    r = CliRunner().invoke(cmd, args, input=inp)
    exc = r.exception if (r.exception is not None and not isinstance(r.exception, SystemExit)) else None
    return r.exit_code, (r.output or "")[-400:], (repr(exc)[:200] if exc is not None else None)


def _write(path, text):
    with open(path, "w", newline="", encoding="utf-8") as f:
        f.write(text)


_RAW_CACHE: dict = {}


def _worker_init():
    """tqdm's class-level write lock is a multiprocessing RLock: once it exists in the parent it is SHARED by the forked workers, and
    a fork taken while the parent's tqdm monitor thread holds it leaves a stale hold count in the child (its first release never
    posts the semaphore -> every worker blocks in tqdm.__new__).  Give every worker a fresh, process-local lock."""
    import threading
    from tqdm import tqdm
    tqdm.set_lock(threading.RLock())
    tqdm.monitor_interval = 0


def _run_group(task):
    """one (body, suppression mode): build the files, compute the oracle, run the selected (command, route, flags) combinations"""
    gi, bname, template, mode, combos, tier, seed, tmp = task
    fmt_rules = _format_rules()
    pkey = (template.replace("@N1@", "").replace("@N2@", "").replace("@PRE@", ""), (), False, False)
    if pkey not in _RAW_CACHE:      # one probe per body: the modes of a body are run by the same worker (_run_body)
        _RAW_CACHE[pkey] = _raw(pkey[0])
    probe = _RAW_CACHE[pkey][0]
    built = _build(template, mode, probe)
    if built is None:
        return {"skipped": True, "group": f"{bname}/{mode}"}
    sql, cfg, noqa = built
    cache = {}

    def judged(text, model, command, fix):
        key = (text, command == "format", id(model), fix)
        if key not in cache:
            rkey = (text, tuple(cfg["ignore"]), command == "format", fix)
            if rkey not in _RAW_CACHE:        # (the sibling files are pre-computed before the pool forks)
                _RAW_CACHE[rkey] = _raw(text, cfg["ignore"], fmt_rules if command == "format" else None, fix=fix)
            raw, has_tree = _RAW_CACHE[rkey]
            cache[key] = (_judge(raw, cfg, model), has_tree)
        return cache[key]

    def oracle(text, model, command):
        """only the run the command's formula needs: lint -> fix=False, fix / format -> fix=True"""
        if command == "lint":
            return {"lint": judged(text, model, command, False)[0]}
        return {"fix": judged(text, model, command, True)}

    # forced combinations: the classes the property is most delicate about are always run through path AND stdin
    main_fix = _expect("fix", (), [oracle(sql, noqa, "fix")])
    main_feu = _expect("fix", ("feu",), [oracle(sql, noqa, "fix")])
    combos = list(combos)
    forced = []
    k = gi // len(MODES) + gi % len(MODES)        # (body index + mode index: decorrelates the alternations below from the mode)
    if main_fix[1] == "fix-blocked-by-suppressed-tmp-prs-exits-1":
        forced += [("fix", "path", ()), ("fix", "stdin", ()), ("format", "stdin", ())][:None if tier == "thorough" else 2 + k % 2]
        if tier != "thorough" and k % 2 == 0:
            forced[1] = ("format", "stdin", ())
    if main_fix[1] == "unsuppressed-tmp-prs-error-exits-1" and (tier == "thorough" or k % 2 == 1):
        forced += [("fix" if k % 4 == 1 else "format", "stdin", ())]      # the gate's verdict is the only reason for exit 1 here
    if main_feu[1] == "fatal-templating-error-exits-1":
        # every route, the multi-file ones next to a clean sibling (so that this file decides the exit code)
        forced += [("fix", r, ("feu", "clean-sibling")) for r in ROUTES]
    if main_feu[1] == "route-agreement" and (tier == "thorough" or k % 3 == 0):
        forced += [("fix", "path", ("feu",)), ("fix", "stdin", ("feu",))]
    if (main_fix[1] == "unfixable-violation-exits-1"
            and _expect("format", (), [oracle(sql, noqa, "format")])[1] == "unfixable-violation-exits-1"):
        forced += [("format", "path", ()), ("format", "stdin", ())]
    for c in forced:
        if c not in combos:
            combos.append(c)
    records = []
    gdir = os.path.join(tmp, f"g{gi}")
    os.makedirs(gdir)
    cwd = os.getcwd()
    try:
        for ci, (command, route, flags) in enumerate(combos):
            sib_name, sib_sql = SIBLINGS[0 if "clean-sibling" in flags else (gi + ci) % len(SIBLINGS)]
            d = os.path.join(gdir, f"c{ci}")
            os.makedirs(d)
            # configuration: ignore by --ignore or .sqlfluff (alternating), warnings by .sqlfluff, fix_even_unparsable by flag or .sqlfluff
            args, cfg_lines = ["--dialect", "ansi"], []
            if cfg["ignore"]:
                if (gi + ci) % 2:
                    args += ["--ignore", ",".join(cfg["ignore"])]
                else:
                    cfg_lines.append("ignore = " + ",".join(cfg["ignore"]))
            if cfg["warnings"]:
                cfg_lines.append("warnings = " + ",".join(cfg["warnings"]))
            if "feu" in flags:
                if (gi + ci) % 3 == 0:
                    cfg_lines.append("fix_even_unparsable = True")
                else:
                    args.append("--FIX-EVEN-UNPARSABLE")
            if "nofail" in flags:
                args.append("--nofail")
            if "check-y" in flags:
                args.append("--check")
            if cfg_lines:
                _write(os.path.join(d, ".sqlfluff"), "[sqlfluff]\n" + "\n".join(cfg_lines) + "\n")
            inp = "y" if "check-y" in flags else None
            if route == "path":
                _write(os.path.join(d, "case.sql"), sql)
                files, paths = [(sql, noqa)], ["case.sql"]
            elif route == "dir":
                os.makedirs(os.path.join(d, "proj"))
                _write(os.path.join(d, "proj", "case.sql"), sql)
                _write(os.path.join(d, "proj", "sibling.sql"), sib_sql)
                files, paths = [(sql, noqa), (sib_sql, _NO_NOQA)], ["proj"]
            elif route == "paths2":
                _write(os.path.join(d, "case.sql"), sql)
                _write(os.path.join(d, "sibling.sql"), sib_sql)
                files, paths = [(sql, noqa), (sib_sql, _NO_NOQA)], ["sibling.sql", "case.sql"]
            else:
                files, paths, inp = [(sql, noqa)], ["-"], sql
            expected, clause, why = _expect(command, flags, [oracle(t, m, command) for t, m in files])
            os.chdir(d)
            try:
                code, out, exc = _invoke(command, paths + args, inp)
            finally:
                os.chdir(cwd)
            records.append({"group": f"{bname}/{mode}", "command": command, "route": route, "flags": list(flags), "args": paths + args,
                            "config": cfg_lines, "sql": sql, "sibling": sib_sql if len(files) > 1 else None,
                            "expected": expected, "clause": clause, "why": why, "observed": code, "output_tail": out, "exception": exc,
                            "oracle": (oracle(sql, noqa, command)["lint"] if command == "lint" else oracle(sql, noqa, command)["fix"][0])})
    finally:
        os.chdir(cwd)
        shutil.rmtree(gdir, ignore_errors=True)
    return {"skipped": False, "group": f"{bname}/{mode}", "records": records}


def _run_body(tasks):
    """all suppression modes of one body in one worker: the raw-violation cache is shared between modes with the same text"""
    return [_run_group(t) for t in tasks]


def _function_of(command, route):
    return F_LINT if command == "lint" else (F_STDIN if route == "stdin" else F_PATHS)


def exit_code_matrix(tier="quick", seed=0):
    t0 = time.time()
    rng = random.Random(seed)
    all_combos = _combos()
    bodies = [b for b in BODIES if tier == "thorough" or b[0] not in THOROUGH_ONLY]
    groups = list(itertools.product(bodies, MODES))
    tmp = tempfile.mkdtemp(prefix="c22_matrix_")
    tasks = []
    off = rng.randrange(len(all_combos))
    for gi, ((bname, template), mode) in enumerate(groups):
        if tier == "thorough":
            combos = list(all_combos)
        else:
            # stratified: two of every three (body, mode) pairs get one combination, walking through the combination list so
            # that every (command, route, flags) is used about equally often; the delicate classes add forced routes in the worker
            bi, mi = divmod(gi, len(MODES))
            combos = [all_combos[(off + 5 * bi + 7 * mi) % len(all_combos)]] if (bi + mi + off) % 3 else []
        tasks.append((gi, bname, template, mode, combos, tier, seed, tmp))
    from tqdm import tqdm
    tqdm.monitor_interval = 0      # no tqdm monitor thread in this process (see _worker_init)
    fmt = _format_rules()          # (also loads the dialect and the rules once, before forking)
    for (_n, sib), ign, is_fmt, fx in itertools.product(SIBLINGS, ((), ("parsing",), ("templating",), ("parsing", "templating")),
                                                        (False, True), (False, True)):
        if not (is_fmt and not fx):
            _RAW_CACHE[(sib, ign, is_fmt, fx)] = _raw(sib, ign, fmt if is_fmt else None, fix=fx)
    try:
        with mp.get_context("fork").Pool(6, initializer=_worker_init) as pool:
            # (a timeout instead of a silent hang: reported as a crash of the bounded check, never as a verdict)
            by_body = {}
            for t in tasks:
                by_body.setdefault(t[1], []).append(t)
            nested = pool.map_async(_run_body, list(by_body.values()), chunksize=1).get(timeout=1800 if tier != "thorough" else 7200)
            results = [r for rs in nested for r in rs]
    finally:
        shutil.rmtree(tmp, ignore_errors=True)
    fails = _Fails()
    ev, samples, classes, n_groups = 0, [], {}, 0
    agree = {}
    for res in results:
        if res["skipped"]:
            continue
        n_groups += 1
        for r in res["records"]:
            ev += 1
            key = f"{r['command']}/{r['clause']}"
            classes[key] = classes.get(key, 0) + 1
            witness = {k: r[k] for k in ("group", "args", "config", "sql", "sibling", "expected", "observed", "why", "oracle",
                                          "output_tail", "exception")}
            if r["expected"] is None:
                if r["route"] in ("path", "stdin"):
                    agree.setdefault((r["group"], r["command"], tuple(r["flags"])), {})[r["route"]] = (r["observed"], witness)
                if r["observed"] not in (0, 1):
                    fails.add(f"C22/matrix/{r['command']}/{r['route']}/exit-code-is-0-or-1", _function_of(r["command"], r["route"]), witness)
            elif r["observed"] != r["expected"]:
                fails.add(f"C22/matrix/{r['command']}/{r['route']}/{r['clause']}", _function_of(r["command"], r["route"]), witness)
            if len(samples) < 4 and r["expected"] == 1 and r["command"] != "lint":
                samples.append({k: r[k] for k in ("group", "args", "config", "sql", "expected", "observed", "why")})
    for (group, command, flags), by_route in sorted(agree.items()):
        if len(by_route) == 2 and by_route["path"][0] != by_route["stdin"][0]:
            fails.add(f"C22/matrix/{command}/route-agreement/live-tmp-prs-error-under-fix-even-unparsable", F_STDIN,
                      {"group": group, "flags": list(flags), "path": by_route["path"][1], "stdin": by_route["stdin"][1],
                       "note": "same text, same configuration: `fix <path>` and `fix -` exit differently"})
    # non-vacuity: every clause of the formula was exercised
    need = ["lint/nofail-exits-0", "lint/unsuppressed-violation-exits-1", "lint/no-unsuppressed-violation-exits-0",
            "fix/unfixable-violation-exits-1", "fix/unsuppressed-tmp-prs-error-exits-1", "fix/fatal-templating-error-exits-1",
            "fix/fix-blocked-by-suppressed-tmp-prs-exits-1", "fix/nothing-unfixable-exits-0", "fix/route-agreement",
            "format/unfixable-violation-exits-1", "format/unsuppressed-tmp-prs-error-exits-1",
            "format/fix-blocked-by-suppressed-tmp-prs-exits-1", "format/nothing-unfixable-exits-0"]
    missing = [k for k in need if classes.get(k, 0) < (2 if tier != "thorough" else 4)]
    assert not missing, f"exit_code_matrix: clauses hardly exercised: {missing} ({classes})"
    return {"name": "cli-exit-code-matrix",
            "bound": f"{n_groups} generated (file body x suppression mode) pairs out of {len(bodies)} bodies x {len(MODES)} modes (modes that "
                     f"do not apply to a body are skipped), {ev} runs of the real click commands "
                     f"({'full product' if tier == 'thorough' else 'stratified seeded sample: 1 for two of every three pairs + path/stdin for the delicate classes'} "
                     f"of {len(all_combos)} (command, route, flags) combinations: lint [--nofail] / fix [--FIX-EVEN-UNPARSABLE | --check y] / "
                     "format x one path / directory of two files / two path arguments / stdin), ansi dialect, jinja templater, 1 process",
            "rule": "expected exit code = the property's formula over the raw violation lists of separate Linter.lint_string runs "
                    "(lint: fix=False, fix/format: fix=True, format with the command's forced rule selection), suppression judged from "
                    "the generated noqa comments / ignore / warnings lists; clause counts: " + ", ".join(f"{k}={v}" for k, v in sorted(classes.items())),
            "evaluations": ev, "distinct_nontrivial": sum(v for k, v in classes.items() if not k.endswith("nofail-exits-0")),
            "samples": samples, "failed": fails.list(), "wall_s": round(time.time() - t0, 1)}


# =============================================================================================== usage / configuration errors
_BAD_POLICY = "[sqlfluff:rules:capitalisation.keywords]\ncapitalisation_policy = nope\n"
_V = "SELECT a  FROM t1 INNER JOIN t2 ON t1.id = t2.id\n"      # a fixable AND an unfixable violation: without the error, lint and fix exit 1
# (case, routes, args after the path, .sqlfluff of the working directory, extra files, the text linted)
USAGE = [
    ("unknown-dialect[command-line]", ("path", "stdin"), ["--dialect", "nope"], None, {}, _V),
    ("unknown-dialect[config-file]", ("path", "stdin"), [], "[sqlfluff]\ndialect = nope\n", {}, _V),
    ("unknown-dialect[inline-directive]", ("path", "stdin"), ["--dialect", "ansi"], None, {}, "-- sqlfluff:dialect:nope\n" + _V),
    ("no-dialect", ("path", "stdin"), [], None, {}, _V),
    ("nonexistent-path", ("missing",), ["--dialect", "ansi"], None, {}, _V),
    ("nonexistent-path[next-to-an-existing-one]", ("path+missing",), ["--dialect", "ansi"], None, {}, _V),
    ("bad-config-value[templater]", ("path", "stdin"), ["--dialect", "ansi"], "[sqlfluff]\ntemplater = nope\n", {}, _V),
    ("bad-config-value[integer-option]", ("path", "stdin"), ["--dialect", "ansi"], "[sqlfluff]\nrunaway_limit = abc\n", {}, _V),
    ("bad-config-value[rule-option]", ("path", "stdin"), ["--dialect", "ansi"], _BAD_POLICY, {}, _V),
    ("bad-config-value[rule-option,nested-config-file]", ("sub",), ["--dialect", "ansi"], None, {"sub/.sqlfluff": _BAD_POLICY}, _V),
    ("bad-config-value[rule-option,inline-directive]", ("path", "stdin"), ["--dialect", "ansi"], None, {},
     "-- sqlfluff:rules:capitalisation.keywords:capitalisation_policy:nope\n" + _V),
    ("missing-extra-config-file", ("path", "stdin"), ["--dialect", "ansi", "--config", "nothere.cfg"], None, {}, _V),
    ("malformed-config-file", ("path", "stdin"), ["--dialect", "ansi"], "dialect = ansi\n", {}, _V),
    ("unknown-option", ("path", "stdin"), ["--dialect", "ansi", "--nonsense"], None, {}, _V),
    ("invalid-option-value[processes]", ("path",), ["--dialect", "ansi", "--processes", "abc"], None, {}, _V),
    ("invalid-option-value[templater]", ("path", "stdin"), ["--dialect", "ansi", "--templater", "nope"], None, {}, _V),
]


def usage_matrix(tier="quick", seed=0):
    t0 = time.time()
    fails = _Fails()
    ev, samples = 0, []
    tmp = tempfile.mkdtemp(prefix="c22_usage_")
    cwd = os.getcwd()
    cases = list(USAGE) + [("format-with-rules", ("path", "stdin"), ["--dialect", "ansi", "--rules", "LT01"], None, {}, _V)]
    try:
        for case, routes, args, cfgtext, extra, sql in cases:
            for command in ("lint", "fix", "format"):
                if case == "format-with-rules" and command != "format":
                    continue
                for route in routes:
                    for more in ([], ["--nofail"]) if command == "lint" and (tier == "thorough" or case == "nonexistent-path") else ([],):
                        d = tempfile.mkdtemp(prefix="u_", dir=tmp)
                        if cfgtext is not None:
                            _write(os.path.join(d, ".sqlfluff"), cfgtext)
                        for rel, text in extra.items():
                            os.makedirs(os.path.dirname(os.path.join(d, rel)), exist_ok=True)
                            _write(os.path.join(d, rel), text)
                        inp = None
                        if route == "stdin":
                            paths, inp = ["-"], sql
                        elif route == "missing":
                            paths = ["nothere.sql"]
                        elif route == "sub":
                            os.makedirs(os.path.join(d, "sub"), exist_ok=True)
                            _write(os.path.join(d, "sub", "case.sql"), sql)
                            paths = ["sub/case.sql"]
                        else:
                            _write(os.path.join(d, "case.sql"), sql)
                            paths = ["case.sql"] + (["nothere.sql"] if route == "path+missing" else [])
                        os.chdir(d)
                        try:
                            code, out, exc = _invoke(command, paths + args + more, inp)
                        finally:
                            os.chdir(cwd)
                        ev += 1
                        rec = {"case": case, "command": command, "route": route, "args": paths + args + more, "config": cfgtext,
                               "files": extra, "sql": sql if route != "missing" else None, "expected": 2, "observed": code,
                               "output_tail": out, "exception": exc}
                        if code != 2:
                            fails.add(f"C22/matrix/usage/{case}-exits-2", F_HANDLER, rec)
                        elif len(samples) < 4 and route == "path" and command == "lint":
                            samples.append({k: rec[k] for k in ("case", "args", "config", "observed", "output_tail")})
    finally:
        os.chdir(cwd)
        shutil.rmtree(tmp, ignore_errors=True)
    return {"name": "cli-usage-error-matrix",
            "bound": f"{len(cases)} usage / configuration error scenarios x lint [--nofail] / fix / format x path / stdin where applicable, "
                     "on a file that has both a fixable and an unfixable violation (so 0 and 1 are both distinguishable from 2)",
            "rule": "fixed scenarios; expected exit code 2 for every one",
            "evaluations": ev, "distinct_nontrivial": ev, "samples": samples, "failed": fails.list(), "wall_s": round(time.time() - t0, 1)}


BOUNDED = [exit_code_matrix, usage_matrix]
