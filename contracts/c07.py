"""C07 -- template source maps are consistent for every templater and variant.   Under contract:
   sqlfluff.core.templaters.base: TemplatedFile.__init__   (constructor-established tiling: holds for EVERY templater,
                                  because every TemplatedFile goes through this constructor)
   sqlfluff.core.templaters.base: RawTemplater.process
   sqlfluff.core.templaters.jinja: JinjaTemplater._rectify_templated_slices   (contracts/c07_rectify.py: the remapping of the source
                                  positions of the unreached-code variants onto the ORIGINAL file, proved for any order of the
                                  slices (loops) under a precondition on the deltas and slice boundaries; 5 lemmas)
Bounded (labelled): python / jinja / placeholder slicers against the executable `valid` predicate (contracts/c07_bounded.py);
   _rectify_templated_slices on generated layouts and on every real call made over the jinja template grammar (c07_rectify.BOUNDED).
"""
from pyvc.dsl import contract, external, spec, lemma, implies, inline, ref_class, rec_class
from pyvc.ty import INT, BOOL, Text, StrA, TList, TTuple, TOpt, TRec, SLICE, TOpaque

from .types import TemplatedFile, RawFileSlice, TemplatedFileSlice
from .c31 import is_nl_enum, iter_indices_of_newlines  # noqa: F401  (callee contract)
from . import c07_rectify as _rectify  # noqa: F401  (JinjaTemplater._rectify_templated_slices: contract, lemmas, mutants)

PROP = "C07"


# ------------------------------------------------------------------ specification (from the property text)
@spec
def raw_tiles(raw, n):
    """the raw source slices tile [0, n) exactly and in order"""
    return ((n == 0 if len(raw) == 0 else (raw[0].source_idx == 0
                                          and raw[len(raw) - 1].source_idx + len(raw[len(raw) - 1].raw) == n))
            and all(raw[k].source_idx + len(raw[k].raw) == raw[k + 1].source_idx for k in range(len(raw) - 1)))


@spec
def templated_tiles(sf, n):
    """the rendered slices tile [0, n) exactly and in order (start at 0, contiguous, end at n)"""
    return ((n == 0 if len(sf) == 0 else (sf[0].templated_slice.start == 0 and sf[len(sf) - 1].templated_slice.stop == n))
            and all(sf[k].templated_slice.stop == sf[k + 1].templated_slice.start for k in range(len(sf) - 1)))


# ------------------------------------------------------------------ contracts
@contract("sqlfluff.core.templaters.base:TemplatedFile.__init__", (PROP, "C31"))
class tf_init:
    types = {"self": TemplatedFile, "source_str": StrA, "fname": Text, "templated_str": TOpt(StrA),
             "sliced_file": TOpt(TList(TemplatedFileSlice)), "raw_sliced": TOpt(TList(RawFileSlice)),
             "pos": INT, "previous_slice": TOpt(TemplatedFileSlice), "tfs": TOpt(TemplatedFileSlice)}
    raises = {"ValueError": None, "AssertionError": None, "SQLFluffSkipFile": None}
    opts = {"alphabet": "a\n \r\x0c\u2028"}

    def ensures(self, source_str, fname, templated_str, sliced_file, raw_sliced, result):
        return (
            self.source_str == source_str
            and self.templated_str == (source_str if templated_str is None else templated_str)
            # newline tables (class invariant used by C31 / C23)
            and is_nl_enum(self.source_str, self._source_newlines)
            and is_nl_enum(self.templated_str, self._templated_newlines)
            # raw slices tile the source: ALWAYS (the constructor raises otherwise)
            and raw_tiles(self.raw_sliced, len(source_str))
            # rendered slices tile the rendered text whenever there is a slice and a rendered text was given;
            # the untemplated default (one literal slice over everything) tiles by construction
            and implies(len(self.sliced_file) > 0 and (templated_str is not None or sliced_file is None),
                        templated_tiles(self.sliced_file, len(self.templated_str)))
            # what was passed is what is stored
            and (self.sliced_file == sliced_file if sliced_file is not None else
                 (len(self.sliced_file) == 1 and self.sliced_file[0].slice_type == "literal"
                  and self.sliced_file[0].source_slice == slice(0, len(source_str))
                  and self.sliced_file[0].templated_slice == slice(0, len(source_str))))
            and (self.raw_sliced == raw_sliced if raw_sliced is not None else
                 (len(self.raw_sliced) == 1 and self.raw_sliced[0].slice_type == "literal"
                  and self.raw_sliced[0].source_idx == 0 and len(self.raw_sliced[0].raw) == len(source_str))))

    def inv_1(self, source_str, pos, _i, _iter):
        return (_iter == self.raw_sliced and 0 <= pos
                and (pos == 0 if _i == 0 else (_iter[0].source_idx == 0 and pos == _iter[_i - 1].source_idx + len(_iter[_i - 1].raw)))
                and all(_iter[k].source_idx + len(_iter[k].raw) == _iter[k + 1].source_idx for k in range(0, _i - 1)))

    def inv_2(self, previous_slice, tfs, _i, _iter):
        return (_iter == self.sliced_file
                and ((previous_slice is None) == (_i == 0))
                and (True if _i == 0 else (previous_slice == _iter[_i - 1] and tfs == _iter[_i - 1]
                                           and _iter[0].templated_slice.start == 0))
                and all(_iter[k].templated_slice.stop == _iter[k + 1].templated_slice.start for k in range(0, _i - 1)))


RawTemplater = ref_class("sqlfluff.core.templaters.base:RawTemplater")
FluffConfig = ref_class("sqlfluff.core.config.fluffconfig:FluffConfig")
Formatter = TOpaque("Formatter")


@spec
def valid(tf):
    """the property, for one TemplatedFile"""
    return (raw_tiles(tf.raw_sliced, len(tf.source_str))
            and templated_tiles(tf.sliced_file, len(tf.templated_str))
            # every source slice lies within the file
            and all(0 <= tf.sliced_file[k].source_slice.start <= tf.sliced_file[k].source_slice.stop <= len(tf.source_str)
                    for k in range(len(tf.sliced_file)))
            # every literal slice that renders non-empty text maps to identical text in the source
            and all(implies(tf.sliced_file[k].slice_type == "literal"
                            and tf.sliced_file[k].templated_slice.stop > tf.sliced_file[k].templated_slice.start,
                            tf.templated_str[tf.sliced_file[k].templated_slice.start:tf.sliced_file[k].templated_slice.stop]
                            == tf.source_str[tf.sliced_file[k].source_slice.start:tf.sliced_file[k].source_slice.stop])
                    for k in range(len(tf.sliced_file))))


@contract("sqlfluff.core.templaters.base:RawTemplater.process", PROP)
class raw_process:
    types = {"self": RawTemplater, "in_str": StrA, "fname": Text, "config": TOpt(FluffConfig), "formatter": TOpt(Formatter)}
    raises = {"ValueError": None, "AssertionError": None, "SQLFluffSkipFile": None}

    def ensures(self, in_str, fname, config, formatter, result):
        return (valid(result[0]) and result[0].source_str == in_str and result[0].templated_str == in_str
                and len(result[1]) == 0)


def _bounded():
    from .c07_bounded import BOUNDED as B
    return list(B) + list(_rectify.BOUNDED)


BOUNDED = _bounded()
SHARDS = dict(_rectify.SHARDS)
TRUSTED = ["str.find contract (via iter_indices_of_newlines, C31)"] + list(_rectify.TRUSTED)
NOT_COVERED = ["source-slice bounds and literal-text equality (3rd/4th conjunct of the property) are decided only for the "
               "raw templater (by construction) and bounded for python/jinja/placeholder slicers",
               "PythonTemplater.slice_file, JinjaTracer / JinjaAnalyzer, _handle_unreached_code: heuristic slicing, bounded only"] + list(_rectify.NOT_COVERED)
MUTANTS = [
    ("raw_check_skipped", "sqlfluff/core/templaters/base.py", "            assert rfs.source_idx == pos, (", "            assert rfs.source_idx >= pos, ("),
    ("raw_total_len_skipped", "sqlfluff/core/templaters/base.py", "        assert pos == len(self.source_str), (", "        assert pos <= len(self.source_str), ("),
    ("templated_contiguity_skipped", "sqlfluff/core/templaters/base.py", "                if tfs.templated_slice.start != previous_slice.templated_slice.stop:", "                if tfs.templated_slice.start < previous_slice.templated_slice.stop:"),
    ("templated_first_skipped", "sqlfluff/core/templaters/base.py", "                if tfs.templated_slice.start != 0:", "                if tfs.templated_slice.start < 0:"),
    ("templated_final_skipped", "sqlfluff/core/templaters/base.py", "            if tfs.templated_slice.stop != len(templated_str):", "            if tfs.templated_slice.stop > len(templated_str):"),
    ("newlines_of_wrong_string", "sqlfluff/core/templaters/base.py", "self._templated_newlines = list(iter_indices_of_newlines(self.templated_str))", "self._templated_newlines = list(iter_indices_of_newlines(self.source_str))"),
] + list(_rectify.MUTANTS)
