"""C29 -- dialect definitions are complete.

    "Every bundled dialect loads.  Every grammar reference reachable from its root, including keyword
     references, resolves to a defined segment or grammar.  Its lexer accepts any character, falling
     back to an unlexable token."

Technique (DESIGN.md section C29, level E): the dialect objects are constant data of the program.  The
obligations are the *preconditions of real functions*, evaluated exhaustively on that data by calling the
real functions:

  Dialect.ref(name)                      requires  name in _library, _library[name] truthy, not a SegmentGenerator
      called by Ref._get_elem (every Ref.match / Ref.simple), Bracketed.get_bracket_from_dialect,
      BracketedSegment.simple, match_algorithms.next_ex_bracket_match, Dialect.get_root_segment
  Dialect.bracket_sets(label)            requires  label in ("bracket_pairs", "angle_bracket_pairs")
  Bracketed.get_bracket_from_dialect     requires  some entry of bracket_sets(bracket_pairs_set) has the grammar's bracket_type
  next_ex_bracket_match                  requires  bracket_sets("bracket_pairs") non-empty (zip(*set) unpacks 4 values)
  PyLexer.lex(s)                         returns normally; raws concatenate to s; whatever no dialect matcher
                                         accepts comes back as an `unlexable` segment (and a SQLLexError violation)

One obligation per (dialect, distinct reference name reachable from the root segment), per (dialect,
bracket set, bracket type) used by a reachable Bracketed, per dialect "loads", per (dialect, probe
character) for the lexer, plus self-checks of the walker.  Nothing here is SMT; it is evaluation of the
real code on all of the (finite) data, and is reported as such.
"""
from __future__ import annotations

import collections
import enum
import os
import re
import sys
import time
import traceback
import types
import uuid

PROP = "C29"
LEVEL = "other"
EXHAUSTIVE = True
BACKEND = "exhaustive evaluation"
NATIVE_TRIES = {"quick": 0, "thorough": 0}

EXPLANATION = (
    "Exhaustive evaluation of contract preconditions over the finite constant dialect data (level E in "
    "DESIGN.md), not a proof about all inputs and not sampling: for every dialect registered in "
    "sqlfluff.core.dialects._dialect_lookup the real dialect_selector() is run, the grammar object graph is "
    "walked from dialect.get_root_segment() through every Matchable-valued attribute (found generically by "
    "scanning vars(obj), so no attribute name is hard-coded) and through every Ref via dialect._library, and "
    "for each distinct reference name met the real Dialect.ref(name) is called; its normal return discharges "
    "the obligation, an exception is a failed obligation which is replayed through Ref(name)._get_elem(dialect). "
    "Bracket-set lookups of every reachable Bracketed grammar and of next_ex_bracket_match are evaluated the "
    "same way.  Lexer totality is evaluated by running the real pure-Python PyLexer(dialect=...) on each probe "
    "character alone and embedded as 'a<ch>b' (quick: all 128 ASCII code points plus a list of odd characters; "
    "thorough: every code point below 0x300 plus a stride sample of the rest of Unicode) and comparing with an "
    "oracle built from the real PyLexer.lex_match.  The numbers of dialects, objects, Ref objects and distinct "
    "names walked on this run are in coverage.bounded_stand_ins[0] (a tally, not a stand-in) and in "
    "coverage.obligations; failed obligations that are listed in known_findings.json are printed as "
    "KNOWN-FINDING, any other failed obligation is a VIOLATION.  'exhaustive' refers to the reference-closure "
    "obligations (every reachable reference of every dialect); the lexer obligations are exhaustive only over "
    "the stated probe set."
)

RULE = ("one evaluation = one call of a real function on real dialect data (Dialect.ref, Bracketed."
        "get_bracket_from_dialect, dialect_selector, PyLexer.lex); distinct_nontrivial = number of distinct obligation "
        "ids: (dialect, reference name), (dialect, bracket set, bracket type), (dialect), (dialect, probe character)")

TRUSTED = [
    "CPython evaluation of the real sqlfluff functions named in the obligations (no model of them is used)",
    "sqlfluff.core.dialects._dialect_lookup is the list of bundled dialects (cross-checked against the dialect_*.py files on disk)",
    "BaseSegment.match / BaseSegment.simple only consult cls.match_grammar (self-checked: no reachable segment class overrides match/simple outside sqlfluff.core.parser)",
]
NOT_COVERED = [
    "whether a resolved segment class can actually be matched (BaseSegment.match asserts cls.match_grammar is set) -- only resolution is claimed",
    "whether a reference that is reachable in the object graph is reachable by some SQL text at parse time (the walk over-approximates: a dangling Ref behind an element that can never match is still reported)",
    "references held only by library entries that are not reachable from the root segment (counted in the tally as information, not obligations)",
    "the optional Rust lexer/parser (sqlfluffrs); only the pure-Python PyLexer is evaluated",
    "lexer totality for code points outside the probe set of the tier, and for multi-character contexts other than 'a<ch>b'",
    "plugin-provided dialects",
]
ASSUMPTIONS = [
    "reachability is computed generically: every value in vars(obj) of a grammar/parser instance, recursively through "
    "list/tuple/set/frozenset/dict, that is a Matchable instance or a BaseSegment subclass is followed; segment classes are "
    "followed through cls.match_grammar only (the only attribute BaseSegment.match/simple read); a grammar class keeping "
    "children in __slots__, in a closure or in an object of an unknown type would be missed -- the self-check obligations "
    "C29/self-check/walker-complete[<Class>] fail in exactly those cases",
    "dialect objects are not mutated after dialect_selector() returns (Dialect.sets() may add empty sets; nothing else writes)",
]

_STATE: dict = {}


# ------------------------------------------------------------------------------------------------ helpers
def _exc_text(e: BaseException, limit: int = 300) -> str:
    s = f"{type(e).__name__}: {e}"
    s = s.split("\n\nThe syntax in the query")[0]
    return s[:limit]


class _keep_tracebacklimit:
    """Dialect.ref sets sys.tracebacklimit = 0 before raising its keyword error; undo that side effect."""

    def __enter__(self):
        self.had = hasattr(sys, "tracebacklimit")
        self.val = getattr(sys, "tracebacklimit", None)

    def __exit__(self, *a):
        if self.had:
            sys.tracebacklimit = self.val
        elif hasattr(sys, "tracebacklimit"):
            del sys.tracebacklimit
        return False


def _api():
    from sqlfluff.core import dialects as D
    from sqlfluff.core.dialects.base import Dialect
    from sqlfluff.core.parser import SegmentGenerator
    from sqlfluff.core.parser.context import ParseContext
    from sqlfluff.core.parser.grammar.base import Ref
    from sqlfluff.core.parser.grammar.sequence import Bracketed
    from sqlfluff.core.parser.lexer import PyLexer
    from sqlfluff.core.parser.matchable import Matchable
    from sqlfluff.core.parser.segments.base import BaseSegment
    return types.SimpleNamespace(**locals())


def _is_seg_class(A, x) -> bool:
    return isinstance(x, type) and issubclass(x, A.BaseSegment)


def _is_matchable(A, x) -> bool:
    if isinstance(x, type):
        return False
    try:
        return isinstance(x, A.Matchable)
    except TypeError:  # ABC instance check on odd descriptors
        return False


try:
    import regex as _regex
    _PATTERNS = (re.Pattern, _regex.Pattern)
except Exception:  # pragma: no cover
    _PATTERNS = (re.Pattern,)

_LEAF_OK = (str, bytes, int, float, bool, type(None), enum.Enum, uuid.UUID, types.BuiltinFunctionType,
            types.MethodDescriptorType, types.WrapperDescriptorType) + _PATTERNS


def _node_label(A, o) -> str:
    if isinstance(o, type):
        return o.__name__
    if isinstance(o, A.Ref):
        return f"Ref({o._ref!r})"
    return type(o).__name__


def _path(A, parents, o, limit=60):
    """Example path root -> o: named nodes (segment classes, Refs) in `path`; the anonymous grammar tail in `via`."""
    chain = []
    cur = o
    while cur is not None and len(chain) < 2000:
        par = parents.get(id(cur))
        chain.append((cur, par[1] if par else None))
        cur = par[0] if par else None
    chain.reverse()
    named, via = [], []
    for i, (node, edge) in enumerate(chain):
        if isinstance(node, type) or isinstance(node, A.Ref):
            named.append(_node_label(A, node))
            if i < len(chain) - 1:
                via = []
        else:
            via.append(f"{type(node).__name__}" + (f" (via .{edge})" if edge else ""))
    if len(named) > limit:
        named = named[:limit // 2] + ["..."] + named[-limit // 2:]
    return named, via[-8:]


# ------------------------------------------------------------------------------------------------ the walk
def walk(A, d, roots):
    """Breadth-first walk of the grammar object graph of the expanded dialect `d` from `roots`.

    Returns what the real parser would look up: reference names (Ref._get_elem -> Dialect.ref), Bracketed
    bracket-set uses (get_bracket_from_dialect), plus material for the self-checks."""
    seen, keep = set(), []
    parents = {}
    refs = {}        # name -> {"count": n, "obj": first Ref object}
    brackets = {}    # (set label, bracket type) -> {"count": n, "obj": first Bracketed}
    followed = collections.Counter()   # (class name, attr) -> number of Matchable children found there
    classes = collections.Counter()    # class name of grammar/parser instances -> visited instances
    opaque = {}      # (class name, attr, type name) -> count ; attribute values the scan cannot see through
    foreign = set()  # segment classes whose match/simple are not the core implementations
    queue = collections.deque()
    for r in roots:
        queue.append((r, None, None))
    lib = d._library
    while queue:
        o, par, edge = queue.popleft()
        if id(o) in seen:
            continue
        seen.add(id(o))
        keep.append(o)
        if par is not None:
            parents[id(o)] = (par, edge)
        if _is_seg_class(A, o):
            for meth in ("match", "simple"):
                f = getattr(getattr(o, meth, None), "__func__", None)
                if f is None or not getattr(f, "__module__", "").startswith("sqlfluff.core.parser."):
                    foreign.add(f"{o.__module__}.{o.__name__}.{meth}")
            g = getattr(o, "match_grammar", None)
            if g is not None:
                queue.append((g, o, "match_grammar"))
            continue
        classes[type(o).__name__] += 1
        if isinstance(o, A.Ref):
            ent = refs.setdefault(o._ref, {"count": 0, "obj": o})
            ent["count"] += 1
            tgt = lib.get(o._ref)
            if tgt is not None and (_is_seg_class(A, tgt) or _is_matchable(A, tgt)):
                queue.append((tgt, o, "->"))
        if isinstance(o, A.Bracketed):
            ent = brackets.setdefault((o.bracket_pairs_set, o.bracket_type), {"count": 0, "obj": o})
            ent["count"] += 1
        try:
            attrs = vars(o)
        except TypeError:
            opaque[(type(o).__name__, "<no __dict__>", type(o).__name__)] = 1
            continue
        for k, v in attrs.items():
            stack = [v]
            while stack:
                x = stack.pop()
                if isinstance(x, (list, tuple, set, frozenset)):
                    stack.extend(x)
                elif isinstance(x, dict):
                    stack.extend(x.keys())
                    stack.extend(x.values())
                elif _is_seg_class(A, x) or _is_matchable(A, x):
                    followed[(type(o).__name__, k)] += 1
                    queue.append((x, o, k))
                elif isinstance(x, _LEAF_OK):
                    pass
                elif isinstance(x, types.FunctionType) and x.__closure__ is None:
                    pass
                else:
                    key = (type(o).__name__, k, type(x).__name__)
                    opaque[key] = opaque.get(key, 0) + 1
    return types.SimpleNamespace(seen=seen, keep=keep, parents=parents, refs=refs, brackets=brackets,
                                 followed=followed, classes=classes, opaque=opaque, foreign=foreign)


def _all_subclasses(c):
    out, work = [], list(type.__subclasses__(c))
    while work:
        k = work.pop()
        if k not in out:
            out.append(k)
            work.extend(type.__subclasses__(k))
    return out


# ------------------------------------------------------------------------------------------------ probes
ODD = ["\t", "\n", " ", "\r", "a", "7", "\x00", "\x7f", "\xe9", "\u20ac", "\U0001F600", "`", "$", "@", "#", "\\",
       "~", "^", "?", "\x0b", "\x0c", "\x85", "\xa0", "\u2028", "\u3000", "\ufeff", "\ufffd", "\u0301", "\u200b"]


def probe_chars(tier):
    chars = list(ODD) + [chr(i) for i in range(0x80)]
    if tier == "thorough":
        chars += [chr(i) for i in range(0x80, 0x300)]
        chars += [chr(i) for i in range(0x300, 0x110000, 0x101)]   # includes lone surrogates: valid str items
        chars += ["\ud800", "\udfff", "\uffff", "\U0010ffff"]
    out, s = [], set()
    for c in chars:
        if c not in s:
            s.add(c)
            out.append(c)
    return out


def lex_check(A, lexer, ch):
    """None if PyLexer.lex is total on ch and 'a<ch>b' in the sense of C29, else a dict describing the failure."""
    for s in (ch, "a" + ch + "b"):
        try:
            segs, viols = lexer.lex(s)
        except Exception as e:
            return {"input": s, "exception": _exc_text(e), "problem": "lex raised"}
        joined = "".join(x.raw for x in segs)
        if joined != s:
            return {"input": s, "problem": "raws of the returned segments do not concatenate to the input", "got": joined}
        unlex = [x for x in segs if x.is_type("unlexable")]
        if len(unlex) != len(viols):
            return {"input": s, "problem": "number of unlexable segments differs from number of lexing violations",
                    "unlexable": [x.raw for x in unlex], "violations": len(viols)}
        if any(x.raw == "" for x in unlex):
            return {"input": s, "problem": "empty unlexable segment"}
        # oracle from the real matcher loop: whatever no dialect matcher accepts must come back typed `unlexable`
        rest, off, want = s, 0, []
        while rest:
            res = A.PyLexer.lex_match(rest, lexer.lexer_matchers)
            off += len(rest) - len(res.forward_string)
            rest = res.forward_string
            if not rest:
                break
            m = lexer.last_resort_lexer.match(rest)
            n = len(rest) - len(m.forward_string)
            if n <= 0:
                return {"input": s, "problem": "neither a dialect matcher nor the last-resort matcher accepts at offset %d" % off}
            want.append((off, rest[:n]))
            off += n
            rest = m.forward_string
        got, pos = [], 0
        for x in segs:
            if x.is_type("unlexable"):
                got.append((pos, x.raw))
            pos += len(x.raw)
        if got != want:
            return {"input": s, "problem": "text accepted by no dialect matcher did not come back as `unlexable` segments",
                    "expected_unlexable": want, "got_unlexable": got, "types": [x.get_type() for x in segs if x.raw]}
    return None


# ------------------------------------------------------------------------------------------------ the check
def c29_closure(tier, seed):
    t_start = time.time()
    A = _api()
    failed, samples = [], []
    n_ob = n_ok = evals = 0
    tally = {"dialects": 0, "objects_visited": 0, "ref_objects": 0, "distinct_dialect_ref_names": 0,
             "bracketed_objects": 0, "lexer_probe_chars": 0, "lex_calls": 0, "per_dialect": {}}

    def ok(oid, sample=None):
        nonlocal n_ob, n_ok
        n_ob += 1
        n_ok += 1
        if sample is not None and len(samples) < 5:
            samples.append(dict({"obligation": oid, "status": "discharged", "backend": BACKEND}, **sample))

    def fail(oid, kind, function, detail, reproduced):
        nonlocal n_ob
        n_ob += 1
        failed.append({"name": oid, "id": oid, "kind": kind, "status": "failed", "function": function,
                       "detail": detail, "reproduced": bool(reproduced), "backend": BACKEND})

    # ---- the set of bundled dialects
    labels = sorted(A.D._dialect_lookup)
    ddir = os.path.join(os.path.dirname(os.path.dirname(os.path.abspath(A.D.__file__))), "..", "dialects")
    ddir = os.path.normpath(ddir)
    on_disk = sorted(f[len("dialect_"):-3] for f in os.listdir(ddir)
                     if f.startswith("dialect_") and f.endswith(".py") and not f.endswith("_keywords.py"))
    on_disk = [x for x in on_disk if not x.endswith("_keywords")]
    evals += 1
    try:
        readout = [r.label for r in A.D.dialect_readout()]
        readout_err = None
    except Exception as e:
        readout, readout_err = None, _exc_text(e)
    oid = "C29/bundled-dialects-registered"
    unregistered = [x for x in on_disk if x not in labels]
    if unregistered or (readout is not None and readout != labels) or not labels:
        fail(oid, "dialect-registry", "sqlfluff.core.dialects:dialect_readout",
             {"unregistered_modules": unregistered, "readout": readout, "lookup": labels}, True)
    elif readout is None:
        # some dialect failed to load: reported per dialect below; the registry itself is consistent
        ok(oid)
    else:
        ok(oid, {"dialects": len(labels), "dialect_modules_on_disk": len(on_disk)})

    grammar_classes = {}   # class name -> {"instances": n, "attrs": set}
    opaque_all = {}
    foreign_all = set()
    unreachable_dangling = {}

    for label in labels:
        t_d = time.time()
        # ---- loads and expands
        oid = f"C29/{label}/loads"
        evals += 1
        try:
            with _keep_tracebacklimit():
                d = A.D.dialect_selector(label)
                root = d.get_root_segment()
            problems = []
            if not d.expanded:
                problems.append("dialect_selector returned an unexpanded dialect")
            if d.name != label:
                problems.append(f"dialect name {d.name!r} != label {label!r}")
            gens = sorted(k for k, v in d._library.items() if isinstance(v, A.SegmentGenerator))
            if gens:
                problems.append(f"SegmentGenerator left in the expanded library: {gens[:5]}")
            if not (_is_seg_class(A, root) or _is_matchable(A, root)):
                problems.append(f"root segment {root!r} is not matchable")
            if not d.get_lexer_matchers():
                problems.append("no lexer matchers")
            if problems:
                raise AssertionError("; ".join(problems))
        except Exception as e:
            fail(oid, "dialect-loads", "sqlfluff.core.dialects:dialect_selector",
                 {"dialect": label, "exception": _exc_text(e, 600), "traceback": traceback.format_exc()[-800:]}, True)
            continue
        ok(oid, {"root_segment": getattr(root, "__name__", repr(root)), "library_entries": len(d._library)})
        tally["dialects"] += 1

        # ---- walk from the root
        w = walk(A, d, [root])
        nrefobj = sum(v["count"] for v in w.refs.values())
        for (cn, attr), n in w.followed.items():
            grammar_classes.setdefault(cn, {"instances": 0, "attrs": set()})["attrs"].add(attr)
        for cn, n in w.classes.items():
            grammar_classes.setdefault(cn, {"instances": 0, "attrs": set()})["instances"] += n
        for k, n in w.opaque.items():
            opaque_all[k] = opaque_all.get(k, 0) + n
        foreign_all |= w.foreign

        oid = f"C29/{label}/walk-nonvacuous"
        if nrefobj < 100 or len(w.seen) < 500:
            fail(oid, "self-check", "contracts.c29:walk", {"dialect": label, "objects": len(w.seen), "ref_objects": nrefobj}, True)
        else:
            ok(oid)

        # ---- names looked up: Ref objects, and bracket-set entries
        names = {}   # name -> {"sources": [...], "obj": Ref or None, "count": n}
        for nme, ent in w.refs.items():
            names[nme] = {"sources": ["Ref"], "obj": ent["obj"], "count": ent["count"]}

        def need(nme, src):
            ent = names.setdefault(nme, {"sources": [], "obj": None, "count": 0})
            if src not in ent["sources"]:
                ent["sources"].append(src)

        # next_ex_bracket_match / BracketedSegment.simple: the default set, every entry
        oid = f"C29/{label}/bracket-set[bracket_pairs]"
        evals += 1
        try:
            bp = d.bracket_sets("bracket_pairs")
            _t, _s, _e, _p = zip(*bp)   # exactly what next_ex_bracket_match does
            for (_typ, s_ref, e_ref, _pers) in bp:
                need(s_ref, "bracket_sets('bracket_pairs')")
                need(e_ref, "bracket_sets('bracket_pairs')")
            ok(oid, {"entries": sorted(map(list, bp))})
        except Exception as e:
            fail(oid, "bracket-set-precondition", "sqlfluff.core.parser.match_algorithms:next_ex_bracket_match",
                 {"dialect": label, "exception": _exc_text(e)}, True)

        # Bracketed.get_bracket_from_dialect for every (set, type) used by a reachable Bracketed
        ctx = A.ParseContext(dialect=d, max_parse_depth=255)
        for (setname, btype), ent in sorted(w.brackets.items(), key=lambda kv: (str(kv[0][0]), str(kv[0][1]))):
            oid = f"C29/{label}/bracket[{setname}:{btype}]"
            evals += 1
            entries = []
            exc = None
            try:
                entries = [t for t in d.bracket_sets(setname) if t[0] == btype]
                if not entries:
                    raise ValueError(f"bracket_type {btype!r} not found in {setname!r} of the {label} dialect")
            except Exception as e:
                exc = e
            if exc is None:
                for (_typ, s_ref, e_ref, _pers) in entries:
                    need(s_ref, f"bracket_sets({setname!r})[{btype}]")
                    need(e_ref, f"bracket_sets({setname!r})[{btype}]")
                ok(oid, {"bracketed_objects": ent["count"]})
            else:
                # replay through the real method of the real grammar object
                rep, rtxt = False, None
                try:
                    with _keep_tracebacklimit():
                        ent["obj"].get_bracket_from_dialect(ctx)
                except Exception as e2:
                    rep, rtxt = True, _exc_text(e2)
                named, via = _path(A, w.parents, ent["obj"])
                fail(oid, "bracket-set-precondition", "sqlfluff.core.parser.grammar.sequence:Bracketed.get_bracket_from_dialect",
                     {"dialect": label, "bracket_pairs_set": setname, "bracket_type": btype, "precondition": _exc_text(exc),
                      "exception": rtxt, "path": named, "via": via, "bracketed_objects": ent["count"]}, rep)

        # ---- one obligation per (dialect, reference name): call the real Dialect.ref
        nfail_d = 0
        for nme in sorted(names):
            ent = names[nme]
            oid = f"C29/{label}/ref[{nme}]"
            evals += 1
            exc = None
            try:
                with _keep_tracebacklimit():
                    got = d.ref(nme)
                if got is not d._library.get(nme):
                    raise AssertionError("Dialect.ref returned an object other than the library entry")
            except Exception as e:
                exc = e
            if exc is None:
                ok(oid, {"dialect": label, "ref": nme, "resolves_to": getattr(got, "__name__", type(got).__name__),
                         "ref_objects": ent["count"]})
                continue
            nfail_d += 1
            rep, rtxt = False, None
            try:
                with _keep_tracebacklimit():
                    (ent["obj"] if ent["obj"] is not None else A.Ref(nme))._get_elem(dialect=d)
            except Exception as e2:
                rep, rtxt = True, _exc_text(e2)
            named, via = (_path(A, w.parents, ent["obj"]) if ent["obj"] is not None else ([], []))
            fail(oid, "ref-precondition", "sqlfluff.core.dialects.base:Dialect.ref",
                 {"dialect": label, "ref": nme, "in_library": nme in d._library, "sources": ent["sources"],
                  "ref_objects_with_this_name": ent["count"], "path": named, "via": via,
                  "replayed_with": "Ref(%r)._get_elem(dialect=<%s>)" % (nme, label), "exception": rtxt or _exc_text(exc)}, rep)

        # ---- information only: dangling references in library entries NOT reachable from the root
        unre = [v for k, v in d._library.items() if id(v) not in w.seen and (_is_seg_class(A, v) or _is_matchable(A, v))]
        w2 = walk(A, d, unre)
        extra = sorted(n for n in w2.refs if n not in d._library and n not in names)
        if extra:
            unreachable_dangling[label] = extra

        # ---- lexer totality
        chars = probe_chars(tier)
        tally["lexer_probe_chars"] = len(chars)
        try:
            lexer = A.PyLexer(dialect=label)
        except Exception as e:
            fail(f"C29/{label}/lexer-constructs", "lexer-totality", "sqlfluff.core.parser.lexer:PyLexer.__init__",
                 {"dialect": label, "exception": _exc_text(e)}, True)
            lexer = None
        nlexfail = 0
        if lexer is not None:
            for ch in chars:
                oid = f"C29/{label}/lexer-total[{ch!r}]"
                evals += 2
                tally["lex_calls"] += 2
                bad = lex_check(A, lexer, ch)
                if bad is None:
                    ok(oid, {"dialect": label, "char": repr(ch)} if (label == labels[0] and ch == "$") else None)
                else:
                    nlexfail += 1
                    fail(oid, "lexer-totality", "sqlfluff.core.parser.lexer:PyLexer.lex",
                         dict(bad, dialect=label, char=repr(ch), codepoint=hex(ord(ch))), True)

        tally["objects_visited"] += len(w.seen)
        tally["ref_objects"] += nrefobj
        tally["distinct_dialect_ref_names"] += len(names)
        tally["bracketed_objects"] += sum(v["count"] for v in w.brackets.values())
        tally["per_dialect"][label] = {"objects": len(w.seen), "ref_objects": nrefobj, "distinct_names": len(names),
                                       "dangling": nfail_d, "bracket_uses": len(w.brackets), "lexer_failures": nlexfail,
                                       "library_entries_unreachable_from_root": len(unre),
                                       "wall_s": round(time.time() - t_d, 2)}

    # ---- self-checks of the walker (generic: no attribute names are assumed)
    oid = "C29/self-check/segment-lookups-only-in-core"
    if foreign_all:
        fail(oid, "self-check", "contracts.c29:walk",
             {"problem": "segment classes reachable from a root define their own match/simple; the walker only follows match_grammar",
              "classes": sorted(foreign_all)[:40]}, True)
    else:
        ok(oid)
    import sqlfluff.core.parser.grammar as G  # noqa: F401  (make sure every grammar module is imported)
    import sqlfluff.core.parser.parsers  # noqa: F401
    for cls in sorted((c for c in _all_subclasses(A.Matchable) if not issubclass(c, (A.BaseSegment, type))
                       and c.__module__.startswith("sqlfluff.")), key=lambda c: c.__name__):
        cn = cls.__name__
        oid = f"C29/self-check/walker-complete[{cn}]"
        slots = [k.__name__ for k in cls.__mro__ if k is not object and tuple(vars(k).get("__slots__", ()) or ())]
        opq = {f"{a}:{t}": n for (c, a, t), n in opaque_all.items() if c == cn}
        info = grammar_classes.get(cn, {"instances": 0, "attrs": set()})
        if slots or opq:
            fail(oid, "self-check", "contracts.c29:walk",
                 {"class": f"{cls.__module__}.{cn}", "classes_with___slots__": slots, "attribute_values_not_seen_through": opq,
                  "problem": "instances may hold Matchable children where the generic vars() scan cannot find them"}, True)
        else:
            ok(oid)
        grammar_classes.setdefault(cn, info)
    tally["matchable_classes"] = {cn: {"instances_visited": v["instances"], "attributes_holding_matchables": sorted(v["attrs"])}
                                  for cn, v in sorted(grammar_classes.items())}
    tally["dangling_only_in_unreachable_library_entries"] = {k: {"count": len(v), "names": v[:12]} for k, v in unreachable_dangling.items()}
    tally["evaluations"] = evals
    tally["obligations"] = n_ob
    tally["failed"] = len(failed)
    tally["wall_s"] = round(time.time() - t_start, 2)
    _STATE["tally"] = tally
    _STATE["failed"] = failed
    return {"name": "C29-dialect-reference-closure", "obligations": n_ob, "discharged": n_ok, "failed": failed,
            "undecided": [], "samples": samples,
            "trusted": ["exhaustive evaluation: the obligations are calls of the real Dialect.ref / Bracketed.get_bracket_from_dialect / "
                        "dialect_selector / PyLexer.lex on the real dialect objects; the walker's completeness is self-checked "
                        "(C29/self-check/*)"],
            "backend": BACKEND}


def c29_tally(tier, seed):
    """Not a bounded stand-in: the measured counts of the exhaustive evaluation above, so that the evidence carries them."""
    t = _STATE.get("tally")
    if t is None:
        raise RuntimeError("c29_closure did not complete")
    return {"name": "C29-evaluation-tally", "note": "tally of the exhaustive evaluation run by C29-dialect-reference-closure "
            "(real-function calls and distinct obligation ids); not a separate bounded check",
            "evaluations": t["evaluations"], "distinct_nontrivial": t["obligations"], "rule": RULE,
            "dialects": t["dialects"], "objects_visited": t["objects_visited"], "ref_objects": t["ref_objects"],
            "distinct_dialect_ref_names": t["distinct_dialect_ref_names"], "bracketed_objects": t["bracketed_objects"],
            "lexer_probe_chars_per_dialect": t["lexer_probe_chars"], "lex_calls": t["lex_calls"],
            "per_dialect": t["per_dialect"], "matchable_classes": t["matchable_classes"],
            "dangling_only_in_unreachable_library_entries": t["dangling_only_in_unreachable_library_entries"],
            "wall_s": t["wall_s"], "failed": []}


EXTRA = [c29_closure]
BOUNDED = [c29_tally]

# (name, file under src, old text, new text) -- each must turn ./check C29 into exit 1 with a VIOLATION line
MUTANTS = [
    # (a) a segment registered under another name: Ref("ColumnPathOperatorSegment") dangles in sqlite
    ("rename_added_segment", "sqlfluff/dialects/dialect_sqlite.py",
     "    ColumnPathOperatorSegment=StringParser(", "    ColumnPathOperatorSegmentX=StringParser("),
    # (b) a keyword used through Ref.keyword removed from the dialect's keyword list
    ("drop_reserved_keyword", "sqlfluff/dialects/dialect_sqlite_keywords.py", '    "PRAGMA",\n', ""),
    # (c) lexer: the last-resort matcher refuses '$'  -> PyLexer.lex raises for dialects without a '$' matcher
    ("last_resort_refuses_dollar", "sqlfluff/core/parser/lexer.py", 'r"[^\\t\\n\\ ]*",', 'r"[^\\t\\n\\ \\$]*",'),
    # (c) lexer: the fallback no longer yields `unlexable` segments
    ("fallback_not_unlexable", "sqlfluff/core/parser/lexer.py",
     'r"[^\\t\\n\\ ]*",\n            UnlexableSegment,', 'r"[^\\t\\n\\ ]*",\n            RawSegment,'),
    # (c) lexer: ansi's whitespace matcher no longer accepts tab (the last resort never does) -> not total
    ("whitespace_matcher_drops_tab", "sqlfluff/dialects/dialect_ansi.py",
     'RegexLexer("whitespace", r"[^\\S\\r\\n]+", WhitespaceSegment),', 'RegexLexer("whitespace", r"[^\\S\\r\\n\\t]+", WhitespaceSegment),'),
    # a Bracketed naming a bracket type the dialect does not define
    ("unknown_bracket_type", "sqlfluff/dialects/dialect_sqlite.py", "sqlite_dialect.replace(\n    PrimaryKeyGrammar=Sequence(\n        \"PRIMARY\",",
     "sqlite_dialect.replace(\n    PrimaryKeyGrammar=Sequence(\n        Bracketed(Ref(\"ConflictClauseSegment\"), bracket_type=\"wavy\", optional=True),\n        \"PRIMARY\","),
]


def known_entries():
    """Entries for known_findings.json from the failures actually observed and replayed on this tree."""
    sys.path.insert(0, os.path.dirname(os.path.dirname(os.path.abspath(__file__))))
    res = c29_closure("quick", 0)
    out = []
    for f in res["failed"]:
        if f["kind"] != "ref-precondition" or not f["reproduced"]:
            continue
        dct = f["detail"]
        out.append({"property": PROP, "id": f["id"],
                    "what": f"{dct['dialect']}: grammar reference '{dct['ref']}' reachable from the root resolves to nothing (Dialect.ref raises)",
                    "status": "open"})
    return out, res
