"""C01 -- the two token-level steps after the element loop.   Functions under contract:
   sqlfluff.core.parser.lexer:PyLexer.violations_from_segments   ("unlexable tokens [are] reported as LXR errors": exactly
                                                                 one SQLLexError per unlexable token, in order, at its position)
   sqlfluff.core.linter.linter:Linter._lex_templated_file        region contract over the final filter loop: the only tokens
                                                                 it may drop are template-indent META tokens -- every token
                                                                 that carries text survives, in order ("never dropped")
"""
from pyvc.dsl import contract, external, spec, implies, ref_class, rec_class
from pyvc.ty import INT, BOOL, Text, TList, TOpt, TOpaque, SINK

PROP = "C01"

PosMarker = TOpaque("PositionMarker")
RawSegment = ref_class("sqlfluff.core.parser.segments.raw:RawSegment", raw=Text, pos_marker=PosMarker, is_meta=BOOL,
                       indent_val=INT)
# a lexing error is modelled as the immutable pair its constructor is given (its line/column derive from `pos`: C23)
SQLLexError = rec_class("sqlfluff.core.errors:SQLLexError", description=Text, pos=PosMarker)


@spec(uninterpreted=True)
def unlexable(seg: RawSegment) -> BOOL:
    """the token's type is `unlexable` (a function of the token object, which is not modified here)"""
    return seg.is_type("unlexable")


@spec(recursive=True)
def lxr_positions(segs: TList(RawSegment), n: INT) -> TList(PosMarker):
    """positions of the unlexable tokens among the first n tokens, in token order"""
    return ([] if n <= 0 else
            (lxr_positions(segs, n - 1) + [segs[n - 1].pos_marker] if unlexable(segs[n - 1]) else lxr_positions(segs, n - 1)))


@spec(recursive=True)
def kept(segs: TList(RawSegment), n: INT, blocks_indent: BOOL) -> TList(RawSegment):
    """the first n tokens without the template-indent META tokens that are switched off"""
    return ([] if n <= 0 else
            (kept(segs, n - 1, blocks_indent) if (segs[n - 1].is_meta and segs[n - 1].indent_val != 0 and not blocks_indent)
             else kept(segs, n - 1, blocks_indent) + [segs[n - 1]]))


@external("sqlfluff.core.parser.segments.base:BaseSegment.is_type", PROP)
class is_type:
    types = {"self": RawSegment, "seg_type": Text}
    params = ["self", "seg_type"]
    ret = BOOL

    def requires(self, seg_type):
        return seg_type == "unlexable"       # the only use under contract here

    def ensures(self, seg_type, result):
        return result == unlexable(self)


@contract("sqlfluff.core.parser.lexer:PyLexer.violations_from_segments#lxr", PROP)
class violations_from_segments_lxr:
    types = {"segments": TList(RawSegment), "violations": TList(SQLLexError)}
    ret = TList(SQLLexError)

    def ensures(segments, result):
        # one LXR error per unlexable token, in token order, located at that token
        return [e.pos for e in result] == lxr_positions(segments, len(segments))

    def inv_1(segments, violations, _i):
        return [e.pos for e in violations] == lxr_positions(segments, _i)


@contract("sqlfluff.core.linter.linter:Linter._lex_templated_file#indent-filter", PROP)
class lex_templated_file_filter:
    # anchored at the first statement of the final filter; the free variables are what the code above computed
    region = ("new_segments = []", None)
    region_params = ["segments", "templating_blocks_indent", "violations"]
    types = {"segments": TList(RawSegment), "templating_blocks_indent": BOOL, "violations": SINK,
             "new_segments": TList(RawSegment)}
    ghost_out = {"new_segments": TList(RawSegment)}

    def ensures(segments, templating_blocks_indent, violations, result, new_segments):
        # only switched-off template-indent META tokens are dropped: every token that carries text (and every template
        # placeholder) survives, in order -- "never dropped"
        return new_segments == kept(segments, len(segments), templating_blocks_indent)

    def inv_1(segments, templating_blocks_indent, new_segments, _i):
        return new_segments == kept(segments, _i, templating_blocks_indent)


TRUSTED = ["SQLLexError(description, pos=marker) is modelled as the immutable pair of its constructor arguments (positions derived from `pos`: C23)",
           "region contract Linter._lex_templated_file#indent-filter: `segments` is the lexer's token tuple, "
           "`templating_blocks_indent` a bool (established by the statements above the range)"]
MUTANTS = [
    ("lxr_only_first", "sqlfluff/core/parser/lexer.py", "                        pos=segment.pos_marker,\n                    )\n                )\n        return violations", "                        pos=segment.pos_marker,\n                    )\n                )\n                break\n        return violations"),
    ("lxr_wrong_position", "sqlfluff/core/parser/lexer.py", "                        pos=segment.pos_marker,\n                    )\n                )\n        return violations", "                        pos=segments[0].pos_marker,\n                    )\n                )\n        return violations"),
    ("lxr_for_every_token", "sqlfluff/core/parser/lexer.py", '            if segment.is_type("unlexable"):\n                violations.append(', '            if segment.raw:\n                violations.append('),
    ("filter_drops_all_zero_indent_meta", "sqlfluff/core/linter/linter.py", "                if meta_segment.indent_val != 0:\n                    # Don't allow it if we're not linting templating block indents.", "                if meta_segment.indent_val == 0:\n                    # Don't allow it if we're not linting templating block indents."),
    ("filter_drops_all_meta", "sqlfluff/core/linter/linter.py", "                if meta_segment.indent_val != 0:\n                    # Don't allow it if we're not linting templating block indents.\n                    if not templating_blocks_indent:\n                        continue  # pragma: no cover", "                if meta_segment.indent_val != 0 or not templating_blocks_indent:\n                    continue"),
]
