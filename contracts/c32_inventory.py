"""C32 (repeatability half), part 2 -- EXTRA syntactic obligations: the inventory of process-lifetime state.

"No state that outlives one lint may change what a later lint reports."  Everything here is decided over the real AST of every
module under <src>/sqlfluff (pyvc.effects.Index, re-parsed on every run; `--src` honoured); nothing is executed.

  (1) INVENTORY, exact: every syntactic form of state that outlives a call is collected --
        functools caches (cache / lru_cache / anything named *cache* / *memo*) on functions and methods,
        caching decorators defined in the package, cached_property,
        module-level bindings written at run time (subscript/attribute store, mutator call, del, `global` re-binding),
        class-level bindings written at run time through self. / cls. / ClassName. / type(self).,
        ContextVar.set, `__dict__` stores / non-constant setattr, mutable default arguments that are written --
      and compared with the DECLARED table below (each entry with the reason why it cannot change a later lint).  An item on the
      lint path that is not declared is UNDECIDED-with-reason (a new process-lifetime channel nobody has argued about), unless
      it is a functools cache whose value is immutable by annotation.  A declared item that has disappeared makes the clause stale.
  (2) SHARED VALUES ARE NEVER WRITTEN (taint analysis, inter-procedural, field-based): an object obtained from a cache or
      read out of / stored into a run-time-written module- or class-level container is shared by every lint of the process.
      Such objects are followed through assignments, returns, arguments, containers, constructor arguments and attributes;
      a store into one (subscript / attribute assignment, del, mutator method, a package method that writes `self`) FAILS the
      clause with the source, the site and the call chain.  deepcopy ends the taint; a shallow copy keeps the elements shared.
  (3) block uuids are opaque tokens (the only thing a later file can see of BlockTracker._map is a uuid VALUE).
"""
from __future__ import annotations

import ast
import os
import re
import time
from collections import deque

from pyvc import effects

PROP = "C32"
PKG = "sqlfluff"

# ------------------------------------------------------------------------------------------------ what is on the lint path
L = "sqlfluff.core.linter.linter:Linter."
ENTRY = [L + "lint_string", L + "lint_string_wrapped", L + "lint_paths", L + "lint_path", L + "parse_string", L + "parse_path",
         L + "render_string", L + "render_file", L + "lint_parsed", L + "lint_rendered", L + "__init__", L + "get_rulepack",
         "sqlfluff.api.simple:lint", "sqlfluff.api.simple:parse", "sqlfluff.api.simple:fix",
         "sqlfluff.core.config.fluffconfig:FluffConfig.from_path", "sqlfluff.core.config.fluffconfig:FluffConfig.from_root",
         "sqlfluff.core.config.fluffconfig:FluffConfig.__init__",
         "sqlfluff.core.linter.runner:SequentialRunner.run", "sqlfluff.core.linter.runner:ParallelRunner.run",
         "sqlfluff.core.linter.runner:ParallelRunner._apply"]
# never part of a lint/parse/render (test helpers, the diff-quality plugin, documentation generators)
OFF_PATH_MODULES = ("sqlfluff.utils.testing", "sqlfluff.diff_quality_plugin", "sqlfluff.core.rules.doc_decorators")

# ------------------------------------------------------------------------------------------------ the declared table
# key -> why this state cannot change what a later lint reports (shown in the evidence)
CFG_WHY = ("config files are read once per process (assumption C27-1: they do not change while it runs); the cached dict is only "
           "ever read: clause shared-values-never-written follows it through every consumer (nested_combine deep-copies)")
DECLARED_CACHES = {
    "sqlfluff.core.config.file:load_config_file_as_dict": CFG_WHY,
    "sqlfluff.core.config.file:load_config_string_as_dict": CFG_WHY,
    "sqlfluff.core.config.loader:load_config_at_path": CFG_WHY,
    "sqlfluff.core.parser.rust_parser:RustParser._get_segment_class_by_name":
        "maps a class NAME to the segment class of the dialect (classes are never written); the rust parser is not built here",
}
DECLARED_CACHE_DECORATORS = {
    "sqlfluff.core.parser.grammar.base:cached_method_for_parse_context":
        "the memo on a grammar object is keyed by parse_context.uuid (a uuid4 made by every ParseContext.__init__, i.e. by every "
        "parse) and an entry is only returned when that uuid matches: a later parse never reads an earlier parse's entry "
        "(clause cache-decorator/guarded-by-parse-context-uuid); the value is a tuple of frozensets / None",
}
# classes whose instances are created for ONE file (or one crawl of one file): a cached_property on them dies with the file
PER_FILE_CLASS_ROOTS = {
    "sqlfluff.core.parser.segments.base:BaseSegment": "parse-tree nodes: built by the lexer/parser for one file",
    "sqlfluff.utils.analysis.query:Selectable": "built by Query.from_segment for one crawl of one parse tree",
    "sqlfluff.utils.analysis.query:Query": "built by Query.from_segment for one crawl of one parse tree",
    "sqlfluff.cli.helpers:LazySequence": "CLI only: wraps the argument list of one command invocation",
    "sqlfluff.core.templaters.base:TemplatedFile": "the rendering of one file",
    "sqlfluff.core.parser.markers:PositionMarker": "positions inside one file",
}
DECLARED_CACHED_PROPERTIES = {
    "sqlfluff.rules.references.RF06:Rule_RF06.ignore_words_list":
        "rule objects are instantiated by RuleSet.get_rulepack for ONE RulePack (one file); the value is a function of the "
        "rule's own config (`ignore_words`), returned as a fresh list that RF06 only reads",
}
DECLARED_MODULE_STATE = {
    ("sqlfluff.core.config", "progress_bar_configuration"): "progress-bar switch: written by the CLI commands only (once per command = per process), "
                                                            "read by tqdm wrappers only; no rule or templater reads it",
    ("sqlfluff.core.parser.rust_parser", "_PARSE_PROFILE"): "profiling counters of the optional rust parser (not built here); written "
                                                            "only when profiling was switched on by set_profiling(); never read by a rule",
    ("sqlfluff.core.parser.rust_parser", "_PROFILE_ENABLED"): "switch set by the public set_profiling(); only gates timing counters",
    ("sqlfluff.core.parser.rust_parser", "_NATIVE_AST_ENABLED"): "switch set by the public set_native_ast() for the optional rust parser",
    ("sqlfluff.core.plugin.host", "_plugin_manager"):
        "ContextVar holding the pluggy manager: built once from the installed plugins (a function of the environment, not of any "
        "linted file); get_plugin_manager() returns the same manager to every lint; plugins are out of scope (assumption E3)",
    ("sqlfluff.core.plugin.host", "plugins_loaded"): "ContextVar flag of the same one-off plugin loading",
    ("sqlfluff.core.plugin.host", "is_main_process"): "ContextVar flag set once in worker processes of the parallel runner",
}
DECLARED_CLASS_STATE = {
    ("sqlfluff.core.parser.lexer:BlockTracker", "_stack"):
        "shared by all trackers; pyvc contracts BlockTracker.enter/exit/top: exit undoes exactly one enter, so a lex that closes "
        "its blocks leaves it as found (dynamic clause of the history stand-in: empty after every lex); only its top is read",
    ("sqlfluff.core.parser.lexer:BlockTracker", "_map"):
        "shared by all trackers; pyvc contract BlockTracker.enter: append-only memo source-slice -> uuid; a later file with a "
        "block at the same source position gets the earlier file's uuid VALUE, and uuids are opaque tokens only compared within "
        "one file (clause block-uuid-opaque; injectivity: BlockTracker.enter#c32-injective)",
}
DECLARED_DUNDER_DICT = {
    "sqlfluff.core.linter.fix:AnchorEditInfo.add": "counts the fixes of ONE anchor of one file (object built per lint_fix_parsed loop)",
    "sqlfluff.core.rules.base:BaseRule.__init__": "constructor: copies the rule's config keywords onto the NEW rule object",
    "sqlfluff.core.config.fluffconfig:FluffConfig.__setstate__": "unpickling of a config in a worker process: fills the NEW object",
    "sqlfluff.core.templaters.jinja:JinjaTemplater._extract_libraries_from_config":
        "builds the module tree of the user's jinja `library_path` on fresh module objects for one render (user code: out of scope)",
    "sqlfluff.core.parser.grammar.base:cached_method_for_parse_context": "the per-grammar-object memo of the caching decorator (see there)",
    "sqlfluff.core.parser.segments.base:BaseSegment._recalculate_caches": "drops the cached_property values of ONE parse-tree node (per file)",
    "sqlfluff.core.parser.segments.base:BaseSegment.__setattr__": "invalidates cached_property values of ONE parse-tree node (per file)",
    "sqlfluff.core.parser.segments.base:BaseSegment.copy": "copies one parse-tree node (per file)",
    "sqlfluff.core.parser.segments.base:BaseSegment.__getstate__": "pickling of one parse-tree node",
    "sqlfluff.core.parser.segments.base:BaseSegment.__setstate__": "unpickling of one parse-tree node",
}

MUT_METHODS = {"append", "extend", "insert", "pop", "remove", "clear", "sort", "reverse", "update", "setdefault", "popitem", "add",
               "discard", "__setitem__", "__delitem__", "appendleft", "extendleft", "popleft", "intersection_update",
               "difference_update", "symmetric_difference_update", "move_to_end", "rotate"}
CHANNEL_METHODS = MUT_METHODS | {"set", "register", "unregister"}
STORING_METHODS = {"append", "add", "insert", "extend", "update", "setdefault", "appendleft", "extendleft"}
ELEMENT_READS = {"get", "pop", "setdefault", "popitem", "popleft", "__getitem__"}
VIEWS = {"items", "values", "keys", "copy", "union", "intersection", "difference"}
SHALLOW_COPIERS = {"dict", "list", "set", "tuple", "frozenset", "sorted", "reversed", "OrderedDict", "defaultdict", "deque", "iter",
                   "enumerate", "zip", "filter", "map", "chain"}
IMMUTABLE_ANN = re.compile(r"^(Optional\[)?(str|int|bool|float|bytes|None|tuple\[[\w\[\], .]*\]|Tuple\[[\w\[\], .]*\]|frozenset\[[\w\[\], .]*\]"
                           r"|FrozenSet\[[\w\[\], .]*\]|type\[[\w.\"']+\]|Type\[[\w.\"']+\]|re\.Pattern(\[\w+\])?|Pattern(\[\w+\])?)\]?$")
BUILTIN_METHOD_NAMES = {n for t in (str, bytes, list, dict, set, frozenset, tuple) for n in dir(t) if not n.startswith("_")}
MUTABLE_CTORS = {"dict", "list", "set", "defaultdict", "OrderedDict", "deque", "Counter", "WeakValueDictionary", "WeakKeyDictionary",
                 "bytearray", "ChainMap"}

_CACHE = {}


def _pkgdir():
    import sqlfluff
    return os.path.dirname(os.path.abspath(sqlfluff.__file__))


def _index():
    if "ix" not in _CACHE:
        _CACHE["ix"] = effects.Index(_pkgdir(), PKG)
    return _CACHE["ix"]


def _leaf(e):
    if isinstance(e, ast.Call):
        e = e.func
    if isinstance(e, ast.Attribute):
        return e.attr
    if isinstance(e, ast.Name):
        return e.id
    return None


def _root(e):
    """root Name of an Attribute/Subscript/Call-receiver chain, and the chain of attribute names below it"""
    path = []
    while True:
        if isinstance(e, ast.Attribute):
            path.append(e.attr)
            e = e.value
        elif isinstance(e, ast.Subscript):
            path.append("[]")
            e = e.value
        else:
            break
    return (e.id if isinstance(e, ast.Name) else None), list(reversed(path)), e


def _is_mutable_init(e):
    if isinstance(e, (ast.Dict, ast.List, ast.Set, ast.ListComp, ast.DictComp, ast.SetComp)):
        return True
    return isinstance(e, ast.Call) and _leaf(e) in MUTABLE_CTORS


_NODES = {}


def _own_nodes(fnode):
    """every node of a function body, nested defs and lambdas included (they run with the function's state)"""
    got = _NODES.get(id(fnode))
    if got is None or got[0] is not fnode:
        out = []
        for s in (fnode.body if isinstance(fnode.body, list) else [fnode.body]):
            out.extend(ast.walk(s))
        got = _NODES[id(fnode)] = (fnode, out)
    return got[1]


def _site(ix, f, node):
    return f"{ix.relfile(f.file)}:{getattr(node, 'lineno', f.line)}  {ast.unparse(node)[:110]}"


# ================================================================================================ (1) the scan
class Scan:
    def __init__(self, ix):
        self.ix = ix
        self.caches = {}             # func key -> {"decorator", "returns", "site"}
        self.cache_decorated = {}    # package decorator key -> [func keys]
        self.cached_props = {}       # func key -> class key
        self.module_state = {}       # (module, name) -> {"writers": [(func key, site, how)], "init": text}
        self.class_state = {}        # (class key, name) -> {"writers": [...], "init": text}
        self.dunder_dict = {}        # func key -> [site]
        self.mutable_defaults = {}   # func key -> [(param, site)]
        self.module_names = {}       # module -> {name: init text}  (every module-level binding)
        self.class_names = {}        # class key -> {name: init text}
        self._scan()

    # ---- helpers
    def _module_level_names(self, m):
        out = {}

        def top(stmts):
            for s in stmts:
                if isinstance(s, ast.Assign):
                    for t in s.targets:
                        for n in ast.walk(t):
                            if isinstance(n, ast.Name):
                                out[n.id] = ast.unparse(s.value)[:60]
                elif isinstance(s, ast.AnnAssign) and isinstance(s.target, ast.Name):
                    out[s.target.id] = ast.unparse(s.value)[:60] if s.value is not None else "<annotation only>"
                elif isinstance(s, (ast.If, ast.Try, ast.With, ast.For, ast.While)):
                    for fld in ("body", "orelse", "finalbody"):
                        top(getattr(s, fld, []) or [])
                    for h in getattr(s, "handlers", []) or []:
                        top(h.body)
        top(m.tree.body)
        return out

    def _global_of(self, f, name, bound, local_imports):
        """does `name`, used inside function f (where `bound` are its local names), denote a module-level DATA binding of the
        package?  -> (module, name) or None"""
        if name in bound:
            return None
        m = self.ix.modules[f.module]
        if name in self.module_names.get(m.name, {}):
            return (m.name, name)
        b = local_imports.get(name) or m.imports.get(name)
        seen = 0
        while b is not None and b[0] == "from" and seen < 6:
            seen += 1
            mod, nm = b[1], b[2]
            if mod in self.ix.modules:
                if nm in self.module_names.get(mod, {}):
                    return (mod, nm)
                b = self.ix.modules[mod].imports.get(nm)
            else:
                return None
        return None

    def _scan(self):
        ix = self.ix
        for m in ix.modules.values():
            self.module_names[m.name] = self._module_level_names(m)
        for c in ix.classes.values():
            names = {}
            # the annotated names of a @dataclass / NamedTuple / attrs body are INSTANCE fields (set by the generated __init__)
            record_like = any(_leaf(d) in ("dataclass", "define", "attrs", "s") for d in c.node.decorator_list) or \
                any(_leaf(b) in ("NamedTuple", "TypedDict") for b in c.node.bases)
            for s in c.node.body:
                if isinstance(s, ast.Assign):
                    for t in s.targets:
                        if isinstance(t, ast.Name):
                            names[t.id] = ast.unparse(s.value)[:60]
                elif isinstance(s, ast.AnnAssign) and isinstance(s.target, ast.Name) and s.value is not None:
                    if record_like and "ClassVar" not in ast.unparse(s.annotation):
                        continue
                    names[s.target.id] = ast.unparse(s.value)[:60]
            self.class_names[c.key] = names
        for f in ix.funcs.values():
            if f.kind == "module":
                continue
            self._decorators(f)
            self._writes(f)

    def _decorators(self, f):
        ix = self.ix
        m = ix.modules[f.module]
        for d in f.decorators:
            leaf = _leaf(d)
            txt = ast.unparse(d)
            if leaf is None:
                continue
            if leaf == "cached_property":
                self.cached_props[f.key] = f.cls
                continue
            tgt = d.func if isinstance(d, ast.Call) else d
            r = ix.resolve_static(m, tgt)
            looks = bool(re.search(r"cache|memo", leaf, re.I))
            if r is not None and r[0] == "func":
                if looks:
                    self.cache_decorated.setdefault(r[1], []).append(f.key)
                continue
            if looks:
                ret = ast.unparse(f.node.returns) if f.node.returns is not None else None
                self.caches[f.key] = {"decorator": txt, "returns": ret, "site": f"{ix.relfile(f.file)}:{f.line}"}

    def _writes(self, f):
        ix = self.ix
        bound = effects._bound_names(f.node)
        local_imports = {}
        globals_declared = set()
        for n in _own_nodes(f.node):
            if isinstance(n, (ast.Import, ast.ImportFrom)):
                ix._imports_of(n, local_imports)
            if isinstance(n, ast.Global):
                globals_declared.update(n.names)
        bound = bound - globals_declared
        args = f.node.args.posonlyargs + f.node.args.args
        selfname = args[0].arg if (f.cls and args and f.kind in ("method", "classmethod")) else None
        fam = ix.family(f.cls) if f.cls else []

        def class_target(base_expr, attr):
            """`<base>.attr` where base is self / cls / type(self) / self.__class__ / a package class name and attr is a
            CLASS-level binding of that class family (and never an instance attribute assigned through self.attr = ...)"""
            ck = None
            if isinstance(base_expr, ast.Name):
                if selfname and base_expr.id == selfname:
                    for k in fam:
                        if attr in self.class_names.get(k, {}):
                            ck = k
                            break
                elif base_expr.id not in bound:
                    r = ix.resolve_static(ix.modules[f.module], base_expr, local_imports)
                    if r and r[0] == "class":
                        for k in ix.ancestors(r[1]):
                            if attr in self.class_names.get(k, {}):
                                ck = k
                                break
            elif isinstance(base_expr, ast.Attribute) and base_expr.attr == "__class__" or \
                    (isinstance(base_expr, ast.Call) and _leaf(base_expr) == "type"):
                for k in fam:
                    if attr in self.class_names.get(k, {}):
                        ck = k
                        break
            return ck

        def record(target_expr, node, how):
            """target_expr: the object expression that is written (root of a store / receiver of a mutator)"""
            name, path, base = _root(target_expr)
            if name is None:
                if isinstance(base, ast.Call) and _leaf(base) in ("vars",):
                    self.dunder_dict.setdefault(f.key, []).append(_site(ix, f, node))
                return
            if "__dict__" in path:
                self.dunder_dict.setdefault(f.key, []).append(_site(ix, f, node))
                return
            g = self._global_of(f, name, bound, local_imports) if not (selfname and name == selfname) else None
            if g is not None and (path or how.startswith("global")):
                self.module_state.setdefault(g, {"writers": [], "init": self.module_names[g[0]][g[1]]})["writers"].append(
                    (f.key, _site(ix, f, node), how))
                return
            # class-level: <self|cls|Class>.attr ... written
            e = target_expr
            chain = []
            while isinstance(e, (ast.Attribute, ast.Subscript)):
                chain.append(e)
                e = e.value
            if chain:
                first = chain[-1]          # the node directly above the root
                if isinstance(first, ast.Attribute):
                    ck = class_target(first.value, first.attr)
                    if ck is not None:
                        through_self = selfname and isinstance(first.value, ast.Name) and first.value.id == selfname \
                            and f.kind == "method"
                        rebinding = (len(chain) == 1 and how == "store")
                        if through_self and rebinding:
                            return          # self.attr = v creates an INSTANCE attribute
                        self.class_state.setdefault((ck, first.attr), {"writers": [], "init": self.class_names[ck][first.attr]})[
                            "writers"].append((f.key, _site(ix, f, node), how))

        for n in _own_nodes(f.node):
            if isinstance(n, (ast.Assign, ast.AugAssign, ast.AnnAssign)):
                tgs = n.targets if isinstance(n, ast.Assign) else [n.target]
                for t in tgs:
                    for tt in (t.elts if isinstance(t, (ast.Tuple, ast.List)) else [t]):
                        if isinstance(tt, ast.Name):
                            if tt.id in globals_declared:
                                # (a name that only a `global` statement creates is module-level state all the same)
                                g = self._global_of(f, tt.id, bound, local_imports) or (f.module, tt.id)
                                self.module_names.setdefault(g[0], {}).setdefault(g[1], "<created by a global statement>")
                                self.module_state.setdefault(g, {"writers": [], "init": self.module_names[g[0]][g[1]]})[
                                    "writers"].append((f.key, _site(ix, f, n), "global re-binding"))
                        elif isinstance(tt, (ast.Subscript, ast.Attribute)):
                            record(tt, n, "store")
            elif isinstance(n, ast.Delete):
                for t in n.targets:
                    if isinstance(t, (ast.Subscript, ast.Attribute)):
                        record(t, n, "del")
            elif isinstance(n, ast.Call) and isinstance(n.func, ast.Attribute):
                if n.func.attr in CHANNEL_METHODS:
                    recv = n.func.value
                    # a bare module-level / class-level name as receiver counts too (NAME.append(..))
                    name, path, base = _root(recv)
                    if name is not None and not path:
                        g = self._global_of(f, name, bound, local_imports) if not (selfname and name == selfname) else None
                        if g is not None:
                            self.module_state.setdefault(g, {"writers": [], "init": self.module_names[g[0]][g[1]]})[
                                "writers"].append((f.key, _site(ix, f, n), f".{n.func.attr}()"))
                    else:
                        record(recv, n, f".{n.func.attr}()")        # NAME.attr.append(..) / <self|cls|Class>.attr.append(..)
            elif isinstance(n, ast.Call) and isinstance(n.func, ast.Name) and n.func.id == "setattr" and len(n.args) >= 2:
                if not (isinstance(n.args[1], ast.Constant)):
                    self.dunder_dict.setdefault(f.key, []).append(_site(ix, f, n))
        # mutable defaults that the body writes
        a = f.node.args
        pos = a.posonlyargs + a.args
        pairs = list(zip(pos[len(pos) - len(a.defaults):], a.defaults)) + [(p, d) for p, d in zip(a.kwonlyargs, a.kw_defaults) if d is not None]
        for p, d in pairs:
            if _is_mutable_init(d):
                for n in _own_nodes(f.node):
                    hit = False
                    if isinstance(n, (ast.Assign, ast.AugAssign)):
                        for t in (n.targets if isinstance(n, ast.Assign) else [n.target]):
                            if isinstance(t, (ast.Subscript, ast.Attribute)) and _root(t)[0] == p.arg:
                                hit = True
                            if isinstance(n, ast.AugAssign) and isinstance(t, ast.Name) and t.id == p.arg:
                                hit = True
                    if isinstance(n, ast.Call) and isinstance(n.func, ast.Attribute) and n.func.attr in MUT_METHODS \
                            and _root(n.func.value)[0] == p.arg:
                        hit = True
                    if hit:
                        self.mutable_defaults.setdefault(f.key, []).append((p.arg, _site(ix, f, n)))
                        break


# ================================================================================================ (2) shared values: taint
# A taint value is a dict  origin -> relation.   origin: ("src", text) an object shared by every lint of the process (a cache
# result) | ("store", text) a run-time-written process-lifetime container | ("param", name) the object bound to a parameter
# of the function under analysis | ("field", attr) whatever is stored in attribute `attr` anywhere in the package.
# relation (how the value relates to the origin object): SELF the object itself, ELEM something read out of it (reachable from
# it), HOLDER a fresh container that holds it.  Levels: T0 the object is shared, T1 a private container holding shared objects.
T0, T1 = 2, 1
HOLDER, SELF, ELEM = 1, 2, 3


def _apply(rel, lv):
    if lv <= 0:
        return 0
    if rel == ELEM:
        return T0
    if rel == HOLDER:
        return T1
    return lv


def _join(a, b):
    if not b:
        return a
    out = dict(a)
    for o, r in b.items():
        if out.get(o, 0) < r:
            out[o] = r
    return out


def _rel(tv, rel):
    return {o: rel for o in tv}


class Summary:
    __slots__ = ("ret", "ret_parts", "sinks", "calls", "fstores")

    def __init__(self):
        self.ret, self.sinks, self.calls, self.fstores = {}, [], [], []
        self.ret_parts = None       # when every `return` is a tuple literal of one arity: the taint of each position


class Taint:
    """inter-procedural, summary-based, field-based may-analysis of where shared objects flow and where they are written.
    Phase 1: a summary per function (what it returns / writes / passes on / stores in attributes, relative to its parameters),
    iterated until the return summaries are stable.  Phase 2: which parameters and attributes actually receive a shared
    object (fixpoint over the call bindings), then every write site whose object resolves to a shared object is a failure."""

    def __init__(self, ix, scan, on_path):
        self.ix, self.scan = ix, scan
        self.src_funcs = {}
        for k, info in scan.caches.items():
            if not (info["returns"] and IMMUTABLE_ANN.match(info["returns"].replace(" ", ""))):
                self.src_funcs[k] = f"result of the functools cache {k} (@{info['decorator']})"
        # run-time-written stores whose CONTENT is followed: every undeclared one that is written on the lint path (a declared
        # one holds immutable tokens / out-of-scope objects, see its declaration)
        self.store_mod = {g for g, i in scan.module_state.items() if g not in DECLARED_MODULE_STATE and any(on_path(w[0]) for w in i["writers"])}
        self.store_cls = {g for g, i in scan.class_state.items() if g not in DECLARED_CLASS_STATE and any(on_path(w[0]) for w in i["writers"])}
        self.by_leaf = {}
        for k, f in ix.funcs.items():
            if f.kind != "module":
                self.by_leaf.setdefault(f.name, []).append(k)
        self.S = {}
        self.callers_by_leaf = {}
        self.escapes = set()
        self.rounds = 0

    # ------------------------------------------------------------------ phase 1
    def run(self):
        ix = self.ix
        keys = [k for k, f in ix.funcs.items() if f.kind != "module"]
        for k in keys:
            self.S[k] = Summary()
        todo = deque(keys)
        queued = set(keys)
        while todo and self.rounds < 60000:
            self.rounds += 1
            k = todo.popleft()
            queued.discard(k)
            old_ret = (self.S[k].ret, self.S[k].ret_parts)
            s = self._summarise(ix.funcs[k])
            self.S[k] = s
            if (s.ret, s.ret_parts) != old_ret:
                for c in self.callers_by_leaf.get(ix.funcs[k].name, ()):
                    if c not in queued:
                        todo.append(c)
                        queued.add(c)
        self._resolve()

    def _summarise(self, f):
        ix, scan = self.ix, self.scan
        S = Summary()
        node = f.node
        bound = effects._bound_names(node)
        local_imports = {}
        for n in _own_nodes(node):
            if isinstance(n, (ast.Import, ast.ImportFrom)):
                ix._imports_of(n, local_imports)
        a = node.args
        params = [x.arg for x in a.posonlyargs + a.args + a.kwonlyargs]
        if a.vararg:
            params.append(a.vararg.arg)
        if a.kwarg:
            params.append(a.kwarg.arg)
        pos = a.posonlyargs + a.args
        selfname = pos[0].arg if (f.cls and pos and f.kind in ("method", "classmethod")) else None
        fam = ix.family(f.cls) if f.cls else []
        m = ix.modules[f.module]
        val = {p: {("param", p): SELF} for p in params}

        def store_root(e):
            if isinstance(e, ast.Name):
                if e.id in bound:
                    return None
                g = scan._global_of(f, e.id, bound, local_imports)
                return f"{g[0]}.{g[1]}" if g in self.store_mod else None
            if isinstance(e, ast.Attribute) and isinstance(e.value, ast.Name):
                b = e.value.id
                if selfname and b == selfname:
                    for k in fam:
                        if (k, e.attr) in self.store_cls:
                            return f"{k}.{e.attr}"
                elif b not in bound:
                    r = ix.resolve_static(m, e.value, local_imports)
                    if r and r[0] == "class":
                        for k in ix.ancestors(r[1]):
                            if (k, e.attr) in self.store_cls:
                                return f"{k}.{e.attr}"
            return None

        def callees_of(call):
            fn = call.func
            out = []
            if isinstance(fn, ast.Name):
                if fn.id in bound:
                    return out
                r = ix.resolve_static(m, fn, local_imports)
                if r and r[0] == "func":
                    out.append((r[1], False))
                elif r and r[0] == "class":
                    for ck in ix.ancestors(r[1]):
                        got = False
                        for ctor in ("__init__", "__post_init__"):
                            for k in ix.classes[ck].methods.get(ctor, []):
                                out.append((k, True))
                                got = True
                        if got:
                            break
            elif isinstance(fn, ast.Attribute):
                base = fn.value
                r = None
                if isinstance(base, ast.Name) and base.id not in bound:
                    r = ix.resolve_static(m, base, local_imports)
                if r and r[0] == "module":
                    rr = ix.resolve_import(r[1], fn.attr)
                    if rr and rr[0] == "func":
                        out.append((rr[1], False))
                    return out
                if r and r[0] == "external":
                    return out
                if isinstance(base, ast.Name) and selfname and base.id == selfname:
                    keys = ix.family_methods(f.cls, fn.attr)
                elif r and r[0] == "class":
                    keys = ix.family_methods(r[1], fn.attr)
                elif isinstance(base, ast.Call) and isinstance(base.func, ast.Name) and base.func.id == "super" and f.cls:
                    keys = [k for ck in ix.ancestors(f.cls)[1:] for k in ix.classes[ck].methods.get(fn.attr, [])]
                elif fn.attr in BUILTIN_METHOD_NAMES:
                    keys = []       # an unknown receiver and the name of a str/list/dict/set method: taken to be that method
                else:
                    keys = [k for k in self.by_leaf.get(fn.attr, []) if ix.funcs[k].cls]
                for k in keys:
                    out.append((k, ix.funcs[k].kind in ("method", "classmethod")))
            if out:
                self.callers_by_leaf.setdefault(_leaf(fn), set()).add(f.key)
            return out

        def bind(call, k, skip):
            """-> {param of callee k: taint value of the argument}"""
            g = ix.funcs[k]
            ga = g.node.args
            ps = [x.arg for x in ga.posonlyargs + ga.args]
            kwonly = [x.arg for x in ga.kwonlyargs]
            out = {}
            if skip and ps:
                if g.kind == "method" and isinstance(call.func, ast.Attribute):
                    tv = level(call.func.value)
                    if tv:
                        out[ps[0]] = tv
                ps = ps[1:]
            for i, arg in enumerate(call.args):
                tv = level(arg.value if isinstance(arg, ast.Starred) else arg)
                if not tv:
                    continue
                if isinstance(arg, ast.Starred):
                    for p in ps[i:]:
                        out[p] = _join(out.get(p, {}), _rel(tv, ELEM))
                elif i < len(ps):
                    out[ps[i]] = _join(out.get(ps[i], {}), tv)
                elif ga.vararg is not None:
                    out[ga.vararg.arg] = _join(out.get(ga.vararg.arg, {}), _rel(tv, HOLDER))
            for kw in call.keywords:
                tv = level(kw.value)
                if not tv:
                    continue
                if kw.arg is None:
                    for p in ps + kwonly:
                        out[p] = _join(out.get(p, {}), _rel(tv, ELEM))
                elif kw.arg in ps or kw.arg in kwonly:
                    out[kw.arg] = _join(out.get(kw.arg, {}), tv)
                elif ga.kwarg is not None:
                    out[ga.kwarg.arg] = _join(out.get(ga.kwarg.arg, {}), _rel(tv, HOLDER))
            return out

        def level(e):
            if e is None:
                return {}
            if isinstance(e, ast.Name):
                if e.id in val:
                    return val[e.id]
                sr = store_root(e)
                return {("store", sr): SELF} if sr else {}
            if isinstance(e, ast.Attribute):
                sr = store_root(e)
                if sr:
                    return {("store", sr): SELF}
                tv = _rel(level(e.value), ELEM)
                if not isinstance(e.value, ast.Name) or e.value.id in val or e.value.id in bound:
                    tv = _join(tv, {("field", e.attr): SELF})
                return tv
            if isinstance(e, ast.Subscript):
                return _rel(level(e.value), ELEM)
            if isinstance(e, ast.Starred):
                return level(e.value)
            if isinstance(e, ast.NamedExpr):
                tv = level(e.value)
                if isinstance(e.target, ast.Name) and tv:
                    val[e.target.id] = _join(val.get(e.target.id, {}), tv)
                return tv
            if isinstance(e, ast.IfExp):
                return _join(level(e.body), level(e.orelse))
            if isinstance(e, ast.BoolOp):
                tv = {}
                for v in e.values:
                    tv = _join(tv, level(v))
                return tv
            if isinstance(e, ast.Await):
                return level(e.value)
            if isinstance(e, (ast.List, ast.Tuple, ast.Set)):
                tv = {}
                for x in e.elts:
                    tv = _join(tv, level(x))
                return _rel(tv, HOLDER)
            if isinstance(e, ast.Dict):
                tv = {}
                for k, v in zip(e.keys, e.values):
                    tv = _join(tv, level(v) if k is not None else _rel(level(v), ELEM))
                return _rel(tv, HOLDER)
            if isinstance(e, (ast.ListComp, ast.SetComp, ast.GeneratorExp, ast.DictComp)):
                for g in e.generators:
                    tv = _rel(level(g.iter), ELEM)
                    if tv:
                        for t in ast.walk(g.target):
                            if isinstance(t, ast.Name):
                                val[t.id] = _join(val.get(t.id, {}), tv)
                tv = level(e.value) if isinstance(e, ast.DictComp) else level(e.elt)
                return _rel(tv, HOLDER)
            if isinstance(e, ast.Call):
                return call_level(e)
            return {}

        def call_level(c):
            fn = c.func
            leaf = _leaf(fn)
            if leaf == "deepcopy":
                return {}
            if isinstance(fn, ast.Name) and fn.id in SHALLOW_COPIERS and fn.id not in bound:
                tv = {}
                for x in c.args:
                    tv = _join(tv, _rel(level(x), ELEM))
                return _rel(tv, HOLDER)
            out = {}
            if isinstance(fn, ast.Attribute):
                rv = level(fn.value)
                if rv and fn.attr in ELEMENT_READS:
                    out = _join(out, _rel(rv, ELEM))
                if rv and fn.attr in VIEWS:
                    out = _join(out, _rel(_rel(rv, ELEM), HOLDER))
            for k, skip in callees_of(c):
                if k in self.src_funcs:
                    out = _join(out, {("src", self.src_funcs[k]): SELF})
                r = self.S[k].ret if k in self.S else {}
                if not r:
                    continue
                b = None
                for o, rel in r.items():
                    if o[0] == "param":
                        if b is None:
                            b = bind(c, k, skip)
                        tv = b.get(o[1])
                        if tv:
                            out = _join(out, tv if rel == SELF else _rel(tv, rel))
                    else:
                        out = _join(out, {o: rel})
            return out

        def map_ret(c, k, skip, r, b):
            out = {}
            for o, rel in r.items():
                if o[0] == "param":
                    if b[0] is None:
                        b[0] = bind(c, k, skip)
                    tv = b[0].get(o[1])
                    if tv:
                        out = _join(out, tv if rel == SELF else _rel(tv, rel))
                else:
                    out = _join(out, {o: rel})
            return out

        def call_parts(c, n):
            """taints of the n positions of the tuple a call returns, when every callee returns tuple literals of arity n"""
            cal = callees_of(c)
            if not cal or any(k in self.src_funcs for k, _ in cal):
                return None
            parts = [{} for _ in range(n)]
            for k, skip in cal:
                rp = self.S[k].ret_parts if k in self.S else None
                if rp is None or len(rp) != n:
                    if k in self.S and not self.S[k].ret:
                        continue
                    return None
                b = [None]
                for i in range(n):
                    parts[i] = _join(parts[i], map_ret(c, k, skip, rp[i], b))
            return parts

        def taint_name(name, tv):
            if not tv:
                return False
            cur = val.get(name, {})
            new = _join(cur, tv)
            if new != cur:
                val[name] = new
                return True
            return False

        # ---- fixpoint over the body (flow-insensitive)
        for _pass in range(8):
            grew = False
            for n in _own_nodes(node):
                if isinstance(n, (ast.Assign, ast.AnnAssign)):
                    if n.value is None:
                        continue
                    tv = level(n.value)
                    tgs = n.targets if isinstance(n, ast.Assign) else [n.target]
                    for t in tgs:
                        if isinstance(t, ast.Name):
                            grew |= taint_name(t.id, tv)
                        elif isinstance(t, (ast.Tuple, ast.List)):
                            parts = None
                            if isinstance(n.value, ast.Call) and not any(isinstance(x, ast.Starred) for x in t.elts):
                                parts = call_parts(n.value, len(t.elts))
                            elif isinstance(n.value, ast.Tuple) and len(n.value.elts) == len(t.elts):
                                parts = [level(x) for x in n.value.elts]
                            for i, el in enumerate(t.elts):
                                for x in ast.walk(el):
                                    if isinstance(x, ast.Name):
                                        grew |= taint_name(x.id, parts[i] if parts is not None else _rel(tv, ELEM))
                        elif isinstance(t, ast.Subscript):
                            sr = store_root(t.value)
                            if sr and isinstance(n.value, ast.Name):
                                # a value put into a process-lifetime store is shared from now on
                                grew |= taint_name(n.value.id, {("src", f"object stored into {sr} at {_site(ix, f, n)}"): SELF})
                            if tv and isinstance(t.value, ast.Name) and t.value.id in bound and not sr:
                                grew |= taint_name(t.value.id, _rel(tv, HOLDER))
                elif isinstance(n, ast.AugAssign) and isinstance(n.target, ast.Name):
                    # `s |= t` / `xs += ys` update s in place with the ELEMENTS of t: s holds them, it does not become t
                    grew |= taint_name(n.target.id, _rel(level(n.value), HOLDER))
                elif isinstance(n, (ast.For, ast.comprehension)):
                    tv = _rel(level(n.iter), ELEM)
                    for x in ast.walk(n.target):
                        if isinstance(x, ast.Name):
                            grew |= taint_name(x.id, tv)
                elif isinstance(n, ast.With):
                    for it in n.items:
                        if isinstance(it.optional_vars, ast.Name):
                            grew |= taint_name(it.optional_vars.id, level(it.context_expr))
                elif isinstance(n, ast.Call) and isinstance(n.func, ast.Attribute) and n.func.attr in STORING_METHODS:
                    recv = n.func.value
                    sr = store_root(recv)
                    for x in n.args:
                        if sr and isinstance(x, ast.Name):
                            grew |= taint_name(x.id, {("src", f"object stored into {sr} at {_site(ix, f, n)}"): SELF})
                        elif isinstance(recv, ast.Name) and recv.id in bound and not sr:
                            grew |= taint_name(recv.id, _rel(level(x), HOLDER))
            if not grew:
                break
        # ---- summary: writes, calls, attribute stores, returns
        ctor = f.name in ("__init__", "__post_init__", "__new__", "__setstate__")
        n_returns = 0

        def own_fresh(e):
            """inside a constructor, what hangs off `self` is the object under construction"""
            return ctor and selfname is not None and _root(e)[0] == selfname
        for n in _own_nodes(node):
            if isinstance(n, (ast.Assign, ast.AugAssign, ast.AnnAssign)):
                tgs = n.targets if isinstance(n, ast.Assign) else [n.target]
                for t in tgs:
                    for tt in (t.elts if isinstance(t, (ast.Tuple, ast.List)) else [t]):
                        if isinstance(tt, (ast.Subscript, ast.Attribute)) and not own_fresh(tt.value):
                            tv = level(tt.value)
                            if tv:
                                S.sinks.append((_site(ix, f, n), "store into", ast.unparse(tt.value)[:60], tv))
                        if isinstance(tt, ast.Attribute) and not isinstance(n, ast.AugAssign) and n.value is not None:
                            tv = level(n.value)
                            if tv:
                                S.fstores.append((tt.attr, tv, _site(ix, f, n)))
            elif isinstance(n, ast.Delete):
                for t in n.targets:
                    if isinstance(t, (ast.Subscript, ast.Attribute)) and not own_fresh(t.value):
                        tv = level(t.value)
                        if tv:
                            S.sinks.append((_site(ix, f, n), "del on", ast.unparse(t.value)[:60], tv))
            elif isinstance(n, ast.Call):
                if isinstance(n.func, ast.Attribute) and n.func.attr in MUT_METHODS and not own_fresh(n.func.value):
                    tv = level(n.func.value)
                    if tv:
                        S.sinks.append((_site(ix, f, n), f"mutating method .{n.func.attr}() on", ast.unparse(n.func.value)[:60], tv))
                cal = callees_of(n)
                if cal:
                    for k, skip in cal:
                        b = bind(n, k, skip)
                        if b:
                            S.calls.append((_site(ix, f, n), k, b))
                else:
                    r = None
                    if isinstance(n.func, (ast.Name, ast.Attribute)) and not (isinstance(n.func, ast.Name) and n.func.id in bound):
                        r = ix.resolve_static(m, n.func, local_imports)
                    if r and r[0] == "class":
                        # record-like class without __init__: positional / keyword arguments become attributes
                        flds = [s.target.id for ck in reversed(ix.ancestors(r[1])) for s in ix.classes[ck].node.body
                                if isinstance(s, ast.AnnAssign) and isinstance(s.target, ast.Name)]
                        for i, x in enumerate(n.args):
                            tv = level(x)
                            if tv and i < len(flds):
                                S.fstores.append((flds[i], tv, _site(ix, f, n)))
                        for kw in n.keywords:
                            tv = level(kw.value)
                            if tv and kw.arg:
                                S.fstores.append((kw.arg, tv, _site(ix, f, n)))
                    else:
                        for x in list(n.args) + [k.value for k in n.keywords]:
                            tv = level(x)
                            if any(o[0] in ("src", "store") for o in tv):
                                self.escapes.add(f"{ix.relfile(f.file)}:{n.lineno}: {ast.unparse(n.func)[:50]}({ast.unparse(x)[:30]})")
            elif isinstance(n, ast.Return) and n.value is not None:
                S.ret = _join(S.ret, level(n.value))
                if isinstance(n.value, ast.Tuple) and not any(isinstance(x, ast.Starred) for x in n.value.elts):
                    parts = [level(x) for x in n.value.elts]
                    if n_returns == 0:
                        S.ret_parts = parts
                    elif S.ret_parts is not None and len(S.ret_parts) == len(parts):
                        S.ret_parts = [_join(a_, b_) for a_, b_ in zip(S.ret_parts, parts)]
                    else:
                        S.ret_parts = None
                else:
                    S.ret_parts = None
                n_returns += 1
            elif isinstance(n, (ast.Yield, ast.YieldFrom)) and n.value is not None:
                tv = level(n.value)
                S.ret = _join(S.ret, _rel(tv, HOLDER) if isinstance(n, ast.Yield) else tv)
        if f.name in ("__init__", "__post_init__"):
            S.ret = {}
        return S

    # ------------------------------------------------------------------ phase 2
    def _resolve(self):
        P, F = {}, {}            # (func, param) -> level ; attr -> level
        self.why_param, self.why_field = {}, {}

        def res(tv, fk):
            best, why = 0, None
            for o, rel in tv.items():
                if o[0] == "src":
                    lv = _apply(rel, T0)
                elif o[0] == "store":
                    lv = _apply(rel, T1)
                elif o[0] == "param":
                    lv = _apply(rel, P.get((fk, o[1]), 0))
                else:
                    lv = _apply(rel, F.get(o[1], 0))
                if lv > best:
                    best, why = lv, o
            return best, why
        self.res = res
        changed = True
        it = 0
        while changed and it < 60:
            it += 1
            changed = False
            for fk, s in self.S.items():
                for site, k, b in s.calls:
                    for p, tv in b.items():
                        lv, why = res(tv, fk)
                        if lv > P.get((k, p), 0):
                            P[(k, p)] = lv
                            self.why_param[(k, p)] = (fk, site, why)
                            changed = True
                for attr, tv, site in s.fstores:
                    lv, why = res(tv, fk)
                    if lv < T0:
                        continue        # only a shared object itself makes an attribute a carrier (not a private container of such)
                    if lv > F.get(attr, 0):
                        F[attr] = lv
                        self.why_field[attr] = (fk, site, why)
                        changed = True
        self.P, self.F = P, F
        self.failures = []
        for fk, s in self.S.items():
            for site, what, obj, tv in s.sinks:
                lv, why = res(tv, fk)
                if lv == T0:
                    self.failures.append({"function": fk, "site": site, "what": f"{what} a shared object", "object": obj,
                                          "how the shared object got here": self.explain(fk, why)})

    def explain(self, fk, origin, depth=0):
        out = []
        seen = set()
        while origin is not None and len(out) < 10 and (fk, origin) not in seen:
            seen.add((fk, origin))
            if origin[0] in ("src", "store"):
                out.append(f"SOURCE: {origin[1]}" if origin[0] == "src" else f"SOURCE: read from the process-lifetime store {origin[1]}")
                break
            if origin[0] == "param":
                w = self.why_param.get((fk, origin[1]))
                if w is None:
                    break
                out.append(f"parameter `{origin[1]}` of {fk} <- call at {w[1]}")
                fk, origin = w[0], w[2]
            else:
                w = self.why_field.get(origin[1])
                if w is None:
                    break
                out.append(f"attribute `.{origin[1]}` <- stored at {w[1]}")
                fk, origin = w[0], w[2]
        return out


# ================================================================================================ clauses
class Clauses:
    def __init__(self):
        self.n = self.ok = 0
        self.failed, self.undecided, self.samples = [], [], []

    def clause(self, cid, failures=(), undecided=(), stale=(), sample=None):
        self.n += 1
        name = f"{PROP}/state/{cid}"
        if failures:
            for suffix, fn, detail in list(failures)[:6]:
                nm = name + (f"[{suffix}]" if suffix else "")
                self.failed.append({"name": nm, "id": nm, "kind": "state", "status": "failed", "function": fn, "detail": detail,
                                    "reproduced": False, "backend": "syntactic state inventory / taint analysis"})
        elif undecided or stale:
            self.undecided.append({"function": name, "obligation": name,
                                   "reason": (["stale-declaration"] + list(stale)) if stale else list(undecided)})
        else:
            self.ok += 1
            if sample is not None:
                self.samples.append(dict({"obligation": name, "backend": "syntactic state inventory / taint analysis"}, **sample))


def _family_roots(ix, ckey):
    return set(ix.ancestors(ckey))


def inventory_clauses():
    t0 = time.time()
    ix = _index()
    scan = Scan(ix)
    C = Clauses()
    reach = set()
    missing_entries = []
    for e in ENTRY:
        if e not in ix.funcs:
            missing_entries.append(e)
            continue
        reach |= set(ix.reach(e))

    def on_path(fkey):
        f = ix.funcs.get(fkey)
        return f is not None and fkey in reach and not f.module.startswith(OFF_PATH_MODULES)
    C.clause("lint-path/entry-points-exist", stale=[f"entry point {e} not found" for e in missing_entries],
             sample={"entry points": len(ENTRY), "functions on the lint path": len(reach), "functions": len(ix.funcs)})

    # ---- (1a) functools caches
    und, seen = [], []
    for k, info in sorted(scan.caches.items()):
        seen.append(k)
        if k in DECLARED_CACHES:
            continue
        if not on_path(k):
            continue
        if info["returns"] and IMMUTABLE_ANN.match(info["returns"].replace(" ", "")):
            continue        # a memo of an immutable value: nothing a consumer could write
        und.append(f"undeclared process-lifetime cache on the lint path: {k} at {info['site']} (@{info['decorator']}, returns "
                   f"{info['returns'] or 'an unannotated value'}): nobody has argued that its value cannot carry one lint's state into the next")
    C.clause("inventory/functools-caches", undecided=und, stale=[f"declared cache {k} no longer exists / is no longer cached" for k in DECLARED_CACHES if k not in scan.caches],
             sample={"caches": {k: scan.caches[k]["decorator"] for k in seen}, "declared": DECLARED_CACHES})

    # ---- (1b) caching decorators of the package
    und = [f"undeclared caching decorator {d} (used by {len(us)} functions, e.g. {us[0]})" for d, us in sorted(scan.cache_decorated.items())
           if d not in DECLARED_CACHE_DECORATORS and any(on_path(u) for u in us)]
    C.clause("inventory/package-cache-decorators", undecided=und,
             stale=[f"declared caching decorator {d} is not used any more" for d in DECLARED_CACHE_DECORATORS if d not in scan.cache_decorated],
             sample={"decorators": {d: len(us) for d, us in scan.cache_decorated.items()}})
    _parse_context_cache_clause(ix, C)

    # ---- (1c) cached_property
    und, per_file, declared = [], 0, 0
    roots = set(PER_FILE_CLASS_ROOTS)
    for k, ck in sorted(scan.cached_props.items()):
        if ck and (_family_roots(ix, ck) & roots):
            per_file += 1
            continue
        if k in DECLARED_CACHED_PROPERTIES:
            declared += 1
            continue
        if not on_path(k):
            continue
        f = ix.funcs[k]
        ret = ast.unparse(f.node.returns) if f.node.returns is not None else None
        if ret and IMMUTABLE_ANN.match(ret.replace(" ", "")):
            continue
        und.append(f"cached_property {k} on a class whose instances are not known to die with one file (returns {ret}): "
                   f"declare the lifetime of {ck} or why the cached value cannot leak between lints")
    C.clause("inventory/cached-properties", undecided=und,
             stale=[f"declared cached_property {k} not found" for k in DECLARED_CACHED_PROPERTIES if k not in scan.cached_props]
             + [f"declared per-file class {k} not found" for k in PER_FILE_CLASS_ROOTS if k not in ix.classes],
             sample={"cached properties": len(scan.cached_props), "on per-file classes": per_file, "declared": declared})

    # ---- (1d) module-level state written at run time
    und = []
    for g, info in sorted(scan.module_state.items()):
        ws = [w for w in info["writers"] if on_path(w[0])]
        if g in DECLARED_MODULE_STATE or not ws:
            continue
        und.append(f"undeclared module-level state {g[0]}.{g[1]} (= {info['init']}) is written at run time on the lint path by "
                   + "; ".join(f"{w[0]} [{w[2]}] {w[1]}" for w in ws[:3]))
    C.clause("inventory/module-level-state-written-at-run-time", undecided=und,
             stale=[f"declared module state {g[0]}.{g[1]} is no longer written at run time" for g in DECLARED_MODULE_STATE if g not in scan.module_state],
             sample={"written module-level names": {f"{g[0]}.{g[1]}": [w[0] for w in i["writers"]][:3] for g, i in scan.module_state.items()}})

    # ---- (1e) class-level state written at run time
    und = []
    for g, info in sorted(scan.class_state.items()):
        ws = [w for w in info["writers"] if on_path(w[0])]
        if g in DECLARED_CLASS_STATE or not ws:
            continue
        und.append(f"undeclared class-level state {g[0]}.{g[1]} (= {info['init']}) is written at run time on the lint path by "
                   + "; ".join(f"{w[0]} [{w[2]}] {w[1]}" for w in ws[:3]))
    C.clause("inventory/class-level-state-written-at-run-time", undecided=und,
             stale=[f"declared class state {g[0]}.{g[1]} is no longer written at run time" for g in DECLARED_CLASS_STATE if g not in scan.class_state],
             sample={"written class-level names": {f"{g[0]}.{g[1]}": [w[0] for w in i["writers"]][:4] for g, i in scan.class_state.items()}})

    # ---- (1f) __dict__ stores / dynamic setattr
    und = [f"undeclared __dict__ store / non-constant setattr in {k}: {sites[0]}" for k, sites in sorted(scan.dunder_dict.items())
           if k not in DECLARED_DUNDER_DICT and on_path(k)]
    C.clause("inventory/dunder-dict-stores", undecided=und, sample={"sites": {k: v[0] for k, v in scan.dunder_dict.items()}})

    # ---- (1g) mutable default arguments that are written
    fails = [(k, k, {"a mutable default argument is written: it is one object for the whole process": v}) for k, v in sorted(scan.mutable_defaults.items())
             if on_path(k)]
    C.clause("inventory/no-written-mutable-default-argument", failures=fails, sample={"functions checked": len(ix.funcs)})

    # ---- (2) taint
    T = Taint(ix, scan, on_path)
    T.run()
    byfn = {}
    for d in sorted(T.failures, key=lambda d: (d["function"], d["site"])):
        if on_path(d["function"]):
            byfn.setdefault(d["function"], []).append(d)
    # the most direct flows first (a long chain through by-name attributes is the least credible); at most 4 functions reported
    ranked = sorted(byfn.items(), key=lambda kv: (min(len(d["how the shared object got here"]) for d in kv[1]), kv[0]))
    fails = []
    for fk, ds in ranked[:4]:
        best = min(ds, key=lambda d: len(d["how the shared object got here"]))
        fails.append((fk, fk, {"a shared object is written in": fk, "write sites": [f"{d['site']}   [{d['what']}: {d['object']}]" for d in ds][:8],
                               "how the shared object got here": best["how the shared object got here"]}))
    if len(ranked) > 4:
        fails[-1][2]["further functions that may write a shared object (longer, by-name flows)"] = [fk for fk, _ in ranked[4:]][:40]
    C.clause("shared-values-never-written", failures=fails,
             sample={"sources": sorted(T.src_funcs) + sorted(f"store {g[0]}.{g[1]}" for g in T.store_mod | T.store_cls),
                     "parameters that may receive a shared object": len(T.P),
                     "attributes that may hold a shared object": sorted(T.F)[:30], "function summaries computed": T.rounds})
    _CACHE["taint"] = T
    _CACHE["scan"] = scan
    _block_uuid_clause(ix, C)
    _allowed_map_tail_clause(ix, C)
    trusted = ["builtin / third-party callees do not write to a shared object handed to them: " + e for e in sorted(T.escapes)[:25]]
    return C, trusted, time.time() - t0


def _parse_context_cache_clause(ix, C):
    """the one caching decorator of the package returns a memoised value only under `== parse_context.uuid`"""
    k = "sqlfluff.core.parser.grammar.base:cached_method_for_parse_context"
    f = ix.funcs.get(k)
    if f is None:
        C.clause("cache-decorator/guarded-by-parse-context-uuid", stale=[f"{k} not found"])
        return
    fails, rets = [], 0
    inner = [n for n in ast.walk(f.node) if isinstance(n, ast.FunctionDef) and n is not f.node]
    for w in inner:
        # every `return <something read from self.__dict__>` sits under an `if` whose test mentions parse_context.uuid
        def visit(stmts, guarded):
            nonlocal rets
            for s in stmts:
                if isinstance(s, ast.If):
                    g = guarded or "parse_context.uuid" in ast.unparse(s.test)
                    visit(s.body, g)
                    visit(s.orelse, guarded)
                elif isinstance(s, ast.Try):
                    visit(s.body, guarded)
                    for h in s.handlers:
                        visit(h.body, guarded)
                    visit(s.orelse, guarded)
                    visit(s.finalbody, guarded)
                elif isinstance(s, (ast.For, ast.While, ast.With)):
                    visit(s.body, guarded)
                elif isinstance(s, ast.Return) and s.value is not None:
                    names = {n.id for n in ast.walk(s.value) if isinstance(n, ast.Name)}
                    if "cache_tuple" in names or "__dict__" in ast.unparse(s.value):
                        rets += 1
                        if not guarded:
                            fails.append(("", k, {"memoised value returned without comparing the parse context uuid":
                                                  f"{ix.relfile(f.file)}:{s.lineno}  {ast.unparse(s)[:100]}"}))
        visit(w.body, False)
    stores = [n for n in ast.walk(f.node) if isinstance(n, ast.Assign) and any("__dict__" in ast.unparse(t) for t in n.targets)]
    bad = [s for s in stores if "parse_context.uuid" not in ast.unparse(s.value)]
    for s in bad:
        fails.append(("store", k, {"memo stored without the parse context uuid": f"{ix.relfile(f.file)}:{s.lineno}  {ast.unparse(s)[:100]}"}))
    C.clause("cache-decorator/guarded-by-parse-context-uuid", failures=fails,
             stale=[] if (rets and stores) else ["no memoised return / store found in the decorator (shape changed)"],
             sample={"guarded returns": rets, "stores": len(stores)})


ORDERING_CALLS = {"sorted", "min", "max", "hash", "int", "str", "repr", "format", "id"}


def _block_uuid_clause(ix, C):
    """what a later file can see of BlockTracker._map is a uuid VALUE: it must be used as an opaque token only -- passed on,
    tested for presence, compared for (in)equality or used as a dict key; never ordered, hashed into an order, converted or
    printed into anything a rule reports.  (`.hex` for the human-readable parse tree and the rust bridge are declared.)"""
    ALLOWED_HEX = {"sqlfluff.core.parser.segments.meta:MetaSegment._suffix", "sqlfluff.core.parser.segments.meta:TemplateSegment._suffix",
                   "sqlfluff.core.parser.rust_parser:RustParser._convert_to_rs_token",
                   "sqlfluff.core.parser.rust_parser:RustParser._segment_to_rstoken", "sqlfluff.core.parser.rust_parser:_segment_to_rs_token"}
    fails, uses = [], 0
    for f in ix.funcs.values():
        if f.kind == "module":
            continue
        parents = {}
        for n in _own_nodes(f.node):
            for c in ast.iter_child_nodes(n):
                parents[c] = n
        for n in _own_nodes(f.node):
            if isinstance(n, ast.Attribute) and n.attr == "block_uuid" and isinstance(n.ctx, ast.Load):
                uses += 1
                p = parents.get(n)
                bad = None
                if isinstance(p, ast.Attribute):
                    if not (p.attr == "hex" and (f.key in ALLOWED_HEX or f.module.endswith("rust_parser") or f.name == "_suffix")):
                        bad = f"attribute .{p.attr} of a block uuid"
                elif isinstance(p, ast.Compare):
                    if not all(isinstance(o, (ast.Eq, ast.NotEq, ast.Is, ast.IsNot, ast.In, ast.NotIn)) for o in p.ops):
                        bad = "ordering comparison of block uuids"
                elif isinstance(p, ast.Call) and n in p.args and _leaf(p) in ORDERING_CALLS:
                    bad = f"{_leaf(p)}() of a block uuid"
                elif isinstance(p, (ast.BinOp, ast.JoinedStr, ast.FormattedValue)):
                    bad = "arithmetic / formatting of a block uuid"
                if bad:
                    fails.append((f"{f.key}@{n.lineno}", f.key, {"block uuid is not used as an opaque token": bad, "site": _site(ix, f, p if p is not None else n)}))
    C.clause("block-uuid-opaque", failures=fails, stale=[] if uses >= 4 else [f"only {uses} reads of .block_uuid found"], sample={"reads of .block_uuid": uses})


def _allowed_map_tail_clause(ix, C):
    """Linter.allowed_rule_ref_map is under two pyvc region contracts (contracts/c32_state.py); the statements OUTSIDE them must
    not be able to write the map: the statement between the regions mentions neither map name, and the final statement is a
    `return` of a dict comprehension (a new dict) that contains no store, no walrus and no call but the read-only
    .items() / .intersection() / .get() / .keys() / .values()."""
    k = "sqlfluff.core.linter.linter:Linter.allowed_rule_ref_map"
    f = ix.funcs.get(k)
    cid = "allowed-rule-ref-map/statements-outside-the-regions"
    if f is None:
        C.clause(cid, stale=[f"{k} not found"])
        return
    from . import c32_state
    body = [s for s in f.node.body if not (isinstance(s, ast.Expr) and isinstance(s.value, ast.Constant))]
    first = lambda s: ast.get_source_segment(open(f.file).read(), s).splitlines()[0].strip()
    heads = [first(s) for s in body]
    r1, r2 = c32_state.allowed_rule_ref_map_frame_write.region, c32_state.allowed_rule_ref_map_frame_read.region
    try:
        a, b, c, d = heads.index(r1[0]), heads.index(r1[1]), heads.index(r2[0]), heads.index(r2[1])
    except ValueError as e:
        C.clause(cid, stale=[f"a region anchor is not a top-level statement of the function any more: {e}"])
        return
    fails, stale = [], []
    if not (a == 0 and a < b <= c < d == len(body) - 1):
        stale.append(f"regions do not tile the function as declared: statements {a}..{b}, {c}..{d} of {len(body)}")
    maps = {"reference_map", "output_map"}
    for s in body[b:c]:
        names = {n.id for n in ast.walk(s) if isinstance(n, ast.Name)}
        if names & maps:
            fails.append(("between-the-regions", k, {"a statement outside the region contracts mentions the map": _site(ix, f, s)}))
    last = body[-1]
    ok = isinstance(last, ast.Return) and isinstance(last.value, (ast.DictComp, ast.Dict))
    if not ok:
        # returning the map itself (or anything that is not a new dict) is for the region contracts to judge: cannot be decided here
        stale.append(f"the final statement is not `return {{dict comprehension}}`: {_site(ix, f, last)}")
    else:
        for n in ast.walk(last):
            if isinstance(n, ast.NamedExpr) or (isinstance(n, ast.Call) and not (isinstance(n.func, ast.Attribute) and n.func.attr in
                                                                                   ("items", "intersection", "get", "keys", "values", "copy"))):
                fails.append(("final-return", k, {"the final return may write (a call that is not a read-only container method, or a walrus)": _site(ix, f, n)}))
    C.clause(cid, failures=fails, stale=stale, sample={"statements": len(body), "write region": [a, b], "read region": [c, d]})


def state_inventory(tier, seed):
    C, trusted, wall = inventory_clauses()
    ix = _index()
    return {"name": "C32-state-inventory", "obligations": C.n, "discharged": C.ok, "failed": C.failed, "undecided": C.undecided,
            "samples": C.samples[:4], "backend": "syntactic state inventory / taint analysis",
            "trusted": trusted + [f"state inventory over {ix.files} modules / {len(ix.funcs)} functions ({wall:.1f}s); call and field resolution by "
                                  "name (an over-approximation of dispatch); instance attributes of long-lived objects are NOT inventoried"]}
