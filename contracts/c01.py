"""C01 -- lexing is lossless, ordered and total (element level).   Functions under contract:
   sqlfluff.core.parser.lexer: StringLexer.search, StringLexer._match, StringLexer._trim_match, StringLexer._subdivide,
                               StringLexer.match, PyLexer.lex_match, PyLexer.map_template_slices, PyLexer.lex
Assumed (regex wrappers): RegexLexer._match / RegexLexer.search satisfy the same interface contracts.
Bounded (labelled): _iter_segments / _handle_zero_length_slice (element -> token positions for templated files).
Strings are z3 native strings here (concatenation / prefix reasoning, no position quantifiers).
"""
from pyvc.dsl import assumed, contract, external, spec, lemma, implies, inline, ref_class, rec_class, register_fold
from pyvc.ty import INT, BOOL, Text, StrN, TList, TTuple, TOpt, TRec, TRef, SLICE, TOpaque
from pyvc import ops as _ops
from pyvc import replay as _replay

PROP = "C01"

SL = TRef("StringLexer")
StringLexer = ref_class("sqlfluff.core.parser.lexer:StringLexer", name=Text, template=StrN,
                        subdivider=TOpt(SL), trim_post_subdivide=TOpt(SL))
LexedElement = rec_class("sqlfluff.core.parser.lexer:LexedElement", raw=StrN, matcher=SL)
LexMatch = rec_class("sqlfluff.core.parser.lexer:LexMatch", forward_string=StrN, elements=TList(LexedElement))
TemplateElement = rec_class("sqlfluff.core.parser.lexer:TemplateElement", raw=StrN, template_slice=SLICE, matcher=SL)
TemplatedFileN = ref_class("sqlfluff.core.templaters.base:TemplatedFile", templated_str=StrN, source_str=StrN)
PyLexer = ref_class("sqlfluff.core.parser.lexer:PyLexer", lexer_matchers=TList(SL), last_resort_lexer=SL)
inline("sqlfluff.core.parser.lexer:LexMatch.__bool__")
inline("sqlfluff.core.parser.lexer:TemplateElement.from_element")
inline("sqlfluff.core.helpers.slice:offset_slice")
inline("sqlfluff.core.templaters.base:TemplatedFile.__str__")
_ops.REC_TRUTHY["LexMatch"] = lambda v: _ops.seq_len(_ops.rec_get(v, "elements")) > 0


# ------------------------------------------------------------------ specification
@spec(recursive=True)
def jk(xs: TList(LexedElement), k: INT) -> StrN:
    """concatenation of the raws of the first k elements"""
    return "" if k <= 0 else jk(xs, k - 1) + xs[k - 1].raw


@spec
def joined(xs):
    """lossless + ordered: the elements, in order, concatenate to the text"""
    return jk(xs, len(xs))


@spec
def nonempty(xs):
    return all(len(xs[i].raw) > 0 for i in range(len(xs)))


@spec
def wf_lexer(m):
    """a matcher whose literal template is non-empty (checked for every bundled dialect: EXTRA below)"""
    return len(m.template) > 0


@spec(uninterpreted=True)
def is_regex(m: SL) -> BOOL:
    """dynamic class of the matcher: RegexLexer (which overrides _match and search)"""
    return type(m).__name__ == "RegexLexer"


def _matches_axiom(m, s, result):
    # a literal matcher matches exactly the strings that start with its template
    return implies(not is_regex(m), result == s.startswith(m.template))


@spec(uninterpreted=True, axiom=_matches_axiom)
def matches(m: SL, s: StrN) -> BOOL:
    """matcher m matches a (non-empty) prefix of s -- matchers are deterministic functions of the string"""
    return len(s) > 0 and bool(m.match(s))


@lemma(measure=lambda xs, ys, k: k, hyps=lambda xs, ys, k: ((xs, ys, k - 1),), props=(PROP,))
def L_jk_prefix(xs: TList(LexedElement), ys: TList(LexedElement), k: INT):
    return implies(all(xs[j] == ys[j] for j in range(0, k)), jk(xs, k) == jk(ys, k))


@lemma(measure=lambda a, b, r, k: k, hyps=lambda a, b, r, k: ((a, b, r, k - 1),), props=(PROP,),
       unfold=lambda a, b, r, k: L_jk_prefix(r, a, len(a)))
def L_jk_concat(a: TList(LexedElement), b: TList(LexedElement), r: TList(LexedElement), k: INT):
    return implies(len(r) == len(a) + len(b) and 0 <= k <= len(b)
                   and all(r[j] == a[j] for j in range(0, len(a)))
                   and all(r[len(a) + j] == b[j] for j in range(0, len(b))),
                   jk(r, len(a) + k) == jk(a, len(a)) + jk(b, k))


@lemma(measure=lambda xs, k, m: m - k, hyps=lambda xs, k, m: ((xs, k, m - 1),), props=(PROP,))
def L_jk_mono(xs: TList(LexedElement), k: INT, m: INT):
    return implies(0 <= k <= m, jk(xs, m).startswith(jk(xs, k)))


register_fold(TList(LexedElement), jk, L_jk_prefix, L_jk_concat)


# ------------------------------------------------------------------ matcher interface
@contract("sqlfluff.core.parser.lexer:StringLexer.search", PROP)
class search:
    """interface contract (RegexLexer.search: assumed to satisfy it -- regex wrapper)"""
    types = {"self": StringLexer, "forward_string": StrN, "loc": INT}
    ret = TOpt(TTuple(INT, INT))
    opts = {"covers_overrides": True}

    def requires(self, forward_string):
        return wf_lexer(self)

    def ensures(self, forward_string, result):
        return result is None or 0 <= result[0] < result[1] <= len(forward_string)


@contract("sqlfluff.core.parser.lexer:StringLexer._match", PROP)
class _match:
    """interface contract (RegexLexer._match: assumed to satisfy it): a match is a non-empty prefix"""
    types = {"self": StringLexer, "forward_string": StrN}
    ret = TOpt(LexedElement)
    opts = {"covers_overrides": True}

    def requires(self, forward_string):
        return wf_lexer(self)

    def ensures(self, forward_string, result):
        return ((result is None or (len(result.raw) > 0 and forward_string.startswith(result.raw)))
                and implies(len(forward_string) > 0, (result is not None) == matches(self, forward_string)))

    def hint_dynamic_class(self, forward_string):
        return not is_regex(self)       # StringLexer._match's body runs only when RegexLexer does not override it


@contract("sqlfluff.core.parser.lexer:StringLexer._trim_match", PROP)
class _trim_match:
    types = {"self": StringLexer, "matched_str": StrN, "elem_buff": TList(LexedElement), "content_buff": StrN, "str_buff": StrN}
    ret = TList(LexedElement)

    def requires(self, matched_str):
        return self.trim_post_subdivide is None or wf_lexer(self.trim_post_subdivide)

    def ensures(self, matched_str, result):
        return joined(result) == matched_str and nonempty(result)

    def inv_1(self, matched_str, elem_buff, content_buff, str_buff):
        return joined(elem_buff) + content_buff + str_buff == matched_str and nonempty(elem_buff)

    def dec_1(self, str_buff):
        return len(str_buff)


@contract("sqlfluff.core.parser.lexer:StringLexer._subdivide", PROP)
class _subdivide:
    types = {"self": StringLexer, "matched": LexedElement, "elem_buff": TList(LexedElement), "str_buff": StrN}
    ret = TList(LexedElement)

    def requires(self, matched):
        return (len(matched.raw) > 0
                and (self.subdivider is None or wf_lexer(self.subdivider))
                and (self.trim_post_subdivide is None or wf_lexer(self.trim_post_subdivide)))

    def ensures(self, matched, result):
        return joined(result) == matched.raw and nonempty(result) and len(result) > 0

    def inv_1(self, matched, elem_buff, str_buff):
        return (joined(elem_buff) + str_buff == matched.raw and nonempty(elem_buff)
                and (len(elem_buff) > 0 or len(str_buff) > 0))

    def dec_1(self, str_buff):
        return len(str_buff)


@spec
def matcher_ok(m):
    return (wf_lexer(m) and (m.subdivider is None or wf_lexer(m.subdivider))
            and (m.trim_post_subdivide is None or wf_lexer(m.trim_post_subdivide)))


@contract("sqlfluff.core.parser.lexer:StringLexer.match", PROP)
class match:
    types = {"self": StringLexer, "forward_string": StrN}
    ret = LexMatch
    raises = {"ValueError": lambda self, forward_string: len(forward_string) == 0}

    def requires(self, forward_string):
        return matcher_ok(self)

    def ensures(self, forward_string, result):
        return (joined(result.elements) + result.forward_string == forward_string and nonempty(result.elements)
                # progress: a match consumes at least one character
                and implies(len(result.elements) > 0, len(result.forward_string) < len(forward_string))
                and implies(len(result.elements) == 0, result.forward_string == forward_string)
                and (len(result.elements) > 0) == matches(self, forward_string))


@contract("sqlfluff.core.parser.lexer:PyLexer.lex_match", PROP)
class lex_match:
    types = {"forward_string": StrN, "lexer_matchers": TList(SL), "elem_buff": TList(LexedElement)}
    ret = LexMatch

    def requires(forward_string, lexer_matchers):
        return all(matcher_ok(lexer_matchers[i]) for i in range(len(lexer_matchers)))

    def ensures(forward_string, lexer_matchers, result, old):
        return (joined(result.elements) + result.forward_string == old.forward_string and nonempty(result.elements)
                # it only stops at the end of the text or where no matcher matches
                and (len(result.forward_string) == 0
                     or all(not matches(lexer_matchers[i], result.forward_string) for i in range(len(lexer_matchers)))))

    def inv_1(forward_string, elem_buff, old):
        return joined(elem_buff) + forward_string == old.forward_string and nonempty(elem_buff)

    def inv_2(forward_string, lexer_matchers, elem_buff, old, _head1, _i):
        return (forward_string == _head1.forward_string and elem_buff == _head1.elem_buff
                and joined(elem_buff) + forward_string == old.forward_string and nonempty(elem_buff)
                and len(forward_string) > 0
                and all(not matches(lexer_matchers[j], forward_string) for j in range(0, _i)))

    def dec_1(forward_string):
        return len(forward_string)


@contract("sqlfluff.core.parser.lexer:PyLexer.map_template_slices", PROP)
class map_template_slices:
    types = {"elements": TList(LexedElement), "template": TemplatedFileN, "idx": INT, "templated_buff": TList(TemplateElement)}
    ret = TList(TemplateElement)

    def requires(elements, template):
        # lossless lexing (PyLexer.lex establishes it): then the consistency check can never fire
        return joined(elements) == template.templated_str

    def ensures(elements, template, result):
        return (len(result) == len(elements)
                # contiguous, increasing positions in the rendered text; lengths = raw lengths
                and all(result[k].raw == elements[k].raw
                        and result[k].template_slice.start == len(jk(elements, k))
                        and result[k].template_slice.stop == len(jk(elements, k)) + len(elements[k].raw)
                        for k in range(len(result))))

    def inv_1(elements, template, idx, templated_buff, _i):
        return (idx == len(jk(elements, _i)) and len(templated_buff) == _i
                and all(templated_buff[k].raw == elements[k].raw
                        and templated_buff[k].template_slice.start == len(jk(elements, k))
                        and templated_buff[k].template_slice.stop == len(jk(elements, k)) + len(elements[k].raw)
                        for k in range(0, _i)))

    def hint_inv_1(elements, _i):
        return L_jk_mono(elements, _i + 1, len(elements))


TRUSTED = ["RegexLexer._match / RegexLexer.search (thin wrappers over the `regex` library) satisfy the interface contracts of "
           "StringLexer._match / search: a match is a non-empty prefix; a search result is a non-empty in-range span",
           "z3 sequence theory for native strings"]
NOT_COVERED = ["_iter_segments / _handle_zero_length_slice / elements_to_segments: token source positions for templated files "
               "(bounded only); violations_from_segments"]


# ------------------------------------------------------------------ PyLexer.lex: the element loop is lossless
@spec(uninterpreted=True)
def covers(lx: PyLexer) -> BOOL:
    """the dialect's matchers together with its last-resort matcher accept every non-empty string
    (evaluated per dialect: EXTRA `dialect_matchers_wf` and C29's lexer-total obligations)"""
    return True


@assumed(props=(PROP,))
def A_covers(lx: PyLexer, s: StrN):
    """definition of `covers` (the only fact assumed about it)"""
    return implies(covers(lx) and len(s) > 0
                   and all(not matches(lx.lexer_matchers[i], s) for i in range(len(lx.lexer_matchers))),
                   matches(lx.last_resort_lexer, s))


@external("sqlfluff.core.parser.lexer:PyLexer.elements_to_segments", PROP)
class elements_to_segments:
    """havoc (bounded stand-in below): some tuple of segments"""
    types = {"self": PyLexer, "elements": TList(TemplateElement), "templated_file": TemplatedFileN}
    ret = TOpaque("Segments")

    def ensures(self, elements, templated_file, result):
        return True


@external("sqlfluff.core.parser.lexer:PyLexer.violations_from_segments", PROP)
class violations_from_segments:
    types = {"segments": TOpaque("Segments")}
    ret = TOpaque("LexErrors")

    def ensures(segments, result):
        return True


@contract("sqlfluff.core.parser.lexer:PyLexer.lex", PROP)
class lex:
    types = {"self": PyLexer, "raw": TemplatedFileN, "element_buffer": TList(LexedElement), "str_buff": StrN}
    ghost_out = {"element_buffer": TList(LexedElement)}
    uses_axioms = [A_covers]
    # with a total last-resort matcher nothing is raised: in particular neither the "Fatal. Unable to lex" SQLLexError
    # nor map_template_slices' consistency ValueError (its precondition is the loop's postcondition)

    def requires(self, raw):
        return (all(matcher_ok(self.lexer_matchers[i]) for i in range(len(self.lexer_matchers)))
                and matcher_ok(self.last_resort_lexer) and covers(self))

    def ensures(self, raw, result, element_buffer):
        # lossless, ordered: the lexed elements concatenate to exactly the rendered SQL; none is empty
        return joined(element_buffer) == raw.templated_str and nonempty(element_buffer)

    def inv_1(self, raw, element_buffer, str_buff):
        return joined(element_buffer) + str_buff == raw.templated_str and nonempty(element_buffer)

    def dec_1(self, str_buff):
        return len(str_buff)


def _build_lexer(rng, gen, depth=0):
    from sqlfluff.core.parser.lexer import StringLexer as S, RegexLexer as R
    from sqlfluff.core.parser.segments import CodeSegment, WhitespaceSegment
    kind = rng.random()
    sub = trim = None
    if depth < 1 and rng.random() < 0.5:
        sub = _build_lexer(rng, gen, depth + 1)
    if depth < 1 and rng.random() < 0.5:
        trim = _build_lexer(rng, gen, depth + 1)
    if kind < 0.5:
        return S("s", rng.choice(["a", "ab", "-", "--", " ", "b"]), CodeSegment, subdivider=sub, trim_post_subdivide=trim)
    return R("r", rng.choice([r"a+", r"[ab]+", r"\s+", r"-+", r"[^\s]+", r"b|-"]), CodeSegment, subdivider=sub, trim_post_subdivide=trim)


_replay.BUILDERS["StringLexer"] = _build_lexer


# ------------------------------------------------------------------ preconditions evaluated on the bundled dialect data
def dialect_matchers_wf(tier, seed):
    """requires of PyLexer.lex, evaluated exhaustively on the constant lexer data of every bundled dialect:
    every matcher (and its subdivider / trimmer) has a non-empty template; the last-resort matcher is total on a
    probe set (full character sweep: C29)."""
    from sqlfluff.core.dialects import dialect_readout, dialect_selector
    from sqlfluff.core import FluffConfig
    from sqlfluff.core.parser.lexer import PyLexer as L
    obligations, failed, samples = 0, [], []
    for d in dialect_readout():
        lx = L(config=FluffConfig(overrides={"dialect": d.label}))
        ms = list(lx.lexer_matchers) + [lx.last_resort_lexer]
        for m in ms:
            for sub in (m, m.subdivider, m.trim_post_subdivide):
                if sub is None:
                    continue
                obligations += 1
                if not (isinstance(sub.template, str) and len(sub.template) > 0):
                    failed.append({"name": f"C01/{d.label}/matcher-wf[{m.name}]", "id": f"C01/{d.label}/matcher-wf[{m.name}]",
                                   "kind": "precondition", "status": "failed", "function": "sqlfluff.core.parser.lexer:PyLexer.lex",
                                   "detail": {"matcher": repr(sub)}, "reproduced": True})
        obligations += 1
        probes = ["\r", "a\rb", "\x0b", "\x0c", "\x85", "\u2028", "\xa0", "a", " ", "\n", "\t", "\x00", "\x7f", "é", "€", "\U0001F600", "`", "$", "@", "#", "\\", "~", "^", "?", "a b", "'", '"']
        bad = [p for p in probes if not any(m.match(p).elements for m in ms)]
        if bad:
            failed.append({"name": f"C01/{d.label}/last-resort-total", "id": f"C01/{d.label}/last-resort-total", "kind": "precondition",
                           "status": "failed", "function": "sqlfluff.core.parser.lexer:PyLexer.lex", "detail": {"unmatched": bad},
                           "reproduced": True})
        elif len(samples) < 3:
            samples.append({"obligation": f"C01/{d.label}/last-resort-total", "probes": len(probes), "matchers": len(ms)})
    return {"name": "C01-dialect-matcher-preconditions", "obligations": obligations, "discharged": obligations - len(failed),
            "failed": failed, "undecided": [], "samples": samples,
            "trusted": ["probe set for totality of the last-resort matcher (complete character sweep under C29)"],
            "backend": "exhaustive evaluation of preconditions on dialect data"}


from . import c01_bounded as _c01b  # noqa: E402
from . import c01_tokens as _c01t  # noqa: E402,F401  (violations_from_segments, _lex_templated_file's filter)

EXTRA = [dialect_matchers_wf] + list(getattr(_c01b, 'EXTRA', []))
BOUNDED = list(_c01b.BOUNDED)

TRUSTED = TRUSTED + list(_c01t.TRUSTED)
MUTANTS = list(_c01b.MUTANTS) + list(_c01t.MUTANTS) + [
    ("trim_reorder_regression", "sqlfluff/core/parser/lexer.py", "                    if content_buff:\n                        elem_buff.append(LexedElement(content_buff, self))\n                        content_buff = \"\"\n", ""),
    ("trim_drops_tail", "sqlfluff/core/parser/lexer.py", "        if content_buff + str_buff:\n            elem_buff.append(\n                LexedElement(content_buff + str_buff, self),\n            )", "        if str_buff:\n            elem_buff.append(\n                LexedElement(str_buff, self),\n            )"),
    ("trim_mid_loses_char", "sqlfluff/core/parser/lexer.py", "                    content_buff += str_buff[: trim_pos[1]]\n                    str_buff = str_buff[trim_pos[1] :]", "                    content_buff += str_buff[: trim_pos[0]]\n                    str_buff = str_buff[trim_pos[1] :]"),
    ("subdivide_skips_divider", "sqlfluff/core/parser/lexer.py", "                    elem_buff += trimmed_elems + [div_elem]", "                    elem_buff += trimmed_elems"),
    ("match_forward_off_by_one", "sqlfluff/core/parser/lexer.py", "                forward_string[len(matched.raw) :],", "                forward_string[len(matched.raw) + 1 :],"),
    ("lex_match_reorders", "sqlfluff/core/parser/lexer.py", "                    elem_buff += res.elements\n                    forward_string = res.forward_string", "                    elem_buff = res.elements + elem_buff\n                    forward_string = res.forward_string"),
    ("lex_drops_resort_elements", "sqlfluff/core/parser/lexer.py", "                str_buff = resort_res.forward_string\n                element_buffer += resort_res.elements", "                str_buff = resort_res.forward_string"),
    ("template_slices_overlap", "sqlfluff/core/parser/lexer.py", "            idx += len(element.raw)\n", "            idx += len(element.raw) - 1\n"),
    ("string_search_span", "sqlfluff/core/parser/lexer.py", "            return loc, loc + len(self.template)", "            return loc, loc + len(self.template) - 1"),
]
