"""C33 -- violations are reported once and in source order.   Under contract (pyvc):
   sqlfluff.core.linter.linted_file:LintedFile.deduplicate_in_source_space   (no two results share a signature, sorted, nothing lost)
   sqlfluff.core.linter.linter:Linter.lint_parsed#violations-flow             (region contract: on EVERY path the list handed to
                                                                               LintedFile(...) is once-and-ordered)
   sqlfluff.core.errors:SQLBaseError.source_signature#definition              (signature of plain violations = source-space tuple)
Bounded (contracts/c33_bounded.py, real lint runs over generated Jinja templates; labelled, not proofs):
   the contract of SQLLintError.source_signature (same in source space => equal signature; independent of templated positions /
   identity) and the end-to-end statement on Linter.lint_string in lint and fix mode.
"""
from pyvc.dsl import contract, spec, implies, ref_class, rec_class
from pyvc.dsl import external as _external, inline as _inline
from pyvc.ty import INT, BOOL, TList, TSet, TOpaque, Text, TTuple, TOpt, SINK
from pyvc import replay as _replay

PROP = "C33"
# every obligation of this module is discharged in ~0.01 s; a short budget keeps a FAILING run (where z3 times out on each
# refuted obligation before the bounded refutation takes over) within minutes
TIMEOUT_MS = 3000
SHARDS = {"sqlfluff.core.linter.linter:Linter.lint_parsed#violations-flow": 4}

from .types import Sig, SQLBaseError  # noqa: E402


@spec(uninterpreted=True)
def sig(v: SQLBaseError) -> Sig:
    """the dedup signature of a violation: a function of the object (it is not mutated here)"""
    return v.source_signature()


@contract("sqlfluff.core.errors:SQLBaseError.source_signature", PROP, kind="external")
class source_signature:
    """Assumed of every override (SQLBaseError, SQLLintError): deterministic, side-effect free."""
    types = {"self": SQLBaseError}
    ret = Sig

    def ensures(self, result):
        return result == sig(self)


@spec
def first_occ(vs, k):
    """vs[k] is the first element of vs with its signature"""
    return all(sig(vs[m]) != sig(vs[k]) for m in range(0, k))


@contract("sqlfluff.core.linter.linted_file:LintedFile.deduplicate_in_source_space", PROP)
class deduplicate_in_source_space:
    types = {"violations": TList(SQLBaseError), "new_violations": TList(SQLBaseError), "dedupe_buffer": TSet(Sig)}
    ret = TList(SQLBaseError)

    def ensures(violations, result):
        return (
            # reported at most once: no two results share a signature
            all(sig(result[i]) != sig(result[j]) for i in range(len(result)) for j in range(i + 1, len(result)))
            # nothing invented: every result is one of the inputs, and it is the first with its signature
            and all(any(result[i] is violations[k] and first_occ(violations, k) for k in range(len(violations)))
                    for i in range(len(result)))
            # nothing lost: every distinct signature of the input is represented (by its first occurrence)
            and all(implies(first_occ(violations, k), any(result[i] is violations[k] for i in range(len(result))))
                    for k in range(len(violations)))
            # source order
            and all((result[i].line_no, result[i].line_pos) <= (result[j].line_no, result[j].line_pos)
                    for i in range(len(result)) for j in range(i + 1, len(result))))

    def inv_1(violations, new_violations, dedupe_buffer, _i):
        return (
            len(new_violations) <= _i
            and all(sig(new_violations[a]) != sig(new_violations[b])
                    for a in range(len(new_violations)) for b in range(a + 1, len(new_violations)))
            and all(any(new_violations[a] is violations[k] and first_occ(violations, k) for k in range(0, _i))
                    for a in range(len(new_violations)))
            and all(implies(first_occ(violations, k), any(new_violations[a] is violations[k] for a in range(len(new_violations))))
                    for k in range(0, _i))
            and all(sig(violations[k]) in dedupe_buffer for k in range(0, _i))
            and all(sig(new_violations[a]) in dedupe_buffer for a in range(len(new_violations)))
            and all(any(sig(violations[k]) == s for k in range(0, _i)) for s in dedupe_buffer))



# ------------------------------------------------------------------ the signature of a plain (non-lint) violation
# TMP / LXR / PRS / noqa-parse violations use SQLBaseError.source_signature: proved to be exactly the tuple of the source-space
# attributes (rule code, source line, source position, description) -- so two such violations that are the same in source
# space have equal signatures, and nothing else (identity, flags) enters.  The override SQLLintError.source_signature (nested
# generator expressions, three nested loops) is outside what pyvc executes: its contract is checked dynamically on real
# violations (contracts/c33_bounded.py: signature_contract), labelled bounded.
@spec(uninterpreted=True)
def code_of(v: SQLBaseError) -> Text:
    """the rule code of a violation (TMP, PRS, LXR, a rule's code): a function of the object"""
    return v.rule_code()


@spec(uninterpreted=True)
def desc_of(v: SQLBaseError) -> Text:
    return v.desc()


@_external("sqlfluff.core.errors:SQLBaseError.rule_code", PROP)
class rule_code:
    types = {"self": SQLBaseError}
    ret = Text

    def ensures(self, result):
        return result == code_of(self)


@_external("sqlfluff.core.errors:SQLBaseError.desc", PROP)
class desc:
    types = {"self": SQLBaseError}
    ret = Text

    def ensures(self, result):
        return result == desc_of(self)


_inline("sqlfluff.core.errors:SQLBaseError.check_tuple")


@contract("sqlfluff.core.errors:SQLBaseError.source_signature#definition", PROP)
class base_source_signature:
    types = {"self": SQLBaseError}
    ret = TTuple(TTuple(Text, INT, INT), Text)

    def ensures(self, result):
        return result == ((code_of(self), self.line_no, self.line_pos), desc_of(self))


# ------------------------------------------------------------------ the call site: Linter.lint_parsed (region contract)
from .types import TemplatedFile, FixPatch  # noqa: E402
from sqlfluff.core.linter.linter import Linter as _LinterCls  # noqa: E402  (value of `cls`)
from sqlfluff.core.rules.noqa import IgnoreMask as _IgnoreMaskCls  # noqa: E402

FluffConfig = ref_class("sqlfluff.core.config.fluffconfig:FluffConfig")
BaseSegment = ref_class("sqlfluff.core.parser.segments.base:BaseSegment")
IgnoreMask = ref_class("sqlfluff.core.rules.noqa:IgnoreMask")
FileTimings = ref_class("sqlfluff.core.linter.linted_file:FileTimings")
RulePack = ref_class("sqlfluff.core.rules.base:RulePack", reference_map=SINK)
ref_class("sqlfluff.core.errors:SQLBaseError", ignore=BOOL, warning=BOOL)
# a NamedTuple, but the code compares variants by identity (`alternate_variant is root_variant`): declared as heap objects
ParsedVariant = ref_class("sqlfluff.core.linter.common:ParsedVariant", templated_file=TemplatedFile, tree=TOpt(BaseSegment))
ParsedString = rec_class("sqlfluff.core.linter.common:ParsedString", parsed_variants=TList(ParsedVariant),
                         templating_violations=TList(SQLBaseError), time_dict=SINK, config=FluffConfig, fname=Text,
                         source_str=Text)
LintedFile = rec_class("sqlfluff.core.linter.linted_file:LintedFile", path=Text, violations=TList(SQLBaseError),
                       timings=TOpt(FileTimings), tree=TOpt(BaseSegment), ignore_mask=TOpt(IgnoreMask),
                       templated_file=TOpt(TemplatedFile), encoding=Text, source_patches=TOpt(TList(FixPatch)))


@_external("sqlfluff.core.linter.common:ParsedVariant.violations", PROP)
class variant_violations:
    types = {"self": ParsedVariant}
    ret = TList(SQLBaseError)

    def ensures(self, result):
        return True


@_external("sqlfluff.core.linter.linter:Linter.lint_fix_parsed", PROP)
class lint_fix_parsed:
    """havoc: any tree, any list of violations, any mask"""
    types = {"cls": _LinterCls, "tree": BaseSegment, "config": FluffConfig, "rule_pack": RulePack, "fix": BOOL, "fname": TOpt(Text),
             "templated_file": TOpt(TemplatedFile), "formatter": TOpt(SINK)}
    ret = TTuple(BaseSegment, TList(SQLBaseError), TOpt(IgnoreMask), SINK)

    def ensures(cls, tree, config, rule_pack, fix, fname, templated_file, formatter, result):
        return True


@_external("sqlfluff.core.linter.patch:generate_source_patches", PROP)
class generate_source_patches:
    types = {"tree": BaseSegment, "templated_file": TemplatedFile}
    ret = TList(FixPatch)

    def ensures(tree, templated_file, result):
        return True


@spec(uninterpreted=True)
def merged(ps: TList(FixPatch)) -> BOOL:
    """`ps` is an output of merge_source_patches (what that means -- pairwise non-conflicting, duplicate-free, sorted -- is
    proved under C30)"""
    return True


@_external("sqlfluff.core.linter.patch:merge_source_patches", (PROP, "C30"))
class merge_source_patches:
    types = {"variant_patches": TList(TList(FixPatch))}
    ret = TList(FixPatch)

    def ensures(variant_patches, result):
        return merged(result)


@_external("sqlfluff.core.config.fluffconfig:FluffConfig.get", PROP)
class config_get:
    types = {"self": FluffConfig, "val": Text, "section": Text}
    ret = SINK

    def ensures(self, val, section="core", default=None, result=None):
        return True


@_external("sqlfluff.core.linter.linter:Linter.allowed_rule_ref_map", PROP)
class allowed_rule_ref_map:
    types = {"cls": _LinterCls, "reference_map": SINK, "disable_noqa_except": SINK}
    ret = SINK

    def ensures(cls, reference_map, disable_noqa_except, result):
        return True


@_external("sqlfluff.core.rules.noqa:IgnoreMask.from_source_with_dialect", PROP)
class from_source_with_dialect:
    types = {"cls": _IgnoreMaskCls, "source": Text, "dialect": SINK, "reference_map": SINK}
    ret = TTuple(IgnoreMask, TList(SQLBaseError))

    def ensures(cls, source, dialect, reference_map, result):
        return True


@_external("sqlfluff.core.errors:SQLBaseError.ignore_if_in", PROP)
class ignore_if_in:
    types = {"self": SQLBaseError, "ignore_iterable": SINK}
    modifies = ["self.ignore"]

    def ensures(self, ignore_iterable):
        return True


@_external("sqlfluff.core.errors:SQLBaseError.warning_if_in", PROP)
class warning_if_in:
    types = {"self": SQLBaseError, "warning_iterable": SINK}
    modifies = ["self.warning"]

    def ensures(self, warning_iterable):
        return True


@_external("sqlfluff.core.linter.linted_file:FileTimings", PROP)
class file_timings_init:
    types = {"self": FileTimings, "step_timings": SINK, "rule_timings": SINK}

    def ensures(self, step_timings, rule_timings):
        return True


@_external("time:monotonic", PROP)
class monotonic:
    types = {}
    ret = SINK

    def ensures(result):
        return True


@_external("sqlfluff.core.linter.linted_file:LintedFile.get_violations", PROP)
class get_violations:
    """(C20) a filtered view: returns a new list, the file object is immutable"""
    types = {"self": LintedFile, "rules": SINK, "types": SINK, "filter_ignore": BOOL, "filter_warning": BOOL,
             "warn_unused_ignores": BOOL, "fixable": SINK}
    ret = TList(SQLBaseError)

    def ensures(self, rules=None, types=None, filter_ignore=True, filter_warning=True, warn_unused_ignores=False, fixable=None,
                result=None):
        return True


@spec
def once_and_ordered(vs):
    """the property, on the list of violations a file reports: no two entries are the same violation in source space
    (equal signatures), and the entries are in source order (line, then position)"""
    return (all(sig(vs[i]) != sig(vs[j]) for i in range(len(vs)) for j in range(i + 1, len(vs)))
            and all((vs[i].line_no, vs[i].line_pos) <= (vs[j].line_no, vs[j].line_pos)
                    for i in range(len(vs)) for j in range(i + 1, len(vs))))


@contract("sqlfluff.core.linter.linter:Linter.lint_parsed#violations-flow", (PROP, "C30"))
class lint_parsed_flow:
    region = ("violations: list[SQLBaseError] = list(parsed.templating_violations)", "if formatter:")
    region_params = ["cls", "parsed", "rule_pack", "fix", "formatter", "encoding", "time_dict", "tree", "templated_file",
                     "merged_source_patches", "t0", "root_variant"]
    types = {"cls": _LinterCls, "parsed": ParsedString, "rule_pack": RulePack, "fix": BOOL, "formatter": TOpt(SINK),
             "encoding": Text, "time_dict": SINK, "tree": TOpt(BaseSegment), "templated_file": TOpt(TemplatedFile),
             "merged_source_patches": TOpt(TList(FixPatch)), "t0": SINK, "root_variant": TOpt(ParsedVariant),
             "violations": TList(SQLBaseError), "variant_source_patches": TList(TList(FixPatch)),
             "ignore_mask": TOpt(IgnoreMask), "rule_timings": SINK}
    ghost_out = {"linted_file": LintedFile}
    raises = {"AssertionError": None}

    def ensures(parsed, fix, root_variant, merged_source_patches, linted_file):
        return (once_and_ordered(linted_file.violations)
                # C30 at the call site: whenever fixes were generated, the patches stored on the file went through
                # merge_source_patches (so they inherit its proved postcondition), whatever the number of variants
                and implies(fix and root_variant is not None,
                            linted_file.source_patches is not None and merged(linted_file.source_patches))
                and implies(not (fix and root_variant is not None), linted_file.source_patches == merged_source_patches))

    def inv_1(violations):
        return True

    def inv_2(violations):
        return True


# ------------------------------------------------------------------ bounded stand-ins (real lint runs; labelled, not proofs)
from .c33_bounded import signature_contract, end_to_end  # noqa: E402

BOUNDED = [signature_contract, end_to_end]

TRUSTED = ["every override of SQLBaseError.source_signature is a deterministic, effect-free function of the object (the symbol `sig`); "
           "for plain violations this is proved (source_signature#definition), for SQLLintError it is checked on real violations "
           "(bounded: C33/source_signature/R1..R3)",
           "region contract lint_parsed#violations-flow: Linter.lint_fix_parsed, ParsedVariant.violations, "
           "IgnoreMask.from_source_with_dialect, generate/merge_source_patches, FluffConfig.get are havocked (any result, no effect on "
           "violation objects); SQLBaseError.ignore_if_in / warning_if_in write only .ignore / .warning (which no signature reads)",
           "engine: a flattening comprehension whose inner iterable is a call (`for variant in ... for violation in "
           "variant.violations()`) is over-approximated by an unconstrained list"]
NOT_COVERED = ["Linter.lint_parsed before the region (root_variant selection) and after it (formatter dispatch, `return linted_file`): "
               "the end-to-end stand-in observes the returned LintedFile",
               "completeness (no distinct violation is lost between collection and LintedFile) is proved for "
               "deduplicate_in_source_space only, not stated for lint_parsed: the property does not demand it",
               "SQLLintError.source_signature is not executed symbolically (nested generator expressions): bounded contract only",
               "other producers of LintedFile objects (none in /repo/src besides lint_parsed) and re-ordering by output formatters"]
MUTANTS = [
    ("no_dedupe", "sqlfluff/core/linter/linted_file.py", "if signature not in dedupe_buffer:", "if True:"),
    ("sort_by_pos_only", "sqlfluff/core/linter/linted_file.py", "key=lambda v: (v.line_no, v.line_pos))", "key=lambda v: (v.line_pos, v.line_no))"),
    ("no_sort", "sqlfluff/core/linter/linted_file.py", "return sorted(new_violations, key=lambda v: (v.line_no, v.line_pos))", "return new_violations"),
    ("keep_last", "sqlfluff/core/linter/linted_file.py", "                new_violations.append(v)\n                dedupe_buffer.add(signature)", "                new_violations.append(v)"),
    # the call site
    ("call_site_no_dedupe", "sqlfluff/core/linter/linter.py", "            LintedFile.deduplicate_in_source_space(violations),\n", "            violations,\n"),
    ("call_site_sorted_only", "sqlfluff/core/linter/linter.py", "            LintedFile.deduplicate_in_source_space(violations),\n",
     "            sorted(violations, key=lambda v: (v.line_no, v.line_pos)),\n"),
    ("call_site_dedupe_only_with_root_variant", "sqlfluff/core/linter/linter.py", "            LintedFile.deduplicate_in_source_space(violations),\n",
     "            (LintedFile.deduplicate_in_source_space(violations) if root_variant else violations),\n"),
    ("call_site_templating_violations_twice", "sqlfluff/core/linter/linter.py", "            LintedFile.deduplicate_in_source_space(violations),\n",
     "            list(parsed.templating_violations) + LintedFile.deduplicate_in_source_space(violations),\n"),
    # the signature
    ("sig_delete_fix_by_anchor", "sqlfluff/core/errors.py", "tuple(e.raw for e in f.edit) if f.edit else None for f in self.fixes",
     "tuple(e.raw for e in f.edit) if f.edit else (f.edit_type, f.anchor) for f in self.fixes"),
    ("sig_templated_slice", "sqlfluff/core/errors.py", "                            source_edit.source_slice.stop,\n", "                            source_edit.templated_slice.stop,\n"),
    ("sig_identity", "sqlfluff/core/errors.py", "        return (self.check_tuple(), self.description, fix_raws, tuple(_source_fixes))",
     "        return (self.check_tuple(), self.description, fix_raws, tuple(_source_fixes), id(self))"),
    ("base_sig_identity", "sqlfluff/core/errors.py", "        return (self.check_tuple(), self.desc())", "        return (self.check_tuple(), self.desc(), id(self))"),
]
