"""C33 -- violations are reported once and in source order.
   Function under contract: sqlfluff.core.linter.linted_file:LintedFile.deduplicate_in_source_space
"""
from pyvc.dsl import contract, spec, implies, ref_class
from pyvc.ty import INT, BOOL, TList, TSet, TOpaque, Text
from pyvc import replay as _replay

PROP = "C33"

from .types import Sig, SQLBaseError  # noqa: E402


@spec(uninterpreted=True)
def sig(v: SQLBaseError) -> Sig:
    """the dedup signature of a violation: a function of the object (it is not mutated here)"""
    return v.source_signature()


@contract("sqlfluff.core.errors:SQLBaseError.source_signature", PROP, kind="external")
class source_signature:
    """Assumed of every override (SQLBaseError, SQLLintError): deterministic, side-effect free."""
    types = {"self": SQLBaseError}
    ret = Sig

    def ensures(self, result):
        return result == sig(self)


@spec
def first_occ(vs, k):
    """vs[k] is the first element of vs with its signature"""
    return all(sig(vs[m]) != sig(vs[k]) for m in range(0, k))


@contract("sqlfluff.core.linter.linted_file:LintedFile.deduplicate_in_source_space", PROP)
class deduplicate_in_source_space:
    types = {"violations": TList(SQLBaseError), "new_violations": TList(SQLBaseError), "dedupe_buffer": TSet(Sig)}
    ret = TList(SQLBaseError)

    def ensures(violations, result):
        return (
            # reported at most once: no two results share a signature
            all(sig(result[i]) != sig(result[j]) for i in range(len(result)) for j in range(i + 1, len(result)))
            # nothing invented: every result is one of the inputs, and it is the first with its signature
            and all(any(result[i] is violations[k] and first_occ(violations, k) for k in range(len(violations)))
                    for i in range(len(result)))
            # nothing lost: every distinct signature of the input is represented (by its first occurrence)
            and all(implies(first_occ(violations, k), any(result[i] is violations[k] for i in range(len(result))))
                    for k in range(len(violations)))
            # source order
            and all((result[i].line_no, result[i].line_pos) <= (result[j].line_no, result[j].line_pos)
                    for i in range(len(result)) for j in range(i + 1, len(result))))

    def inv_1(violations, new_violations, dedupe_buffer, _i):
        return (
            len(new_violations) <= _i
            and all(sig(new_violations[a]) != sig(new_violations[b])
                    for a in range(len(new_violations)) for b in range(a + 1, len(new_violations)))
            and all(any(new_violations[a] is violations[k] and first_occ(violations, k) for k in range(0, _i))
                    for a in range(len(new_violations)))
            and all(implies(first_occ(violations, k), any(new_violations[a] is violations[k] for a in range(len(new_violations))))
                    for k in range(0, _i))
            and all(sig(violations[k]) in dedupe_buffer for k in range(0, _i))
            and all(sig(new_violations[a]) in dedupe_buffer for a in range(len(new_violations)))
            and all(any(sig(violations[k]) == s for k in range(0, _i)) for s in dedupe_buffer))


TRUSTED = ["every override of SQLBaseError.source_signature is a deterministic, effect-free function of the object"]
NOT_COVERED = ["the data-flow fact that Linter.lint_parsed passes the concatenation over all variants through this function "
               "is checked syntactically (EXTRA below), not by symbolic execution of lint_parsed"]
MUTANTS = [
    ("no_dedupe", "sqlfluff/core/linter/linted_file.py", "if signature not in dedupe_buffer:", "if True:"),
    ("sort_by_pos_only", "sqlfluff/core/linter/linted_file.py", "key=lambda v: (v.line_no, v.line_pos))", "key=lambda v: (v.line_pos, v.line_no))"),
    ("no_sort", "sqlfluff/core/linter/linted_file.py", "return sorted(new_violations, key=lambda v: (v.line_no, v.line_pos))", "return new_violations"),
    ("keep_last", "sqlfluff/core/linter/linted_file.py", "                new_violations.append(v)\n                dedupe_buffer.add(signature)", "                new_violations.append(v)"),
]
