"""C07 -- BOUNDED stand-ins (labelled; nothing here is proved): the executable predicate `valid(tf)` of contracts/c07.py evaluated
on EVERY variant returned by process_with_variants() of the placeholder, python and jinja templaters over generated templates.

    from contracts.c07_bounded import BOUNDED          # [placeholder_source_maps, python_source_maps, jinja_source_maps]
    fn(tier, seed) -> {"name", "bound", "rule", "evaluations", "distinct_nontrivial", "samples", "failed": [...]}

Nothing of contracts.c07 / contracts.c09 is imported at module import time (so c07.py can import this module anywhere); each
function is runnable standalone:  /verif/.venv/bin/python -m contracts.c07_bounded [quick|thorough] [placeholder|python|jinja]

A failed entry has id  C07/<templater>/valid[<conjunct>]  (conjunct of `valid`: raw-tiles, templated-tiles, templated-tiles:no-slices,
source-slices-in-range, literal-text-equal), the smallest witness template of that conjunct and the number of failing variants.
For jinja the id carries the suffix [template-without-loop] when the template has no `for` tag.
"""
import itertools
import random
import re
import time


# ===================================================================================================== the predicate, by conjunct
def conjuncts(tf):
    """[(name, holds)] -- the four conjuncts of contracts.c07.valid, evaluated with c07's own spec functions; their conjunction is
    asserted equal to valid(tf).  `templated-tiles:no-slices` singles out the one way the second conjunct can fail that is not a
    gap/overlap: sliced_file == [] (valid demands len(sliced_file) > 0)."""
    from .c07 import valid, raw_tiles, templated_tiles
    from pyvc.dsl import implies
    sf = tf.sliced_file
    n_src, n_tpl = len(tf.source_str), len(tf.templated_str)
    c1 = bool(raw_tiles(tf.raw_sliced, n_src))
    c2 = bool(templated_tiles(sf, n_tpl))
    c3 = all(0 <= sf[k].source_slice.start <= sf[k].source_slice.stop <= n_src for k in range(len(sf)))
    c4 = all(implies(sf[k].slice_type == "literal" and sf[k].templated_slice.stop > sf[k].templated_slice.start,
                     tf.templated_str[sf[k].templated_slice.start:sf[k].templated_slice.stop]
                     == tf.source_str[sf[k].source_slice.start:sf[k].source_slice.stop]) for k in range(len(sf)))
    whole = bool(valid(tf))
    assert whole == (c1 and c2 and c3 and c4), "conjunct split disagrees with contracts.c07.valid"
    return [("raw-tiles", c1), ("templated-tiles:no-slices" if (not c2 and len(sf) == 0) else "templated-tiles", c2),
            ("source-slices-in-range", c3), ("literal-text-equal", c4)]


def _size(s):
    return (len(s), s)


_CHUNK = re.compile(r"(\{%.*?%\}|\{\{.*?\}\}|\{#.*?#\}|\{[^{}]*\}|.)", re.S)


def _outcome(templater, cfg, template):
    """the set of failing conjuncts over all variants, or {"raises:<Exception>"}"""
    try:
        variants = list(templater.process_with_variants(in_str=template, fname="<c07>", config=cfg))
    except Exception as e:
        return {"raises:" + type(e).__name__}
    out = set()
    for tf, _ in variants:
        if tf is not None:
            out.update(c for c, ok in conjuncts(tf) if not ok)
    return out


_FOR = re.compile(r"\{%-?\s*for\b")


def has_loop(template):
    return bool(_FOR.search(template))


def shrink(templater, cfg, template, want, budget=400):
    """greedy chunk removal (tags / fields / single characters) that keeps `want` in the outcome: a smaller witness of the same class
    (a witness without a `for` loop stays loop-free by construction; a witness with a loop must keep one)"""
    parts = [p for p in _CHUNK.findall(template) if p]
    loop = has_loop(template)
    calls, changed = 0, True
    while changed and calls < budget:
        changed = False
        for n in (8, 4, 2, 1):
            i = 0
            while i + n <= len(parts) and calls < budget:
                cand = parts[:i] + parts[i + n:]
                calls += 1
                if has_loop("".join(cand)) == loop and want in _outcome(templater, cfg, "".join(cand)):
                    parts, changed = cand, True
                else:
                    i += 1
    return "".join(parts)


def _describe(templater, cfg, template, cname):
    """the first variant of `template` on which conjunct `cname` fails, written out"""
    variants = list(templater.process_with_variants(in_str=template, fname="<c07>", config=cfg))
    for i, (tf, errs) in enumerate(variants):
        if tf is None or dict(conjuncts(tf))[cname] if cname in dict(conjuncts(tf)) else True:
            continue
        bad = [f"literal src[{x.source_slice.start}:{x.source_slice.stop}]={tf.source_str[x.source_slice]!r} tpl[{x.templated_slice.start}:{x.templated_slice.stop}]={tf.templated_str[x.templated_slice]!r}"
               for x in tf.sliced_file if x.slice_type == "literal" and tf.templated_str[x.templated_slice] != tf.source_str[x.source_slice]]
        return {"variant": i, "n_variants": len(variants), "templated": tf.templated_str[:200], "mismatching_literal_slices": bad[:4],
                "sliced_file": [f"{x.slice_type} src[{x.source_slice.start}:{x.source_slice.stop}] tpl[{x.templated_slice.start}:{x.templated_slice.stop}]" for x in tf.sliced_file][:16],
                "raw_sliced": [f"{x.slice_type}@{x.source_idx} {x.raw!r}" for x in tf.raw_sliced][:16]}
    return {}


class _Run:
    def __init__(self, templater_name, function):
        self.name, self.function = templater_name, function
        self.best, self.count = {}, {}
        self.evaluations = self.variants = self.extra_variants = self.not_rendered = 0
        self.distinct, self.nontrivial = set(), 0
        self.raised = {}
        self.raised_witness = {}
        self.samples = []

    def check(self, templater, cfg, template, meta=None, nontrivial=True):
        """one evaluation: process_with_variants on one template; valid() on every variant"""
        key = (meta.get("style") if meta else None, template)
        if key in self.distinct:
            return None
        self.distinct.add(key)
        self.evaluations += 1
        try:
            variants = list(templater.process_with_variants(in_str=template, fname="<c07>", config=cfg))
        except Exception as e:       # nothing rendered: no source map to judge (C07 is about the maps that ARE produced)
            self.not_rendered += 1
            k = type(e).__name__
            self.raised[k] = self.raised.get(k, 0) + 1
            if k not in self.raised_witness or _size(template) < _size(self.raised_witness[k][0]):
                self.raised_witness[k] = (template, str(e)[:160], templater, cfg)
            return None
        if nontrivial:
            self.nontrivial += 1
        self.extra_variants += max(0, len(variants) - 1)
        for i, (tf, errs) in enumerate(variants):
            if tf is None:
                continue
            self.variants += 1
            for cname, holds in conjuncts(tf):
                if not holds:
                    fid = f"C07/{self.name}/valid[{cname}]"
                    if self.name == "jinja" and not has_loop(template):
                        # partition by a precondition: templates without a `for` loop (all known defects of the jinja source maps
                        # need a loop; a failure here is a different defect and must not hide behind them)
                        fid += "[template-without-loop]"
                    self.count[fid] = self.count.get(fid, 0) + 1
                    cur = self.best.get(fid)
                    if cur is None or _size(template) < _size(cur[0]):
                        self.best[fid] = (template, templater, cfg, dict(meta or {}, conjunct=cname))
        return variants

    def result(self, bound, rule, t0, **extra):
        failed = []
        for fid in sorted(self.best):
            w, templater, cfg, d = self.best[fid]
            small = shrink(templater, cfg, w, d["conjunct"]) if len(w) > 12 else w
            failed.append({"name": fid, "id": fid, "kind": "bounded", "status": "failed", "function": self.function,
                           "detail": dict(d, witness=small, **_describe(templater, cfg, small, d["conjunct"]), witness_as_generated=w,
                                          failing_variants_of_this_class=self.count[fid]), "reproduced": True})
        # templates for which NO TemplatedFile is produced although the template is well-formed: the slicer's output was refused by the
        # constructor's own consistency checks (SQLFluffSkipFile / AssertionError / ValueError).  Not a clause of `valid` (no map exists);
        # recorded with a shrunk witness for the report.
        refused = {}
        for k, (w, msg, templater, cfg) in self.raised_witness.items():
            if k in ("SQLFluffSkipFile", "AssertionError", "ValueError"):
                refused[k] = {"witness": shrink(templater, cfg, w, "raises:" + k), "message": msg, "templates": self.raised[k]}
        extra = dict(extra, slicer_output_refused_by_constructor=refused)
        return dict({"name": f"{self.name}-source-maps", "bound": bound, "rule": rule, "evaluations": self.evaluations,
                     "distinct_nontrivial": self.nontrivial, "variants_checked": self.variants, "variants_beyond_the_first": self.extra_variants,
                     "templates_not_rendered": self.not_rendered, "raised": self.raised, "wall_s": round(time.time() - t0, 2),
                     "samples": self.samples[:4], "failed": failed}, **extra)


def _cfg(section=None, **core):
    from sqlfluff.core import FluffConfig
    if section is None and not core:
        return FluffConfig(overrides={"dialect": "ansi"})
    return FluffConfig(configs={"core": dict({"dialect": "ansi"}, **core), "templater": section or {}})


# ===================================================================================================== placeholder
def placeholder_source_maps(tier, seed):
    """BOUNDED: valid() on every variant of PlaceholderTemplater over the C09 template generators (all 12 styles)"""
    from sqlfluff.core.templaters.placeholder import PlaceholderTemplater, KNOWN_STYLES
    from . import c09
    t0 = time.time()
    run = _Run("placeholder", "sqlfluff.core.templaters.placeholder:PlaceholderTemplater.process")
    rng = random.Random(f"c07-ph-{seed}")
    cfg = _cfg()
    exact_k = 2 if tier == "thorough" else 1
    n_sample = 10000 if tier == "thorough" else 120
    for style in c09.STYLES:
        if style not in KNOWN_STYLES:
            continue
        ctx = dict(c09.PH_VALUES, param_style=style)
        tpl = PlaceholderTemplater(override_context=ctx)
        for k in range(0, exact_k + 1):
            for s in c09._ph_templates_exact(style, k):
                run.check(tpl, cfg, s, {"style": style}, nontrivial=bool(c09.scan(style, s)))
        for i in range(n_sample):
            s = c09._ph_template_random(style, rng, rng.choice((2, 3, 4))) if i % 2 else "".join(rng.choice(c09._RAW_ALPHA) for _ in range(rng.randint(0, 14)))
            v = run.check(tpl, cfg, s, {"style": style}, nontrivial=bool(c09.scan(style, s)))
            if v and len(run.samples) < 3 and len(v[0][0].sliced_file) >= 5:
                run.samples.append({"style": style, "template": s, "templated": v[0][0].templated_str, "slices": len(v[0][0].sliced_file)})
    return run.result(f"12 styles x [all templates lit (param lit)^k, k <= {exact_k} (exhaustive) + {n_sample} seeded templates / raw strings]; generators and context of contracts/c09.py",
                      "one evaluation = one process_with_variants() call; every returned variant is judged by contracts.c07.valid; distinct = distinct (style, template); "
                      "non-trivial = the template contains a parameter", t0, exhaustive_part=f"k <= {exact_k}")


# ===================================================================================================== python
def python_source_maps(tier, seed):
    """BOUNDED: valid() on every variant of PythonTemplater over format strings (alphabet strings, token concatenations, curated)"""
    from sqlfluff.core.templaters.python import PythonTemplater
    from . import c09
    t0 = time.time()
    run = _Run("python", "sqlfluff.core.templaters.python:PythonTemplater.process")
    rng = random.Random(f"c07-py-{seed}")
    cfg, ctx = _cfg(), c09._py_context()
    tpl = PythonTemplater(override_context=ctx)
    exact_n = 6 if tier == "thorough" else 4
    exact_tok = 3 if tier == "thorough" else 2
    n_sample = 60000 if tier == "thorough" else 3000

    def one(s):
        if c09.python_reference(s, ctx)[0] != "ok":     # does not render (raises): no map
            return
        v = run.check(tpl, cfg, s, nontrivial=("{" in s or "}" in s))
        if v and len(run.samples) < 3 and len(v[0][0].sliced_file) >= 4 and "." in s:
            run.samples.append({"template": s, "templated": v[0][0].templated_str, "slices": len(v[0][0].sliced_file)})
    for n in range(0, exact_n + 1):
        for tup in itertools.product(c09.PY_ALPHA, repeat=n):
            one("".join(tup))
    for n in range(1, exact_tok + 1):
        for tup in itertools.product(c09._PY_TOKENS, repeat=n):
            one("".join(tup))
    for _ in range(n_sample):
        one("".join(rng.choice(c09._PY_TOKENS) for _ in range(rng.randint(exact_tok + 1, 6))))
    for s in c09.PY_CURATED:
        one(s)
    # unwrap_wrapped_queries = False takes the other branch of _check_for_wrapped
    cfg_nowrap = _cfg({"unwrap_wrapped_queries": False})
    for s in c09.PY_CURATED:
        if c09.python_reference(s, ctx)[0] == "ok":
            run.distinct.discard((None, s))
            run.check(tpl, cfg_nowrap, s, {"unwrap_wrapped_queries": False})
    return run.result(f"all strings over the 9-letter alphabet of contracts/c09.py up to length {exact_n} and all concatenations of <= {exact_tok} of its {len(c09._PY_TOKENS)} tokens "
                      f"(exhaustive) + {n_sample} seeded concatenations of up to 6 tokens + {len(c09.PY_CURATED)} curated format strings (also with unwrap_wrapped_queries = False); "
                      "only strings that the reference formatter renders are submitted",
                      "one evaluation = one process_with_variants() call; every returned variant is judged by contracts.c07.valid; distinct = distinct format string; "
                      "non-trivial = contains a brace; format strings for which process() raises are counted in templates_not_rendered (C09's subject, not C07's)", t0,
                      exhaustive_part=f"length <= {exact_n}; <= {exact_tok} tokens")


# ===================================================================================================== jinja
JINJA_CONTEXT = {"x": "col_a", "y": 7, "flag_t": True, "flag_f": False, "xs0": [], "xs1": ["p"], "xs2": ["p", "q"], "tbl": "my_tbl",
                 "this_is_a_rather_long_flag_name_t": True, "this_is_a_rather_long_flag_name_f": False}
_J_LITERALS = ["select 1", "a,\n  b", "\n", " ", "from t\n", "x = 1 ", "", "-- c\n", "  \n  ", "col_a"]
_J_EXPRS = ["{{ x }}", "{{ x | upper }}", "{{ undef }}", "{{ y + 1 }}", "{{ xs2 | join(', ') }}", "{{- x -}}", "{{ x }}{{ tbl }}", "{{ i }}", "{{ undef.attr }}", "{{ '' }}"]
_J_MISC = ["{# comment #}", "{#- comment -#}", "{% set z = 2 %}", "{% set z = x %}{{ z }}", "{% set blk %}inner {{ x }}{% endset %}{{ blk }}",
           "{% raw %}{{ not_rendered }} {% if %}{% endraw %}", "{%- set z = 1 -%}", "{% if flag_t %}{% endif %}"]
_J_MACRO_DEFS = ["{% macro m(a) %}<{{ a }}>{% endmacro %}", "{% macro m(a) -%}\n  f({{ a }})\n{%- endmacro %}"]
_J_MACRO_CALLS = ["{{ m(1) }}", "{{ m(x) }}", "{{ m(x) }} {{ m(y) }}", "{% call m(1) %}{% endcall %}"]
_J_CONDS = ["flag_t", "flag_f", "undef", "y > 3", "not flag_t", "this_is_a_rather_long_flag_name_t", "not this_is_a_rather_long_flag_name_f and y > 3"]
_J_ITERS = ["xs0", "xs1", "xs2", "range(2)", "undef_list"]


def _j_if(rng, body):
    ws = rng.choice([("", ""), ("", ""), ("-", ""), ("", "-"), ("-", "-")])
    o, c = "{%" + ws[0] + " ", " " + ws[1] + "%}"
    shape = rng.choice(("if", "if-else", "if-elif-else", "if-elif"))
    s = f"{o}if {rng.choice(_J_CONDS)}{c}{body()}"
    if "elif" in shape:
        s += f"{o}elif {rng.choice(_J_CONDS)}{c}{body()}"
    if "else" in shape:
        s += f"{o}else{c}{body()}"
    return s + f"{o}endif{c}"


def _j_for(rng, body):
    ws = rng.choice([("", ""), ("", ""), ("-", ""), ("", "-"), ("-", "-")])
    o, c = "{%" + ws[0] + " ", " " + ws[1] + "%}"
    s = f"{o}for i in {rng.choice(_J_ITERS)}{c}{body()}"
    if rng.random() < 0.2:
        s += f"{o}else{c}{body()}"
    return s + f"{o}endfor{c}"


def jinja_template(rng, max_depth=2):
    """one template of the grammar: a sequence of 1-4 items; blocks nest to `max_depth`; a macro, when called, is defined first"""
    uses_macro = rng.random() < 0.2

    def atom():
        r = rng.random()
        if r < 0.40:
            return rng.choice(_J_LITERALS)
        if r < 0.72:
            return rng.choice(_J_EXPRS)
        if r < 0.90 or not uses_macro:
            return rng.choice(_J_MISC)
        return rng.choice(_J_MACRO_CALLS)

    def seq(depth, lo, hi):
        out = []
        for _ in range(rng.randint(lo, hi)):
            if depth < max_depth and rng.random() < 0.45:
                out.append((_j_if if rng.random() < 0.55 else _j_for)(rng, lambda: seq(depth + 1, 1, 2)))
            else:
                out.append(atom())
        return "".join(out)
    body = seq(0, 1, 4)
    if uses_macro:
        body = rng.choice(_J_MACRO_DEFS) + rng.choice(["", "\n"]) + body
        if "m(" not in body:
            body += rng.choice(_J_MACRO_CALLS)
    return body


def jinja_core_templates():
    """deterministic core: every atom alone, every atom as the only body of each block shape, literal-wrapped, two-level nesting"""
    atoms = _J_LITERALS + _J_EXPRS + _J_MISC
    for a in atoms:
        yield a
        yield "select " + a + " from t\n"
    for d in _J_MACRO_DEFS:
        for c in _J_MACRO_CALLS:
            yield d + "\nselect " + c + "\n"
    for cond in _J_CONDS:
        for a in ("A {{ x }} ", "\n  a,\n", "{{ undef }}", ""):
            yield "{% if " + cond + " %}" + a + "{% endif %}"
            yield "select\n{% if " + cond + " %}" + a + "{% else %}B{{ y }}{% endif %}\nfrom t"
            yield "{%- if " + cond + " -%}" + a + "{%- elif flag_t -%}E{%- else -%}B{%- endif -%}"
    for it in _J_ITERS:
        for a in ("{{ i }},", "x\n", "{{ x }}{{ i }} ", ""):
            yield "{% for i in " + it + " %}" + a + "{% endfor %}"
            yield "select\n{% for i in " + it + " %}  c{{ i }},\n{% endfor %}" + a + "1 from t"
            yield "{% for i in " + it + " %}{% if loop.first %}F{% else %}" + a + "{% endif %}{% endfor %}"
            yield "{% if flag_t %}{% for i in " + it + " %}" + a + "{% endfor %}{% else %}never {{ x }}{% endif %}"
            yield "{% for i in " + it + " -%}\n" + a + "\n{%- endfor %}"


def jinja_source_maps(tier, seed):
    """BOUNDED: valid() on every variant of JinjaTemplater over a grammar of small templates"""
    from sqlfluff.core.templaters.jinja import JinjaTemplater
    t0 = time.time()
    run = _Run("jinja", "sqlfluff.core.templaters.jinja:JinjaTemplater.process_with_variants")
    rng = random.Random(f"c07-jinja-{seed}")
    n_random = 5000 if tier == "thorough" else 400
    cfg = _cfg()
    tpl = JinjaTemplater(override_context=dict(JINJA_CONTEXT))
    # the same context delivered through [sqlfluff:templater:jinja:context]
    cfg_ctx = _cfg({"jinja": {"context": dict(JINJA_CONTEXT)}}, templater="jinja")
    tpl_cfg = JinjaTemplater()
    core = list(jinja_core_templates())
    for j, s in enumerate(core):
        run.check(tpl, cfg, s, nontrivial=("{" in s))
        if j % 5 == 0:
            run.distinct.discard((None, s))
            run.check(tpl_cfg, cfg_ctx, s, {"context_from": "config section"}, nontrivial=("{" in s))
    n_gen = 0
    while n_gen < n_random:
        s = jinja_template(rng)
        n_gen += 1
        v = run.check(tpl, cfg, s, nontrivial=("{" in s))
        if v and len(v) > 1 and len(run.samples) < 3:
            run.samples.append({"template": s, "variants": len(v), "templated": [x[0].templated_str for x in v][:3]})
    return run.result(f"{len(core)} deterministic core templates (every atom alone and inside each block shape; if/elif/else over 5 conditions; for over 0/1/2 iterations, range and an "
                      f"undefined iterable; macros defined and called; whitespace control) + {n_random} seeded templates of the grammar (1-4 items, blocks nested to depth 2; "
                      "literals with newlines, {{ x }}, filters, undefined variables, set / block set, comments, raw, macros, {%- -%})",
                      "one evaluation = one process_with_variants() call of the real JinjaTemplater; every returned variant (the rendered one and each unreached-code variant) is judged by "
                      "contracts.c07.valid; distinct = distinct template text; non-trivial = contains a tag; templates for which the templater raises are counted in templates_not_rendered", t0,
                      exhaustive_part="the deterministic core only")


BOUNDED = [placeholder_source_maps, python_source_maps, jinja_source_maps]


if __name__ == "__main__":
    import json
    import sys
    tier = sys.argv[1] if len(sys.argv) > 1 else "quick"
    which = sys.argv[2] if len(sys.argv) > 2 else ""
    for fn in BOUNDED:
        if which and which not in fn.__name__:
            continue
        r = fn(tier, 0)
        print(json.dumps({k: v for k, v in r.items() if k != "failed"}, default=str)[:1500])
        for f in r["failed"]:
            print("FAILED", json.dumps(f, default=str)[:1500])
