"""C01 -- token positions (the half of C01 that the proved element-level kernel in contracts/c01.py does not cover).
BOUNDED STAND-IN: nothing here is a proof.

Property text checked: "tokens ... occupy contiguous increasing positions in [the rendered SQL], and map to in-bounds,
non-decreasing positions in the original source (identical positions when the file is not templated). Every source character
is covered by a token or a template placeholder. Characters no lexing rule recognises become unlexable tokens reported as LXR
errors."

BOUNDED token_positions   the real Lexer(config).lex(TemplatedFile) on
   (a) untemplated random strings x every bundled dialect            clause ids  C01/untemplated/<clause>
   (b) templates of a small grammar rendered by the real jinja / placeholder / python templaters
                                                                     clause ids  C01/templated/<clause>
Each failing clause is reported once, with the smallest witness found by shrinking the template (loop-free witnesses preferred).
Templated clause ids are partitioned by a precondition: the suffix "[element-straddles-slices]" marks templates in which some
lexed element of the rendered text extends over more than one file slice (the lexer's split / spill paths, where all the
known defects live); ids without the suffix come from templates whose every element lies inside one slice.
"sliced-file-covers-source[<templater>]" is a statement about the templater's output, kept apart from the lexer's clauses.
"""
from __future__ import annotations

import os
import random
import sys
import time

PROP = "C01"
F_LEX = "sqlfluff.core.parser.lexer:PyLexer.lex"
F_ITER = "sqlfluff.core.parser.lexer:_iter_segments"
_LEX_LIMIT_S = 20        # lexing a string of <= 40 characters takes milliseconds


class _Timeout(BaseException):
    """raised by the alarm below; a BaseException so that `except Exception` handlers inside sqlfluff do not swallow it"""


class _deadline:
    """with _deadline(seconds): ...   -- SIGALRM based, main thread of the (worker) process only; no-op elsewhere"""

    def __init__(self, seconds):
        self.seconds = int(seconds)
        self.armed = False

    def __enter__(self):
        import signal
        import threading
        if threading.current_thread() is threading.main_thread():
            def handler(signum, frame):
                raise _Timeout()
            self.old = signal.signal(signal.SIGALRM, handler)
            signal.alarm(self.seconds)
            self.armed = True
        return self

    def __exit__(self, *exc):
        if self.armed:
            import signal
            signal.alarm(0)
            signal.signal(signal.SIGALRM, self.old)
        return False


def _failed(id_, function, detail, name=None):
    return {"name": name or id_, "id": id_, "kind": "bounded", "status": "failed", "function": function, "detail": detail,
            "reproduced": True, "backend": "CPython (bounded run of the real lexer)"}


def _sl(s):
    return [s.start, s.stop]


def _dump(tokens, limit=40):
    return [{"type": t.get_type(), "raw": t.raw, "source": _sl(t.pos_marker.source_slice), "templated": _sl(t.pos_marker.templated_slice),
             "meta": bool(t.is_meta)} for t in tokens[:limit]]


# ====================================================================================================== clauses
def _lxr_clause(tokens, errs):
    """one SQLLexError per unlexable token, in order, at that token's position"""
    un = [t for t in tokens if t.is_type("unlexable")]
    if len(un) != len(errs):
        return {"unlexable_tokens": [t.raw for t in un], "lex_errors": [e.desc() for e in errs]}
    for t, e in zip(un, errs):
        want = t.pos_marker.source_position()
        if type(e).__name__ != "SQLLexError" or e.rule_code() != "LXR" or (e.line_no, e.line_pos) != want:
            return {"token": t.raw, "token_position": list(want), "error": [type(e).__name__, e.rule_code(), e.line_no, e.line_pos]}
    return None


def _eof_clause(tokens):
    eofs = [i for i, t in enumerate(tokens) if t.is_type("end_of_file")]
    if eofs != [len(tokens) - 1] or not tokens[-1].is_meta:
        return {"end_of_file_indices": eofs, "n_tokens": len(tokens)}
    return None


def check_untemplated(text, tokens, errs):
    """clause -> detail for every violated clause (empty dict = all hold)"""
    bad = {}
    nonmeta = [t for t in tokens if not t.is_meta]
    if "".join(t.raw for t in nonmeta) != text:
        bad["raws-concatenate"] = {"joined": "".join(t.raw for t in nonmeta)}
    pos = 0
    for t in nonmeta:
        ts = t.pos_marker.templated_slice
        if ts.start != pos or ts.stop - ts.start != len(t.raw):
            bad.setdefault("contiguous-templated-slices", {"token": t.raw, "templated_slice": _sl(ts), "expected_start": pos, "len_raw": len(t.raw)})
        pos = ts.stop
    if pos != len(text) and nonmeta:
        bad.setdefault("contiguous-templated-slices", {"last_stop": pos, "len_text": len(text)})
    for t in tokens:
        pm = t.pos_marker
        if pm.source_slice != pm.templated_slice:
            bad.setdefault("source-equals-templated", {"token": t.raw, "type": t.get_type(), "source_slice": _sl(pm.source_slice),
                                                        "templated_slice": _sl(pm.templated_slice)})
    d = _eof_clause(tokens)
    if d:
        bad.setdefault("single-trailing-eof", d)
    elif _sl(tokens[-1].pos_marker.templated_slice) != [len(text), len(text)]:
        bad.setdefault("single-trailing-eof", {"eof_templated_slice": _sl(tokens[-1].pos_marker.templated_slice), "len_text": len(text)})
    d = _lxr_clause(tokens, errs)
    if d:
        bad["lxr-per-unlexable"] = d
    return bad


def check_templated(tf, tokens, errs):
    bad = {}
    T, S = tf.templated_str, tf.source_str
    nonmeta = [t for t in tokens if not t.is_meta]
    if "".join(t.raw for t in nonmeta) != T:
        bad["raws-concatenate"] = {"joined": "".join(t.raw for t in nonmeta), "templated_str": T}
    literals = [s for s in tf.sliced_file if s.slice_type == "literal"]
    last_stop = tf.sliced_file[-1].source_slice.stop if tf.sliced_file else 0
    # is the templater's own slice sequence monotone in the source, except for the backward jump after a block_end (a loop)?
    # the python templater's heuristic slicing can violate this without any loop; the lexer cannot repair that
    monotone_tf = all(b.source_slice.start >= a.source_slice.start or a.slice_type.startswith("block")
                      for a, b in zip(tf.sliced_file, tf.sliced_file[1:]))
    pos = 0
    prev_start, loop_between, prev_tok = None, False, None
    covered = [False] * len(S)
    for t in tokens:
        pm = t.pos_marker
        ss, ts = pm.source_slice, pm.templated_slice
        if not (0 <= ss.start <= ss.stop <= len(S)):
            bad.setdefault("source-in-bounds", {"token": t.raw, "type": t.get_type(), "source_slice": _sl(ss), "len_source": len(S)})
        if not (0 <= ts.start <= ts.stop <= len(T)):
            bad.setdefault("templated-in-bounds", {"token": t.raw, "type": t.get_type(), "templated_slice": _sl(ts), "len_templated": len(T)})
        for i in range(max(ss.start, 0), min(ss.stop, len(S))):
            covered[i] = True
        if t.is_meta:
            if t.is_type("template_loop"):
                loop_between = True
            continue
        a, b = pos, pos + len(t.raw)          # the token's true extent in the rendered text (by cumulative length)
        if ts.start != a or ts.stop != b:
            bad.setdefault("contiguous-templated-slices", {"token": t.raw, "type": t.get_type(), "templated_slice": _sl(ts),
                                                            "expected": [a, b]})
        inside = [s for s in literals if s.templated_slice.start <= a and b <= s.templated_slice.stop]
        if len(inside) == 1:
            off = inside[0].source_slice.start - inside[0].templated_slice.start
            if (ss.start, ss.stop) != (a + off, b + off):
                bad.setdefault("literal-shift", {"token": t.raw, "source_slice": _sl(ss), "expected": [a + off, b + off],
                                                 "literal_slice": {"source": _sl(inside[0].source_slice), "templated": _sl(inside[0].templated_slice)}})
        if monotone_tf and prev_start is not None and ss.start < prev_start:
            d = {"token": t.raw, "source_start": ss.start, "previous_token": prev_tok.raw, "previous_source_start": prev_start,
                 "template_loop_marker_between": loop_between}
            bad.setdefault("source-non-decreasing", d)
            if not loop_between:
                bad.setdefault("source-non-decreasing-except-loops", d)
        prev_start, prev_tok, loop_between = ss.start, t, False
        pos = b
    if pos != len(T):
        bad.setdefault("contiguous-templated-slices", {"sum_of_raw_lengths": pos, "len_templated": len(T)})
    # coverage: what the TemplatedFile's own slices (and the gaps between consecutive slices, which the lexer turns into
    # `skipped_source` placeholders) account for must be covered by tokens / placeholders; what the templater left out of
    # sliced_file altogether is reported under its own clause (root cause in the templater, C07's subject)
    holes = [i for i, c in enumerate(covered) if not c]
    accounted = set()
    for k, sl in enumerate(tf.sliced_file):
        accounted.update(range(sl.source_slice.start, sl.source_slice.stop))
        nxt = tf.sliced_file[k + 1] if k + 1 < len(tf.sliced_file) else None
        if nxt is not None and sl.templated_slice.start == sl.templated_slice.stop and nxt.source_slice.start > sl.source_slice.stop:
            accounted.update(range(sl.source_slice.stop, nxt.source_slice.start))        # forward jump: `skipped_source` placeholder
    lexer_holes = [i for i in holes if i in accounted]
    templater_holes = [i for i in range(len(S)) if i not in accounted]
    if lexer_holes:
        bad["source-covered"] = {"uncovered_source_indices": lexer_holes[:20], "uncovered_text": "".join(S[i] for i in lexer_holes[:40])}
    if templater_holes:
        bad["sliced-file-covers-source"] = {"source_indices_in_no_file_slice": templater_holes[:20], "len_source": len(S),
                                            "uncovered_text": "".join(S[i] for i in templater_holes[:40]),
                                            "raw_sliced": [(r.slice_type, r.source_idx) for r in tf.raw_sliced][:12]}
    d = _eof_clause(tokens)
    if d:
        bad["single-trailing-eof"] = d
    elif _sl(tokens[-1].pos_marker.templated_slice) != [len(T), len(T)] or _sl(tokens[-1].pos_marker.source_slice) != [last_stop, last_stop]:
        bad["single-trailing-eof"] = {"eof_templated_slice": _sl(tokens[-1].pos_marker.templated_slice), "eof_source_slice": _sl(tokens[-1].pos_marker.source_slice),
                                      "len_templated": len(T), "source_stop_of_last_file_slice": last_stop}
    d = _lxr_clause(tokens, errs)
    if d:
        bad["lxr-per-unlexable"] = d
    return bad


UNTEMPLATED_CLAUSES = ["raws-concatenate", "contiguous-templated-slices", "source-equals-templated", "single-trailing-eof", "lxr-per-unlexable"]
TEMPLATED_CLAUSES = ["raws-concatenate", "contiguous-templated-slices", "templated-in-bounds", "source-in-bounds", "literal-shift",
                     "source-non-decreasing", "source-non-decreasing-except-loops", "source-covered", "sliced-file-covers-source",
                     "single-trailing-eof", "lxr-per-unlexable"]


# ====================================================================================================== template grammar
_LITS = ["SELECT", " ", "  ", "\n", "a", "1", ",", ", ", "(", ")", "'s'", "a.b", " FROM t", "¿", "-- c\n", "x ", " y"]
_EXPRS = ["e", "s", "m", "w", "n"]          # -> "", "b", "c, d", "  ", "\n"
_CTX = {"e": "", "s": "b", "m": "c, d", "w": "  ", "n": "\n", "t": True, "f": False, "r0": [], "r1": [1], "r2": [1, 2]}


def _gen_parts(rng, depth, n):
    parts = []
    for _ in range(n):
        r = rng.random()
        if r < 0.5 or depth >= 2:
            if rng.random() < 0.6:
                parts.append(("lit", rng.choice(_LITS)))
            else:
                parts.append(("expr", rng.choice(_EXPRS)))
        elif r < 0.7:
            parts.append(("if", rng.choice(["t", "f", "true"]), _gen_parts(rng, depth + 1, rng.randint(0, 3)),
                          _gen_parts(rng, depth + 1, rng.randint(0, 2)) if rng.random() < 0.3 else None))
        elif r < 0.9:
            body = _gen_parts(rng, depth + 1, rng.randint(0, 3))
            if rng.random() < 0.4:
                body.insert(rng.randint(0, len(body)), ("expr", "i"))
            parts.append(("for", rng.choice(["r0", "r1", "r2", "r2"]), body))
        elif r < 0.95:
            parts.append(("comment",))
        else:
            parts.append(("set",))
    return parts


def _render_jinja(parts):
    out = []
    for p in parts:
        k = p[0]
        if k == "lit":
            out.append(p[1])
        elif k == "expr":
            out.append("{{ %s }}" % p[1])
        elif k == "if":
            out.append("{%% if %s %%}" % p[1] + _render_jinja(p[2]) + ("{% else %}" + _render_jinja(p[3]) if p[3] is not None else "") + "{% endif %}")
        elif k == "for":
            out.append("{%% for i in %s %%}" % p[1] + _render_jinja(p[2]) + "{% endfor %}")
        elif k == "comment":
            out.append("{# c #}")
        elif k == "set":
            out.append("{% set z = 1 %}")
    return "".join(out)


def _render_flat(parts, style):
    """python ({x}) and placeholder (:x) templaters: literals and expressions only"""
    out = []
    for p in parts:
        if p[0] == "lit":
            out.append(p[1].replace("{", "").replace("}", ""))
        elif p[0] == "expr":
            out.append(("{%s}" % p[1]) if style == "python" else (":%s" % p[1]))
        elif p[0] == "esc" and style == "python":
            out.append(p[1])          # a doubled brace: the python templater's `escaped` slice, rendering to one brace
    return "".join(out)


def _shrinks(parts):
    """smaller variants of a template: drop one part, hoist a body, shrink inside a body"""
    for i, p in enumerate(parts):
        yield parts[:i] + parts[i + 1:]
    for i, p in enumerate(parts):
        if p[0] == "if":
            yield parts[:i] + p[2] + parts[i + 1:]
            if p[3] is not None:
                yield parts[:i] + [("if", p[1], p[2], None)] + parts[i + 1:]
                for sub in _shrinks(p[3]):
                    yield parts[:i] + [("if", p[1], p[2], sub)] + parts[i + 1:]
            for sub in _shrinks(p[2]):
                yield parts[:i] + [("if", p[1], sub, p[3])] + parts[i + 1:]
        elif p[0] == "for":
            yield parts[:i] + p[2] + parts[i + 1:]
            for sub in _shrinks(p[2]):
                yield parts[:i] + [("for", p[1], sub)] + parts[i + 1:]
            if p[1] == "r2":
                yield parts[:i] + [("for", "r1", p[2])] + parts[i + 1:]
        elif p[0] == "lit" and len(p[1]) > 1:
            yield parts[:i] + [("lit", p[1][:-1])] + parts[i + 1:]
            yield parts[:i] + [("lit", p[1][1:])] + parts[i + 1:]


_CFG = {}


def _cfg(dialect, templater):
    key = (dialect, templater)
    if key not in _CFG:
        from sqlfluff.core import FluffConfig
        strctx = {k: v for k, v in _CTX.items() if isinstance(v, str)}
        tsec = {"jinja": {"context": dict(_CTX)}, "python": {"context": strctx},
                "placeholder": dict(strctx, param_style="colon")}
        cfg = FluffConfig(configs={"core": {"dialect": dialect, "templater": templater}, "templater": {templater: tsec[templater]}}
                          if templater != "raw" else {"core": {"dialect": dialect, "templater": "raw"}})
        _CFG[key] = (cfg, cfg.get_templater())
    return _CFG[key]


def _lex_templated(source, dialect, templater):
    """(tf, tokens, errs) or None when the templater rejects the source; exceptions of the *lexer* propagate"""
    from sqlfluff.core.parser import Lexer
    cfg, tpl = _cfg(dialect, templater)
    try:
        tf, terrs = tpl.process(in_str=source, fname="<c01>", config=cfg)
    except Exception:
        return None
    if tf is None:
        return None
    with _deadline(_LEX_LIMIT_S):
        tokens, errs = Lexer(config=cfg).lex(tf)
    return tf, tokens, errs


def _eval_template(parts, dialect, templater):
    """clause -> detail ; {} if fine ; None if not renderable"""
    src = _render_jinja(parts) if templater == "jinja" else _render_flat(parts, templater)
    try:
        r = _lex_templated(src, dialect, templater)
    except _Timeout:
        return {"raised[timeout]": {"message": f"lex did not return within {_LEX_LIMIT_S} s"}}, src, None
    except Exception as e:
        return {f"raised[{type(e).__name__}]": {"message": str(e)[:200]}}, src, None
    if r is None:
        return None, src, None
    tf, tokens, errs = r
    bad = check_templated(tf, tokens, errs)
    if "sliced-file-covers-source" in bad:       # a statement about the templater's output: one id per templater
        bad[f"sliced-file-covers-source[{templater}]"] = bad.pop("sliced-file-covers-source")
    if bad and _straddles(tf, dialect, templater):
        # partition by precondition: some lexed element spans more than one file slice (the lexer's split / spill paths).
        # The clause is the same; the tag keeps findings of those paths from masking the single-slice paths.
        bad = {(k if k.startswith(UNTAGGED) else k + TAG): v for k, v in bad.items()}
    return bad, src, (tf, tokens)


TAG = "[element-straddles-slices]"
UNTAGGED = ("sliced-file-covers-source",)


def _straddles(tf, dialect, templater):
    """does some lexed element of the rendered text extend over more than one file slice?  Elements are obtained
    independently of _iter_segments: the untemplated lex of the rendered string (positions proved in contracts/c01.py)."""
    from sqlfluff.core.parser import Lexer
    from sqlfluff.core.templaters import TemplatedFile
    cfg, _ = _cfg(dialect, templater)
    try:
        toks, _e = Lexer(config=cfg).lex(TemplatedFile.from_string(tf.templated_str))
    except Exception:
        return True
    spans = [(s.templated_slice.start, s.templated_slice.stop) for s in tf.sliced_file if s.templated_slice.stop > s.templated_slice.start]
    pos = 0
    for t in toks:
        if t.is_meta:
            continue
        a, b = pos, pos + len(t.raw)
        pos = b
        if not any(x <= a and b <= y for x, y in spans):
            return True
    return False


def _size(parts):
    n = 0
    for p in parts:
        n += 1 + (len(p[1]) if p[0] == "lit" else 0)
        if p[0] == "if":
            n += _size(p[2]) + (_size(p[3]) if p[3] is not None else 0)
        elif p[0] == "for":
            n += _size(p[2]) + (1 if p[1] == "r2" else 0)
    return n


def _has_for(parts):
    return any(p[0] == "for" or (p[0] == "if" and (_has_for(p[2]) or (p[3] is not None and _has_for(p[3])))) for p in parts)


STRICT, RESIDUAL = "source-non-decreasing", "source-non-decreasing-except-loops"


def _shows(bad, clause):
    """does this outcome exhibit `clause`?  For the strict non-decreasing clause we want the pure loop effect (the residual
    clause must hold), so that the two readings come with separate witnesses."""
    if not bad or clause not in bad:
        return False
    if clause.startswith(STRICT) and not clause.startswith(RESIDUAL):
        return not any(k.startswith(RESIDUAL) for k in bad)
    return True


def _rank(parts, bad, clause):
    """witness preference: loop-free templates first (a loop-free witness shows the clause is not an artefact of loops)"""
    pen = 0
    if clause.startswith(STRICT) and not clause.startswith(RESIDUAL):
        pen = 0 if _shows(bad, clause) else 10000
    elif _has_for(parts):
        pen = 1000
    return pen + _size(parts)


def _shrink_template(parts, dialect, templater, clause, budget=400):
    n = 0
    improved = True
    while improved and n < budget:
        improved = False
        for cand in sorted(_shrinks(parts), key=_size):
            n += 1
            bad, _, _ = _eval_template(cand, dialect, templater)
            if _shows(bad, clause):
                parts, improved = cand, True
                break
            if n >= budget:
                break
    return parts


# ====================================================================================================== the stand-in
_ALPHA = list("ab1 _\t\n'\"`-/*#$@:;,.()[]{}<>=!+%\\~^|&?é \x00\r\x0b¿€")

_SPLIT = ("GENUINE violation of the property text, loop-free witness: an element that extends over a file-slice boundary is split / spilled by "
          "_iter_segments with wrong bookkeeping -- ")
JUDGEMENT = {
    "contiguous-templated-slices" + TAG: _SPLIT + "both pieces of a split whitespace element carry the WHOLE element's templated slice, so templated "
        "positions overlap and slice length != len(raw) (lexer.py 'Consuming split whitespace from literal'; design-time expectation (i))",
    "literal-shift" + TAG: _SPLIT + "with three or more slices under one whitespace element `incremental_length` is measured from the element start, not "
        "from what was already consumed: the middle piece gets too many characters, the last piece is an EMPTY token whose source slice lies "
        "beyond the end of the file / is inverted",
    "source-in-bounds" + TAG: _SPLIT + "same arithmetic as literal-shift: source slices with start > stop or stop > len(source); with loops also a "
        "token formed from the end of one iteration and the start of the next gets an inverted slice",
    "source-covered" + TAG: _SPLIT + "the piece of a split element that falls in a templated slice starts at source_slice.start + "
        "consumed_element_length (a templated-space length added to a source position), leaving the first characters of the placeholder uncovered",
    "source-non-decreasing-except-loops" + TAG: _SPLIT + "same shifted start as source-covered: the next token of the same templated slice starts "
        "before the shifted piece. Mild (both lie in one templated slice) but it is a decrease without any loop",
    "source-non-decreasing" + TAG: "consequence of loops (by design): see source-non-decreasing",
    "raised[NotImplementedError]": "GENUINE defect (also C04): whitespace made of templated + literal + templated pieces reaches `raise "
        "NotImplementedError('Found literal whitespace with stashed idx!')`; Linter._lex_templated_file only catches SQLLexError, so "
        "sqlfluff.lint('SELECT 1{{ \" \" }} {{ \" \" }}FROM t') raises with the default configuration",
    "source-non-decreasing": "NOT a defect, consequence of loops that the property should exempt: inside {% for %} every iteration after the first maps "
        "back to the loop body's source (design-time expectation (ii)); the exempting reading is clause source-non-decreasing-except-loops",
    "sliced-file-covers-source[jinja]": "property text violated, root cause in the JINJA TEMPLATER not the lexer (C07's subject): a trailing {% set %} / "
        "{# #} with nothing rendered after it is present in raw_sliced but absent from sliced_file, so no token or placeholder can cover it",
    "sliced-file-covers-source[python]": "root cause in the PYTHON TEMPLATER's heuristic slicing (C09's subject): a parameter whose value also occurs as "
        "literal text is attributed to the literal, leaving the parameter's own source characters in no file slice",
    "sliced-file-covers-source[placeholder]": "root cause in the placeholder templater (C09's subject)",
}


def token_positions(tier="quick", seed=0):
    import logging
    prev = logging.root.manager.disable
    logging.disable(logging.CRITICAL)          # the lexer logs at debug level for every slice; restored on exit
    try:
        return _token_positions(tier, seed)
    finally:
        logging.disable(prev)


def _token_positions(tier, seed):
    from sqlfluff.core import FluffConfig
    from sqlfluff.core.dialects import dialect_readout
    from sqlfluff.core.parser import Lexer
    from sqlfluff.core.templaters import TemplatedFile
    rng = random.Random(f"c01-positions-{seed}")
    rng_esc = random.Random(f"c01-positions-esc-{seed}")
    t0 = time.time()
    ev = nontriv = 0
    firsts = {}          # clause id -> (size, witness detail)
    counts = {}
    samples = []

    def note(id_, size, detail):
        counts[id_] = counts.get(id_, 0) + 1
        if id_ not in firsts or size < firsts[id_][0]:
            firsts[id_] = (size, detail)

    # ------------------------------------------------------------ (a) untemplated
    per = 400 if tier == "thorough" else 40
    dialects = [d.label for d in dialect_readout()]
    for d in dialects:
        cfg = FluffConfig(overrides={"dialect": d})
        lx = Lexer(config=cfg)
        for _ in range(per):
            s = "".join(rng.choice(_ALPHA) for _ in range(rng.randint(0, 20)))
            ev += 1
            try:
                with _deadline(_LEX_LIMIT_S):
                    tokens, errs = lx.lex(TemplatedFile.from_string(s))
            except _Timeout:
                note("C01/untemplated/raised[timeout]", len(s), {"dialect": d, "text": s, "text_repr": ascii(s)})
                continue
            except Exception as e:
                note(f"C01/untemplated/raised[{type(e).__name__}]", len(s), {"dialect": d, "text": s, "text_repr": ascii(s), "message": str(e)[:200]})
                continue
            if any(t.is_type("unlexable") for t in tokens) or len(tokens) > 6:
                nontriv += 1
            for clause, detail in check_untemplated(s, tokens, errs).items():
                note(f"C01/untemplated/{clause}", len(s), {"dialect": d, "text": s, "text_repr": ascii(s), "observed": detail, "tokens": _dump(tokens, 12)})
        if len(samples) < 1:
            samples.append({"case": "untemplated", "dialect": d, "text_repr": ascii(s), "tokens": len(tokens), "lex_errors": len(errs)})
    n_untemplated = ev

    # ------------------------------------------------------------ (b) templated
    plan = [("jinja", 3000 if tier == "thorough" else 450), ("placeholder", 800 if tier == "thorough" else 120), ("python", 800 if tier == "thorough" else 120)]
    tdialects = ["ansi", "bigquery", "tsql", "snowflake"]
    witnesses = {}       # clause -> (size, parts, dialect, templater)
    skipped = 0
    fixed = [  # the two design-time probes, always included
        [("lit", "SELECT 1  "), ("if", "true", [("lit", "  , 2")], None)],
        [("lit", "SELECT "), ("for", "r2", [("lit", "a"), ("expr", "i"), ("lit", ", ")]), ("lit", "1")],
        [("lit", "SELECT "), ("expr", "e"), ("lit", "a"), ("comment",), ("lit", " FROM "), ("expr", "m"), ("if", "f", [("lit", " x")], None), ("lit", "\n")],
        [("lit", "a  "), ("if", "true", [("lit", "  ")], None), ("lit", "  b")],
        [("lit", "a "), ("if", "true", [("lit", " ")], None), ("lit", " "), ("if", "true", [("lit", " ")], None), ("lit", " b")],
        [("lit", "a"), ("expr", "w"), ("lit", " "), ("expr", "w"), ("lit", "b")],
        [("lit", "SELECT 1 "), ("comment",)],
    ]
    for templater, n in plan:
        for k in range(n):
            if templater == "jinja" and k < len(fixed):
                parts = fixed[k]
            elif templater == "jinja":
                parts = _gen_parts(rng, 0, rng.randint(1, 6))
            else:
                parts = [p for p in _gen_parts(rng, 2, rng.randint(1, 8))]
                if templater == "python" and k % 2:          # every other python template also gets doubled braces
                    for _ in range(rng_esc.randint(1, 3)):
                        parts.insert(rng_esc.randint(0, len(parts)), ("esc", rng_esc.choice(["{{", "}}"])))
            d = tdialects[k % len(tdialects)]
            bad, src, res = _eval_template(parts, d, templater)
            if bad is None:
                skipped += 1
                continue
            ev += 1
            if res is not None:
                tf, tokens = res
                if len(tf.sliced_file) > 1:
                    nontriv += 1
                if len(samples) < 3 and len(tf.sliced_file) > 3 and not bad:
                    samples.append({"case": templater, "dialect": d, "source": src, "rendered": tf.templated_str, "slices": len(tf.sliced_file),
                                    "tokens": len(tokens), "all_clauses_hold": True})
            for clause in bad:
                counts[f"C01/templated/{clause}"] = counts.get(f"C01/templated/{clause}", 0) + 1
                sz = _rank(parts, bad, clause)
                if (clause, templater) not in witnesses or sz < witnesses[(clause, templater)][0]:
                    witnesses[(clause, templater)] = (sz, parts, d, templater)
    best = {}
    for (clause, templater), w in witnesses.items():
        if clause not in best or w[0] < best[clause][0]:
            best[clause] = w
    for clause, (sz, parts, d, templater) in sorted(best.items()):
        small = _shrink_template(parts, d, templater, clause) if _shows(_eval_template(parts, d, templater)[0], clause) else parts
        bad, src, res = _eval_template(small, d, templater)
        others = {}
        for (c2, t2), (sz2, parts2, d2, _) in sorted(witnesses.items()):
            if c2 == clause and t2 != templater:
                p2 = _shrink_template(parts2, d2, t2, clause, budget=150) if _shows(_eval_template(parts2, d2, t2)[0], clause) else parts2
                others[t2] = {"witness_template": _eval_template(p2, d2, t2)[1], "dialect": d2}
        detail = {"templater": templater, "dialect": d, "witness_template": src, "witness_template_repr": ascii(src),
                  "witness_has_loop": _has_for(small), "witness_by_other_templater": others,
                  "observed": (bad or {}).get(clause), "occurrences": counts.get(f"C01/templated/{clause}"),
                  "judgement": JUDGEMENT.get(clause, "not examined: read the witness")}
        if res is not None:
            tf, tokens = res
            detail["rendered"] = tf.templated_str
            detail["sliced_file"] = [{"type": s.slice_type, "source": _sl(s.source_slice), "templated": _sl(s.templated_slice)} for s in tf.sliced_file[:20]]
            detail["tokens"] = _dump(tokens, 30)
        firsts[f"C01/templated/{clause}"] = (sz, detail)

    failed = []
    for id_, (sz, detail) in sorted(firsts.items()):
        detail = dict(detail)
        detail.setdefault("occurrences", counts.get(id_))
        failed.append(_failed(id_, F_ITER if "/templated/" in id_ else F_LEX, detail))
    clauses = ([f"C01/untemplated/{c}" for c in UNTEMPLATED_CLAUSES] + [f"C01/templated/{c}" for c in TEMPLATED_CLAUSES])
    return {"name": "token-positions",
            "bound": f"(a) {n_untemplated} untemplated strings (length <= 20 over {len(_ALPHA)} characters) = {per} x {len(dialects)} bundled dialects; "
                     f"(b) {ev - n_untemplated} templates (jinja <= 6 parts, nesting <= 2, if/else/for with 0-2 iterations/comments/set/expressions rendering to "
                     f"'' 'b' 'c, d' whitespace newline; placeholder and python: literals + parameters, python also doubled braces) x {len(tdialects)} dialects; "
                     f"{skipped} templates rejected by their templater",
            "rule": "non-trivial = untemplated: has an unlexable token or > 6 tokens; templated: more than one file slice",
            "evaluations": ev, "distinct_nontrivial": nontriv, "samples": samples, "failed": failed,
            "clauses": clauses, "clause_failure_counts": counts, "wall_s": round(time.time() - t0, 1)}


BOUNDED = [token_positions]
EXTRA = []

TRUSTED = ["the TemplatedFile produced by the real templaters is taken as given (its consistency is C07's subject)"]
NOT_COVERED = ["templates outside the small grammar (macros, call blocks, includes, nested loops deeper than 2, dbt)"]

MUTANTS = [
    ("zero_length_placeholder_skipped", "sqlfluff/core/parser/lexer.py",
     "    yield TemplateSegment.from_slice(\n        tfs.source_slice,\n        tfs.templated_slice,\n        tfs.slice_type,\n        templated_file,\n    )\n\n\ndef _iter_segments(",
     "    return\n\n\ndef _iter_segments("),
    ("no_end_of_file", "sqlfluff/core/parser/lexer.py",
     "        segment_buffer.append(\n            EndOfFile(", "        (lambda _x: None)(\n            EndOfFile("),
    ("lxr_for_non_unlexable", "sqlfluff/core/parser/lexer.py",
     "            if segment.is_type(\"unlexable\"):", "            if segment.is_type(\"unlexable\", \"comma\"):"),
    ("literal_offset_dropped_on_stop", "sqlfluff/core/parser/lexer.py",
     "                                slice_start,\n                                element.template_slice.stop + tfs_offset,",
     "                                slice_start,\n                                element.template_slice.stop,"),
    ("skipped_source_placeholder_dropped", "sqlfluff/core/parser/lexer.py",
     "        if next_tfs and next_tfs.source_slice.start > tfs.source_slice.stop:", "        if False and next_tfs.source_slice.start > tfs.source_slice.stop:"),
    ("templated_token_source_collapsed", "sqlfluff/core/parser/lexer.py",
     "                                    # The end in the source is the end of the templated\n                                    # slice. We can't subdivide any better.\n                                    tfs.source_slice.stop,",
     "                                    tfs.source_slice.start,"),
    ("eof_at_zero", "sqlfluff/core/parser/lexer.py",
     "                    segment_buffer[-1].pos_marker.end_point_marker()\n                    if segment_buffer\n",
     "                    segment_buffer[0].pos_marker.start_point_marker()\n                    if segment_buffer\n"),
]


if __name__ == "__main__":
    import json
    sys.path.insert(0, os.path.dirname(os.path.dirname(os.path.abspath(__file__))))
    tier = os.environ.get("VERIF_TIER", "quick")
    seed = int(os.environ.get("VERIF_SEED", "0"))
    t0 = time.time()
    r = token_positions(tier, seed)
    print(json.dumps(r, indent=1, default=str)[: int(os.environ.get("C01_PRINT", "9000"))])
    print(f"== token_positions: {time.time() - t0:.1f}s failed={[f['id'] for f in r['failed']]}")
