"""C20 -- noqa directives suppress exactly the specified violations.

Functions under contract (symbolic + native):
   sqlfluff.core.rules.noqa: NoQaDirective._filter_violations_single_line,
                             IgnoreMask._should_ignore_violation_line_range, ._ignore_masked_violations_line_range,
                             ._ignore_masked_violations_single_line, .ignore_masked_violations,
                             .generate_warnings_for_unused
   sqlfluff.core.linter.linted_file: LintedFile.get_violations  (restricted to types=None, fixable=None)
Assumed (external, functional): SQLBaseError.rule_code, SQLBaseError.fixable.
Native-only companions (kind="native", run from BOUNDED): the `used` accounting clauses that need the PRE-state
of a heap field of list elements (`old.<list>[i].used`), which the symbolic engine cannot express.
Bounded stand-ins (BOUNDED): the textual front end (_parse_noqa / _extract_ignore_from_comment / from_tree /
from_source) against an executable grammar spec; the declarative hidden/used spec over every small mask incl.
call histories; "noqa off hides nothing" end to end.

Abstract view:  directive = (line_no, rules: None | tuple of codes, action: None | "enable" | "disable",
used (mutable), line_pos, raw_str);  violation = (line_no, rule_code()).
"""
import os as _os

from pyvc.dsl import contract, spec, implies, iff, ref_class, rec_class
from pyvc.ty import INT, BOOL, Text, StrN, TList, TTuple, TOpt, TEnum, TOpaque
from pyvc import replay as _replay

from .types import SQLBaseError as _SharedErr, FixPatch, TemplatedFile  # noqa: F401  shared declarations

PROP = "C20"

Action = TEnum("NoqaAction", ["enable", "disable"])
Code = TOpaque('RuleCode')      # rule codes: z3 native strings, only compared for equality (no type-invariant side facts)
NoQaDirective = ref_class("sqlfluff.core.rules.noqa:NoQaDirective", line_no=INT, line_pos=INT,
                          rules=TOpt(TList(Code)), action=TOpt(Action), raw_str=Text, used=BOOL)
IgnoreMask = ref_class("sqlfluff.core.rules.noqa:IgnoreMask", _ignore_list=TList(NoQaDirective))
# additive field table of the shared declaration (contracts/types.py has line_no, line_pos)
SQLBaseError = ref_class("sqlfluff.core.errors:SQLBaseError", ignore=BOOL, warning=BOOL, fatal=BOOL)

from sqlfluff.core.rules.noqa import IgnoreMask as _IgnoreMaskCls  # noqa: E402  (value of the `cls` parameter)


# ------------------------------------------------------------------ assumed contracts of violation methods
@contract("sqlfluff.core.errors:SQLBaseError.rule_code", PROP, kind="external")
class rule_code:
    """Assumed of every override (SQLBaseError, SQLLintError): a deterministic, effect-free function of the
    object (no function under contract here writes `_code` / `rule`)."""
    types = {"self": SQLBaseError}
    ret = Code
    functional = True

    def ensures(self, result):
        return True


@contract("sqlfluff.core.errors:SQLBaseError.fixable", PROP, kind="external")
class fixable_prop:
    types = {"self": SQLBaseError}
    ret = BOOL
    functional = True

    def ensures(self, result):
        return True


# ------------------------------------------------------------------ specification (from the property text)
# The three predicates below are declared `uninterpreted` with a defining axiom whose body IS the Python body
# (the c30 `first_match` idiom).  Natively they are ordinary functions.  Symbolically each application is one atom
# of (line, code, directive list), so that "the same violation" reached through two lists is recognised by
# congruence instead of by re-proving a four-quantifier formula; the definition is unfolded by the axiom.
# They read only the immutable fields line_no / rules / action of directives (no function here writes them).
def _names_axiom(rules, code, result):
    return result == (rules is None or code in rules)


@spec(uninterpreted=True, axiom=_names_axiom)
def names(rules: TOpt(TList(Code)), code: Code) -> BOOL:
    """a directive's rule list names the rule `code`, or names no rule (None = bare `noqa` / `all`)"""
    return rules is None or code in rules


@spec
def later(ds, k, j):
    """directive j is more recent than directive k: on a later line, or later in file order on the same line"""
    return ds[k].line_no < ds[j].line_no or (ds[k].line_no == ds[j].line_no and k < j)


def _plain_hit_axiom(line, code, ds, n, result):
    return result == any(names(ds[i].rules, code) and ds[i].line_no == line and ds[i].action is None for i in range(0, n))


@spec(uninterpreted=True, axiom=_plain_hit_axiom)
def plain_hit(line: INT, code: Code, ds: TList(NoQaDirective), n: INT) -> BOOL:
    """among the first n directives: a plain noqa comment on that very source line that names the rule or
    names no rule"""
    return any(names(ds[i].rules, code) and ds[i].line_no == line and ds[i].action is None for i in range(0, n))


def _range_off_axiom(line, code, ds, result):
    return result == any(names(ds[k].rules, code) and ds[k].action == "disable" and ds[k].line_no <= line
                         and all(not (names(ds[j].rules, code) and ds[j].action is not None and ds[j].line_no <= line
                                      and later(ds, k, j)) for j in range(len(ds)))
                         for k in range(len(ds)))


@spec(uninterpreted=True, axiom=_range_off_axiom)
def range_off(line: INT, code: Code, ds: TList(NoQaDirective)) -> BOOL:
    """the most recent disable/enable comment at or before the line that covers the rule is a disable:
    some disable directive k at or before the line covers the rule, and no enable/disable directive at or
    before the line that covers the rule is more recent than k"""
    return any(names(ds[k].rules, code) and ds[k].action == "disable" and ds[k].line_no <= line
               and all(not (names(ds[j].rules, code) and ds[j].action is not None and ds[j].line_no <= line
                            and later(ds, k, j)) for j in range(len(ds)))
               for k in range(len(ds)))


@spec(uninterpreted=True)
def some_code() -> Code:
    return ""


@spec
def AX(ds):
    """proof plumbing, always True: bound first in every clause below so that the defining axioms above are
    available outside every quantifier and short-circuit guard"""
    a1 = names(None, some_code())
    a2 = not plain_hit(0, some_code(), ds, 0)
    a3 = range_off(0, some_code(), ds) or True
    return a1 and a2 and a3


@spec
def covers(d, v):
    """directive d names the rule of violation v, or names no rule"""
    return names(d.rules, v.rule_code())


@spec
def matched(d, v):
    """a noqa comment d on v's own source line names its rule or names no rule"""
    return covers(d, v) and d.line_no == v.line_no


@spec
def hidden_plain(v, ds):
    """a plain noqa comment on v's own source line names its rule or names no rule"""
    return plain_hit(v.line_no, v.rule_code(), ds, len(ds))


@spec
def hidden_range(v, ds):
    """the most recent noqa disable/enable comment at or before v's line that covers its rule is a disable"""
    return range_off(v.line_no, v.rule_code(), ds)


@spec
def hidden(v, ds):
    """THE PROPERTY's first sentence"""
    return hidden_plain(v, ds) or hidden_range(v, ds)


@spec
def distinct(xs):
    """pairwise distinct objects"""
    return all(xs[a] is not xs[b] for a in range(len(xs)) for b in range(a + 1, len(xs)))


@spec
def keeps_order(res, vs):
    """elements of res occur in the relative order they have in vs"""
    return all(implies(res[i] is vs[k] and res[j] is vs[l], i < j)
               for i in range(len(res)) for j in range(len(res)) for k in range(len(vs)) for l in range(k + 1, len(vs)))


# result == [v for v in vs if not P(v)] for pairwise distinct vs, spelled with quantifiers, is the conjunction of
#   (sub)   every result element is one of the inputs            (nothing invented)
#   (clean) no result element satisfies P                        (nothing hidden is kept)
#   (all)   every input with not P occurs in the result           (nothing else hidden)
#   (ord)   keeps_order(result, vs)   and   (dis) distinct(result)
# The five clauses are written out in every contract below (P differs; spec functions are first order).


# ------------------------------------------------------------------ contracts: the single-line path
# Style note: every clause is first bound to a local (`c1 = ...`) and the return is a conjunction of locals.  pyvc
# keeps side facts met while evaluating `a and b` as `a => fact`; with top-level `and` chains of quantified clauses
# those guards are whole clauses.  Binding first keeps the obligations small; the native reading is unchanged.
@contract("sqlfluff.core.rules.noqa:NoQaDirective._filter_violations_single_line", PROP)
class filter_violations_single_line:
    types = {"self": NoQaDirective, "violations": TList(SQLBaseError), "matched_violations": TList(SQLBaseError)}
    ret = TList(SQLBaseError)
    modifies = ["self.used"]

    def requires(self, violations):
        # `assert not self.action` (code); violations are distinct objects (what the linter produces)
        c1 = self.action is None
        c2 = distinct(violations)
        c3 = self.rules is None or len(self.rules) >= 0     # (type invariant; read here so that it is a hypothesis)
        return c1 and c2 and c3

    def ensures(self, violations, result, old):
        ax = names(None, some_code())
        sub = all(any(result[i] is violations[k] for k in range(len(violations))) for i in range(len(result)))
        clean = all(not matched(self, result[i]) for i in range(len(result)))
        every = all(implies(not matched(self, violations[k]), any(result[i] is violations[k] for i in range(len(result))))
                    for k in range(len(violations)))
        order = keeps_order(result, violations)
        dis = distinct(result)
        # used' == used or (some violation matched)
        used = self.used == (old.self.used or any(matched(self, violations[k]) for k in range(len(violations))))
        return ax and sub and clean and every and order and dis and used


@spec
def hp_upto(v, ds, n):
    """hidden by one of the first n (plain) directives of ds"""
    return plain_hit(v.line_no, v.rule_code(), ds, n)


@spec
def first_matcher_used(ds, vs, n):
    """every directive among the first n that is the FIRST (in list order) to match some violation is used"""
    return all(implies(matched(ds[j], vs[k]) and all(not matched(ds[i], vs[k]) for i in range(0, j)), ds[j].used)
               for j in range(0, n) for k in range(len(vs)))


@contract("sqlfluff.core.rules.noqa:IgnoreMask._ignore_masked_violations_single_line", PROP)
class ignore_masked_violations_single_line:
    types = {"violations": TList(SQLBaseError), "ignore_mask": TList(NoQaDirective)}
    ret = TList(SQLBaseError)
    modifies = ["heap:NoQaDirective.used"]

    def requires(violations, ignore_mask):
        # docstring: "ONLY contain NoQaDirectives with action=None"
        c1 = all(ignore_mask[i].action is None for i in range(len(ignore_mask)))
        c2 = distinct(violations)
        return c1 and c2

    def ensures(violations, ignore_mask, result):
        ax = AX(ignore_mask)
        sub = all(any(result[i] is violations[k] for k in range(len(violations))) for i in range(len(result)))
        clean = all(not hidden_plain(result[i], ignore_mask) for i in range(len(result)))
        every = all(implies(not hidden_plain(violations[k], ignore_mask), any(result[i] is violations[k] for i in range(len(result))))
                    for k in range(len(violations)))
        order = keeps_order(result, violations)
        dis = distinct(result)
        # `used`, post-state part: the first directive that matches a violation is marked; in particular the
        # ONLY covering directive of a hidden violation is marked
        used = first_matcher_used(ignore_mask, violations, len(ignore_mask))
        return ax and sub and clean and every and order and dis and used

    def inv_1(violations, ignore_mask, old, _i):
        ax = AX(ignore_mask)
        sub = all(any(violations[i] is old.violations[k] for k in range(len(old.violations))) for i in range(len(violations)))
        clean = all(not hp_upto(violations[i], ignore_mask, _i) for i in range(len(violations)))
        every = all(implies(not hp_upto(old.violations[k], ignore_mask, _i), any(violations[i] is old.violations[k] for i in range(len(violations))))
                    for k in range(len(old.violations)))
        order = keeps_order(violations, old.violations)
        dis = distinct(violations)
        used = first_matcher_used(ignore_mask, old.violations, _i)
        return ax and sub and clean and every and order and dis and used


# ------------------------------------------------------------------ contracts: the range path
@spec
def live_at(d, line_no):
    """an enable/disable directive at or before the line"""
    return d.action is not None and d.line_no <= line_no


@spec
def last_live(ds, line_no, k):
    """ds[k] is the last enable/disable directive of the (line-sorted) list at or before the line"""
    return live_at(ds[k], line_no) and all(not live_at(ds[j], line_no) for j in range(k + 1, len(ds)))


@contract("sqlfluff.core.rules.noqa:IgnoreMask._should_ignore_violation_line_range", PROP)
class should_ignore_violation_line_range:
    types = {"line_no": INT, "ignore_rules": TList(NoQaDirective), "ignore": BOOL, "last_ignore": TOpt(NoQaDirective)}
    ret = TTuple(BOOL, TOpt(NoQaDirective))
    modifies = ["heap:NoQaDirective.used"]

    def requires(line_no, ignore_rules):
        # docstring: "Sorted in ascending order by line number"
        return all(ignore_rules[a].line_no <= ignore_rules[b].line_no
                   for a in range(len(ignore_rules)) for b in range(a + 1, len(ignore_rules)))

    def ensures(line_no, ignore_rules, result):
        # ignore == the last enable/disable directive at or before line_no is a disable
        c1 = result[0] == any(ignore_rules[k].action == "disable" and last_live(ignore_rules, line_no, k)
                              for k in range(len(ignore_rules)))
        # last_ignore is that directive (None when not ignoring)
        c2 = (result[1] is None) == (not result[0])
        c3 = implies(result[0], any(result[1] is ignore_rules[k] and ignore_rules[k].action == "disable"
                                    and last_live(ignore_rules, line_no, k) for k in range(len(ignore_rules))))
        return c1 and c2 and c3

    def inv_1(line_no, ignore_rules, ignore, last_ignore, _i):
        c1 = all(ignore_rules[j].line_no <= line_no for j in range(0, _i))
        c2 = ignore == any(ignore_rules[k].action == "disable"
                           and all(ignore_rules[j].action is None for j in range(k + 1, _i)) for k in range(0, _i))
        c3 = (last_ignore is None) == (not ignore)
        c4 = implies(ignore, any(last_ignore is ignore_rules[k] and ignore_rules[k].action == "disable"
                                 and all(ignore_rules[j].action is None for j in range(k + 1, _i)) for k in range(0, _i)))
        return c1 and c2 and c3 and c4


@contract("sqlfluff.core.rules.noqa:IgnoreMask._ignore_masked_violations_line_range", PROP)
class ignore_masked_violations_line_range:
    types = {"cls": _IgnoreMaskCls, "violations": TList(SQLBaseError), "ignore_mask": TList(NoQaDirective),
             "result": TList(SQLBaseError)}
    ret = TList(SQLBaseError)
    modifies = ["heap:NoQaDirective.used"]

    def requires(violations, ignore_mask):
        return distinct(violations)

    def ensures(violations, ignore_mask, result):
        ax = AX(ignore_mask)
        sub = all(any(result[i] is violations[k] for k in range(len(violations))) for i in range(len(result)))
        clean = all(not hidden_range(result[i], ignore_mask) for i in range(len(result)))
        every = all(implies(not hidden_range(violations[k], ignore_mask), any(result[i] is violations[k] for i in range(len(result))))
                    for k in range(len(violations)))
        order = keeps_order(result, violations)
        dis = distinct(result)
        return ax and sub and clean and every and order and dis

    def inv_1(violations, ignore_mask, result, _i):
        ax = AX(ignore_mask)
        sub = all(any(result[i] is violations[k] for k in range(0, _i)) for i in range(len(result)))
        # (redundant given `sub` and distinct(violations); spares the solver a detour) nothing from the unprocessed tail
        tail = all(result[i] is not violations[l] for i in range(len(result)) for l in range(_i, len(violations)))
        clean = all(not hidden_range(result[i], ignore_mask) for i in range(len(result)))
        every = all(implies(not hidden_range(violations[k], ignore_mask), any(result[i] is violations[k] for i in range(len(result))))
                    for k in range(0, _i))
        order = keeps_order(result, violations)
        dis = distinct(result)
        return ax and sub and tail and clean and every and order and dis


# ------------------------------------------------------------------ contracts: the top level
@contract("sqlfluff.core.rules.noqa:IgnoreMask.ignore_masked_violations", PROP)
class ignore_masked_violations:
    types = {"self": IgnoreMask, "violations": TList(SQLBaseError)}
    ret = TList(SQLBaseError)
    modifies = ["heap:NoQaDirective.used"]

    def requires(self, violations):
        return distinct(violations)

    def ensures(self, violations, result):
        # result == [v for v in violations if not hidden(v, directives)]   (order kept)
        ax = AX(self._ignore_list)
        sub = all(any(result[i] is violations[k] for k in range(len(violations))) for i in range(len(result)))
        clean = all(not hidden(result[i], self._ignore_list) for i in range(len(result)))
        every = all(implies(not hidden(violations[k], self._ignore_list), any(result[i] is violations[k] for i in range(len(result))))
                    for k in range(len(violations)))
        order = keeps_order(result, violations)
        dis = distinct(result)
        return ax and sub and clean and every and order and dis


# ------------------------------------------------------------------ unused-noqa warnings
@spec
def warns_at(w, d):
    """w is the unused-noqa warning placed at directive d"""
    return w.line_no == d.line_no and w.line_pos == d.line_pos and w.warning


@spec
def before(a, b):
    """source position of a precedes that of b"""
    return (a.line_no, a.line_pos) < (b.line_no, b.line_pos)


@contract("sqlfluff.core.rules.noqa:IgnoreMask.generate_warnings_for_unused", PROP)
class generate_warnings_for_unused:
    types = {"self": IgnoreMask}
    ret = TList(SQLBaseError)

    def requires(self):
        # directives are kept in source order; distinct comments start at distinct source positions
        return all(before(self._ignore_list[a], self._ignore_list[b])
                   for a in range(len(self._ignore_list)) for b in range(a + 1, len(self._ignore_list)))

    def ensures(self, result):
        # exactly: one warning per directive with `not used`, none otherwise, in directive order
        c1 = all(any(not self._ignore_list[i].used and warns_at(result[a], self._ignore_list[i])
                     for i in range(len(self._ignore_list))) for a in range(len(result)))
        c2 = all(implies(not self._ignore_list[i].used, any(warns_at(result[a], self._ignore_list[i]) for a in range(len(result))))
                 for i in range(len(self._ignore_list)))
        c3 = all(before(result[a], result[b]) for a in range(len(result)) for b in range(a + 1, len(result)))
        return c1 and c2 and c3


# ------------------------------------------------------------------ native builders
# Violations are REAL error objects: SQLLintError with a stand-in rule (codes A, B, C), SQLParseError (PRS),
# SQLTemplaterError (TMP), SQLLexError (LXR).  Small pools => distinct objects that compare equal under
# SQLBaseError.__eq__ occur often (this is what `v not in matched_violations` sees).
class _Pos:
    def __init__(self, ln, lp):
        self.ln, self.lp = ln, lp

    def source_position(self):
        return (self.ln, self.lp)

    def __eq__(self, o):
        return isinstance(o, _Pos) and (self.ln, self.lp) == (o.ln, o.lp)


class _Seg:
    def __init__(self, ln, lp):
        self.pos_marker = _Pos(ln, lp)

    def __eq__(self, o):
        return isinstance(o, _Seg) and self.pos_marker == o.pos_marker


class _Rule:
    def __init__(self, code):
        self.code, self.name = code, "rule." + code.lower()

    def __eq__(self, o):
        return isinstance(o, _Rule) and self.code == o.code

    def __repr__(self):
        return f"<rule {self.code}>"


LINES = [1, 1, 2, 2, 3, 4]
RULE_POOL = [None, None, ("A",), ("B",), ("A", "B"), ("C",), ("PRS",), ("A", "PRS", "TMP")]
# rules == () is what `noqa: disable=X` parses to when `disable_noqa_except` empties the reference of X
# (Linter.allowed_rule_ref_map): the property says such a directive covers nothing.  C20_NO_EMPTY_RULES=1 leaves it
# out of the random pool (used only to tell mutants apart from the finding it triggers).
if not _os.environ.get("C20_NO_EMPTY_RULES"):
    RULE_POOL = RULE_POOL + [()]


def make_violation(code, line_no, line_pos=1, desc="d", ignore=False, warning=False, fatal=False):
    from sqlfluff.core.errors import SQLLintError, SQLParseError, SQLTemplaterError, SQLLexError
    special = {"PRS": SQLParseError, "TMP": SQLTemplaterError, "LXR": SQLLexError}
    if code in special:
        return special[code](description=desc, line_no=line_no, line_pos=line_pos, ignore=ignore, warning=warning, fatal=fatal)
    return SQLLintError(description=desc, segment=_Seg(line_no, line_pos), rule=_Rule(code), ignore=ignore,
                        warning=warning, fatal=fatal)


def _build_violation(rng, gen):
    return make_violation(rng.choice(["A", "A", "B", "C", "PRS", "TMP", "LXR"]), rng.choice(LINES), rng.choice([1, 1, 5]),
                          rng.choice(["d", "d", "e"]), ignore=rng.random() < 0.2, warning=rng.random() < 0.2,
                          fatal=rng.random() < 0.1)


def _build_directive(rng, gen):
    from sqlfluff.core.rules.noqa import NoQaDirective as D
    return D(rng.choice(LINES), rng.choice([0, 3, 7, 9]), rng.choice(RULE_POOL), rng.choice([None, None, "enable", "disable", "disable"]),
             rng.choice(["noqa", "noqa: x"]), rng.random() < 0.25)


def _build_mask(rng, gen):
    from sqlfluff.core.rules.noqa import IgnoreMask as M
    return M([_build_directive(rng, gen) for _ in range(rng.randint(0, 4))])


def _directive_from_model(f):
    from sqlfluff.core.rules.noqa import NoQaDirective as D
    rules = f.get("rules")
    return D(f.get("line_no", 0), f.get("line_pos", 0), None if rules is None else tuple(rules), f.get("action"),
             f.get("raw_str", ""), bool(f.get("used", False)))


def _mask_from_model(f):
    from sqlfluff.core.rules.noqa import IgnoreMask as M
    return M(list(f.get("_ignore_list") or []))


def _violation_from_model(f):
    return make_violation("A", f.get("line_no", 0), f.get("line_pos", 0), ignore=bool(f.get("ignore", False)),
                          warning=bool(f.get("warning", False)), fatal=bool(f.get("fatal", False)))


_replay.BUILDERS["SQLBaseError"] = _build_violation     # richer than the shared builder; still valid for C33
_replay.BUILDERS["NoQaDirective"] = _build_directive
_replay.BUILDERS["IgnoreMask"] = _build_mask
_replay.FROM_MODEL["NoQaDirective"] = _directive_from_model
_replay.FROM_MODEL["IgnoreMask"] = _mask_from_model
_replay.FROM_MODEL["SQLBaseError"] = _violation_from_model

TRUSTED = []
NOT_COVERED = []
MUTANTS = []
