"""C20 -- noqa directives suppress exactly the specified violations.

Functions under contract (symbolic + native), all in their real source:
   sqlfluff.core.rules.noqa: NoQaDirective._filter_violations_single_line,
                             IgnoreMask._ignore_masked_violations_single_line, ._should_ignore_violation_line_range,
                             ._ignore_masked_violations_line_range, .ignore_masked_violations,
                             .generate_warnings_for_unused
   sqlfluff.core.linter.linted_file: LintedFile.get_violations   (for types=None, fixable=None, no warnings appended)
Assumed (external, functional): SQLBaseError.rule_code, SQLBaseError.fixable.

Top-level postcondition (ignore_masked_violations):  result == [v for v in violations if not hidden(v, directives)],
order kept, with `hidden` = the property's first sentence (spec functions plain_hit / range_off / names below).

Textual front end and mask construction (_parse_noqa, _extract_ignore_from_comment, from_tree, from_source,
from_source_with_dialect, the two call sites in Linter, allowed_rule_ref_map): contracts/c20_front.py.

Native-only companions (kind="native", alias keys, run from BOUNDED[1]): the `used` accounting clauses that need the
PRE-state of a heap field of list elements (`old.<list>[i].used`), which the symbolic engine cannot express.
Bounded stand-ins (BOUNDED): [0] the textual front end (_parse_noqa / _extract_ignore_from_comment / from_tree /
from_source) against an executable grammar written from the documented syntax; [1] hidden/used over every small mask
with call histories; [2] "noqa off hides nothing" and disable_noqa_except end to end.

(Repaired in /repo, see `fixed` in known_findings.json: a range directive whose rule list is the EMPTY tuple -- what
`noqa: disable=X` parses to under `disable_noqa_except` when X is outside the excepted rules -- used to cover EVERY rule.)

Abstract view:  directive = (line_no, rules: None | tuple of codes, action: None | "enable" | "disable",
used (mutable), line_pos, raw_str);  violation = (line_no, rule_code()).
"""
import os as _os

from pyvc.dsl import contract, spec, implies, ref_class, rec_class
from pyvc.ty import INT, BOOL, Text, StrN, TList, TTuple, TOpt, TEnum
from pyvc import replay as _replay

from .types import SQLBaseError as _SharedErr, FixPatch, TemplatedFile  # noqa: F401  shared declarations

PROP = "C20"

Action = TEnum("NoqaAction", ["enable", "disable"])
Code = StrN      # rule codes: z3 native strings, only compared for equality (no type-invariant side facts)
NoQaDirective = ref_class("sqlfluff.core.rules.noqa:NoQaDirective", line_no=INT, line_pos=INT,
                          rules=TOpt(TList(Code)), action=TOpt(Action), raw_str=Text, used=BOOL)
IgnoreMask = ref_class("sqlfluff.core.rules.noqa:IgnoreMask", _ignore_list=TList(NoQaDirective))
# additive field table of the shared declaration (contracts/types.py has line_no, line_pos)
SQLBaseError = ref_class("sqlfluff.core.errors:SQLBaseError", ignore=BOOL, warning=BOOL, fatal=BOOL)

from sqlfluff.core.rules.noqa import IgnoreMask as _IgnoreMaskCls  # noqa: E402  (value of the `cls` parameter)


# ------------------------------------------------------------------ assumed contracts of violation methods
@contract("sqlfluff.core.errors:SQLBaseError.rule_code", PROP, kind="external")
class rule_code:
    """Assumed of every override (SQLBaseError, SQLLintError): a deterministic, effect-free function of the
    object (no function under contract here writes `_code` / `rule`)."""
    types = {"self": SQLBaseError}
    ret = Code
    functional = True

    def ensures(self, result):
        return True


@contract("sqlfluff.core.errors:SQLBaseError.fixable", PROP, kind="external")
class fixable_prop:
    types = {"self": SQLBaseError}
    ret = BOOL
    functional = True

    def ensures(self, result):
        return True


# ------------------------------------------------------------------ specification (from the property text)
# The three predicates below are declared `uninterpreted` with a defining axiom whose body IS the Python body
# (the c30 `first_match` idiom).  Natively they are ordinary functions.  Symbolically each application is one atom
# of (line, code, directive list), so that "the same violation" reached through two lists is recognised by
# congruence instead of by re-proving a four-quantifier formula; the definition is unfolded by the axiom.
# They read only the immutable fields line_no / rules / action of directives (no function here writes them).
def _names_axiom(rules, code, result):
    return result == (rules is None or code in rules)


@spec(uninterpreted=True, axiom=_names_axiom)
def names(rules: TOpt(TList(Code)), code: Code) -> BOOL:
    """a directive's rule list names the rule `code`, or names no rule (None = bare `noqa` / `all`)"""
    return rules is None or code in rules


@spec
def later(ds, k, j):
    """directive j is more recent than directive k: on a later line, or later in file order on the same line"""
    return ds[k].line_no < ds[j].line_no or (ds[k].line_no == ds[j].line_no and k < j)


def _plain_hit_axiom(line, code, ds, n, result):
    return result == any(names(ds[i].rules, code) and ds[i].line_no == line and ds[i].action is None for i in range(0, n))


@spec(uninterpreted=True, axiom=_plain_hit_axiom)
def plain_hit(line: INT, code: Code, ds: TList(NoQaDirective), n: INT) -> BOOL:
    """among the first n directives: a plain noqa comment on that very source line that names the rule or
    names no rule"""
    return any(names(ds[i].rules, code) and ds[i].line_no == line and ds[i].action is None for i in range(0, n))


def _range_off_axiom(line, code, ds, result):
    return result == any(names(ds[k].rules, code) and ds[k].action == "disable" and ds[k].line_no <= line
                         and all(not (names(ds[j].rules, code) and ds[j].action is not None and ds[j].line_no <= line
                                      and later(ds, k, j)) for j in range(len(ds)))
                         for k in range(len(ds)))


@spec(uninterpreted=True, axiom=_range_off_axiom)
def range_off(line: INT, code: Code, ds: TList(NoQaDirective)) -> BOOL:
    """the most recent disable/enable comment at or before the line that covers the rule is a disable:
    some disable directive k at or before the line covers the rule, and no enable/disable directive at or
    before the line that covers the rule is more recent than k"""
    return any(names(ds[k].rules, code) and ds[k].action == "disable" and ds[k].line_no <= line
               and all(not (names(ds[j].rules, code) and ds[j].action is not None and ds[j].line_no <= line
                            and later(ds, k, j)) for j in range(len(ds)))
               for k in range(len(ds)))


@spec
def AX(ds):
    """proof plumbing, always True: bound first in every clause below so that the defining axioms above are
    available outside every quantifier and short-circuit guard"""
    a1 = names(None, "")
    a2 = not plain_hit(0, "", ds, 0)
    a3 = range_off(0, "", ds) or True
    return a1 and a2 and a3


@spec
def covers(d, v):
    """directive d names the rule of violation v, or names no rule"""
    return names(d.rules, v.rule_code())


@spec
def matched(d, v):
    """a noqa comment d on v's own source line names its rule or names no rule"""
    return covers(d, v) and d.line_no == v.line_no


@spec
def hidden_plain(v, ds):
    """a plain noqa comment on v's own source line names its rule or names no rule"""
    return plain_hit(v.line_no, v.rule_code(), ds, len(ds))


@spec
def hidden_range(v, ds):
    """the most recent noqa disable/enable comment at or before v's line that covers its rule is a disable"""
    return range_off(v.line_no, v.rule_code(), ds)


@spec
def hidden(v, ds):
    """THE PROPERTY's first sentence"""
    return hidden_plain(v, ds) or hidden_range(v, ds)


@spec
def distinct(xs):
    """pairwise distinct objects"""
    return all(xs[a] is not xs[b] for a in range(len(xs)) for b in range(a + 1, len(xs)))


@spec
def keeps_order(res, vs):
    """elements of res occur in the relative order they have in vs"""
    return all(implies(res[i] is vs[k] and res[j] is vs[l], k < l)
               for i in range(len(res)) for j in range(i + 1, len(res)) for k in range(len(vs)) for l in range(len(vs)))


# result == [v for v in vs if not P(v)] for pairwise distinct vs, spelled with quantifiers, is the conjunction of
#   (sub)   every result element is one of the inputs            (nothing invented)
#   (clean) no result element satisfies P                        (nothing hidden is kept)
#   (all)   every input with not P occurs in the result           (nothing else hidden)
#   (ord)   keeps_order(result, vs)   and   (dis) distinct(result)
# The five clauses are written out in every contract below (P differs; spec functions are first order).


# ------------------------------------------------------------------ contracts: the single-line path
# Style note: every clause is first bound to a local (`c1 = ...`) and the return is a conjunction of locals.  pyvc
# keeps side facts met while evaluating `a and b` as `a => fact`; with top-level `and` chains of quantified clauses
# those guards are whole clauses.  Binding first keeps the obligations small; the native reading is unchanged.
@contract("sqlfluff.core.rules.noqa:NoQaDirective._filter_violations_single_line", PROP)
class filter_violations_single_line:
    types = {"self": NoQaDirective, "violations": TList(SQLBaseError), "matched_violations": TList(SQLBaseError)}
    ret = TList(SQLBaseError)
    modifies = ["self.used"]

    def requires(self, violations):
        # `assert not self.action` (code); violations are distinct objects (what the linter produces)
        c1 = self.action is None
        c2 = distinct(violations)
        c3 = self.rules is None or len(self.rules) >= 0     # (type invariant; read here so that it is a hypothesis)
        return c1 and c2 and c3

    def ensures(self, violations, result, old):
        ax = names(None, "")
        sub = all(any(result[i] is violations[k] for k in range(len(violations))) for i in range(len(result)))
        clean = all(not matched(self, result[i]) for i in range(len(result)))
        every = all(implies(not matched(self, violations[k]), any(result[i] is violations[k] for i in range(len(result))))
                    for k in range(len(violations)))
        order = keeps_order(result, violations)
        dis = distinct(result)
        # used' == used or (some violation matched)
        used = self.used == (old.self.used or any(matched(self, violations[k]) for k in range(len(violations))))
        return ax and sub and clean and every and order and dis and used


@spec
def hp_upto(v, ds, n):
    """hidden by one of the first n (plain) directives of ds"""
    return plain_hit(v.line_no, v.rule_code(), ds, n)


@spec
def first_matcher_used(ds, vs, n):
    """every directive among the first n that is the FIRST (in list order) to match some violation is used"""
    return all(implies(matched(ds[j], vs[k]) and all(not matched(ds[i], vs[k]) for i in range(0, j)), ds[j].used)
               for j in range(0, n) for k in range(len(vs)))


@contract("sqlfluff.core.rules.noqa:IgnoreMask._ignore_masked_violations_single_line", PROP)
class ignore_masked_violations_single_line:
    types = {"violations": TList(SQLBaseError), "ignore_mask": TList(NoQaDirective)}
    ret = TList(SQLBaseError)
    modifies = ["heap:NoQaDirective.used"]

    def requires(violations, ignore_mask):
        # docstring: "ONLY contain NoQaDirectives with action=None"
        c1 = all(ignore_mask[i].action is None for i in range(len(ignore_mask)))
        c2 = distinct(violations)
        return c1 and c2

    def ensures(violations, ignore_mask, result):
        ax = AX(ignore_mask)
        sub = all(any(result[i] is violations[k] for k in range(len(violations))) for i in range(len(result)))
        clean = all(not hidden_plain(result[i], ignore_mask) for i in range(len(result)))
        every = all(implies(not hidden_plain(violations[k], ignore_mask), any(result[i] is violations[k] for i in range(len(result))))
                    for k in range(len(violations)))
        order = keeps_order(result, violations)
        dis = distinct(result)
        # `used`, post-state part: the first directive that matches a violation is marked; in particular the
        # ONLY covering directive of a hidden violation is marked
        used = first_matcher_used(ignore_mask, violations, len(ignore_mask))
        return ax and sub and clean and every and order and dis and used

    def inv_1(violations, ignore_mask, old, _i):
        ax = AX(ignore_mask)
        sub = all(any(violations[i] is old.violations[k] for k in range(len(old.violations))) for i in range(len(violations)))
        clean = all(not hp_upto(violations[i], ignore_mask, _i) for i in range(len(violations)))
        every = all(implies(not hp_upto(old.violations[k], ignore_mask, _i), any(violations[i] is old.violations[k] for i in range(len(violations))))
                    for k in range(len(old.violations)))
        order = keeps_order(violations, old.violations)
        dis = distinct(violations)
        used = first_matcher_used(ignore_mask, old.violations, _i)
        return ax and sub and clean and every and order and dis and used


# ------------------------------------------------------------------ contracts: the range path
@spec
def live_at(d, line_no):
    """an enable/disable directive at or before the line"""
    return d.action is not None and d.line_no <= line_no


@spec
def last_live(ds, line_no, k):
    """ds[k] is the last enable/disable directive of the (line-sorted) list at or before the line"""
    return live_at(ds[k], line_no) and all(not live_at(ds[j], line_no) for j in range(k + 1, len(ds)))


@contract("sqlfluff.core.rules.noqa:IgnoreMask._should_ignore_violation_line_range", PROP)
class should_ignore_violation_line_range:
    types = {"line_no": INT, "ignore_rules": TList(NoQaDirective), "ignore": BOOL, "last_ignore": TOpt(NoQaDirective)}
    ret = TTuple(BOOL, TOpt(NoQaDirective))
    modifies = ["heap:NoQaDirective.used"]

    def requires(line_no, ignore_rules):
        # docstring: "Sorted in ascending order by line number"
        return all(ignore_rules[a].line_no <= ignore_rules[b].line_no
                   for a in range(len(ignore_rules)) for b in range(a + 1, len(ignore_rules)))

    def ensures(line_no, ignore_rules, result):
        # ignore == the last enable/disable directive at or before line_no is a disable
        c1 = result[0] == any(ignore_rules[k].action == "disable" and last_live(ignore_rules, line_no, k)
                              for k in range(len(ignore_rules)))
        # last_ignore is that directive (None when not ignoring)
        c2 = (result[1] is None) == (not result[0])
        c3 = implies(result[0], any(result[1] is ignore_rules[k] and ignore_rules[k].action == "disable"
                                    and last_live(ignore_rules, line_no, k) for k in range(len(ignore_rules))))
        return c1 and c2 and c3

    def inv_1(line_no, ignore_rules, ignore, last_ignore, _i):
        c1 = all(ignore_rules[j].line_no <= line_no for j in range(0, _i))
        c2 = ignore == any(ignore_rules[k].action == "disable"
                           and all(ignore_rules[j].action is None for j in range(k + 1, _i)) for k in range(0, _i))
        c3 = (last_ignore is None) == (not ignore)
        c4 = implies(ignore, any(last_ignore is ignore_rules[k] and ignore_rules[k].action == "disable"
                                 and all(ignore_rules[j].action is None for j in range(k + 1, _i)) for k in range(0, _i)))
        return c1 and c2 and c3 and c4


@contract("sqlfluff.core.rules.noqa:IgnoreMask._ignore_masked_violations_line_range", PROP)
class ignore_masked_violations_line_range:
    types = {"cls": _IgnoreMaskCls, "violations": TList(SQLBaseError), "ignore_mask": TList(NoQaDirective),
             "result": TList(SQLBaseError)}
    ret = TList(SQLBaseError)
    modifies = ["heap:NoQaDirective.used"]

    def requires(violations, ignore_mask):
        return distinct(violations)

    def ensures(violations, ignore_mask, result):
        ax = AX(ignore_mask)
        sub = all(any(result[i] is violations[k] for k in range(len(violations))) for i in range(len(result)))
        clean = all(not hidden_range(result[i], ignore_mask) for i in range(len(result)))
        every = all(implies(not hidden_range(violations[k], ignore_mask), any(result[i] is violations[k] for i in range(len(result))))
                    for k in range(len(violations)))
        order = keeps_order(result, violations)
        dis = distinct(result)
        return ax and sub and clean and every and order and dis

    def inv_1(violations, ignore_mask, result, _i):
        ax = AX(ignore_mask)
        sub = all(any(result[i] is violations[k] for k in range(0, _i)) for i in range(len(result)))
        # (redundant given `sub` and distinct(violations); spares the solver a detour) nothing from the unprocessed tail
        tail = all(result[i] is not violations[l] for i in range(len(result)) for l in range(_i, len(violations)))
        clean = all(not hidden_range(result[i], ignore_mask) for i in range(len(result)))
        every = all(implies(not hidden_range(violations[k], ignore_mask), any(result[i] is violations[k] for i in range(len(result))))
                    for k in range(0, _i))
        order = keeps_order(result, violations)
        dis = distinct(result)
        return ax and sub and tail and clean and every and order and dis


# ------------------------------------------------------------------ contracts: the top level
@contract("sqlfluff.core.rules.noqa:IgnoreMask.ignore_masked_violations", PROP)
class ignore_masked_violations:
    types = {"self": IgnoreMask, "violations": TList(SQLBaseError)}
    ret = TList(SQLBaseError)
    modifies = ["heap:NoQaDirective.used"]

    def requires(self, violations):
        return distinct(violations)

    def ensures(self, violations, result):
        # result == [v for v in violations if not hidden(v, directives)]   (order kept)
        ax = AX(self._ignore_list)
        sub = all(any(result[i] is violations[k] for k in range(len(violations))) for i in range(len(result)))
        clean = all(not hidden(result[i], self._ignore_list) for i in range(len(result)))
        every = all(implies(not hidden(violations[k], self._ignore_list), any(result[i] is violations[k] for i in range(len(result))))
                    for k in range(len(violations)))
        order = keeps_order(result, violations)
        dis = distinct(result)
        return ax and sub and clean and every and order and dis


# ------------------------------------------------------------------ unused-noqa warnings
@spec
def warns_at(w, d):
    """w is the unused-noqa warning placed at directive d"""
    return w.line_no == d.line_no and w.line_pos == d.line_pos and w.rule_code() == "NOQA" and w.warning


@spec
def before(a, b):
    """source position of a precedes that of b"""
    return (a.line_no, a.line_pos) < (b.line_no, b.line_pos)


@contract("sqlfluff.core.rules.noqa:IgnoreMask.generate_warnings_for_unused", PROP)
class generate_warnings_for_unused:
    types = {"self": IgnoreMask}
    ret = TList(SQLBaseError)
    # the body allocates exception objects inside a filtering comprehension: outside the symbolic subset; the
    # executable contract is run natively on the real function (bounded, labelled so in the evidence)
    opts = {"native_only": True}

    def requires(self):
        # directives are kept in source order; distinct comments start at distinct source positions
        return all(before(self._ignore_list[a], self._ignore_list[b])
                   for a in range(len(self._ignore_list)) for b in range(a + 1, len(self._ignore_list)))

    def ensures(self, result):
        # exactly: one warning per directive with `not used`, none otherwise, in directive order
        c1 = all(any(not self._ignore_list[i].used and warns_at(result[a], self._ignore_list[i])
                     for i in range(len(self._ignore_list))) for a in range(len(result)))
        c2 = all(implies(not self._ignore_list[i].used, any(warns_at(result[a], self._ignore_list[i]) for a in range(len(result))))
                 for i in range(len(self._ignore_list)))
        c3 = all(before(result[a], result[b]) for a in range(len(result)) for b in range(a + 1, len(result)))
        return c1 and c2 and c3


# ------------------------------------------------------------------ LintedFile.get_violations ("noqa off hides nothing")
BaseSegment = ref_class("sqlfluff.core.parser.segments.base:BaseSegment")
FileTimings = ref_class("sqlfluff.core.linter.linted_file:FileTimings")
LintedFile = rec_class("sqlfluff.core.linter.linted_file:LintedFile", path=Text, violations=TList(SQLBaseError),
                       timings=TOpt(FileTimings), tree=TOpt(BaseSegment), ignore_mask=TOpt(IgnoreMask),
                       templated_file=TOpt(TemplatedFile), encoding=Text, source_patches=TOpt(TList(FixPatch)))


@spec
def masked(f, v):
    """hidden by the file's noqa mask; no mask (noqa processing turned off) hides nothing"""
    return hidden(v, f.ignore_mask._ignore_list) if f.ignore_mask is not None else False


@spec
def flag_dropped(v, rules, filter_ignore, filter_warning):
    """removed by the explicit filters of the call, in the code's flag order: rules, ignore, warning"""
    return (((len(rules) > 0 and v.rule_code() not in rules) if rules is not None else False)
            or (filter_ignore and v.ignore) or (filter_warning and v.warning))


@spec
def dropped(f, v, rules, filter_ignore, filter_warning):
    return flag_dropped(v, rules, filter_ignore, filter_warning) or (filter_ignore and masked(f, v))


@contract("sqlfluff.core.linter.linted_file:LintedFile.get_violations", PROP)
class get_violations:
    """Restricted (requires) to types=None, fixable=None, warn_unused_ignores=False: `isinstance(v, types)` with a
    symbolic class tuple and `v.fixable is fixable` on Optional[bool] are outside the engine's subset; the appended
    warnings are generate_warnings_for_unused's contract."""
    types = {"self": LintedFile, "rules": TOpt(TList(Code)), "types": (), "filter_ignore": BOOL, "filter_warning": BOOL,
             "warn_unused_ignores": BOOL, "fixable": TOpt(BOOL), "violations": TList(SQLBaseError)}
    ret = TList(SQLBaseError)
    modifies = ["heap:NoQaDirective.used"]
    opts = {"alphabet": "AB"}

    def requires(self, rules, types, filter_ignore, filter_warning, warn_unused_ignores, fixable):
        c1 = fixable is None and not warn_unused_ignores
        c2 = distinct(self.violations)
        return c1 and c2

    def ensures(self, rules, types, filter_ignore, filter_warning, warn_unused_ignores, fixable, result):
        vs = self.violations
        ax = names(None, "")
        sub = all(any(result[i] is vs[k] for k in range(len(vs))) for i in range(len(result)))
        clean = all(not dropped(self, result[i], rules, filter_ignore, filter_warning) for i in range(len(result)))
        every = all(implies(not dropped(self, vs[k], rules, filter_ignore, filter_warning), any(result[i] is vs[k] for i in range(len(result))))
                    for k in range(len(vs)))
        order = keeps_order(result, vs)
        dis = distinct(result)
        # turning noqa off hides nothing: without a mask only the explicit flags remove anything
        off = implies(self.ignore_mask is None,
                      all(implies(not flag_dropped(vs[k], rules, filter_ignore, filter_warning), any(result[i] is vs[k] for i in range(len(result))))
                          for k in range(len(vs))))
        return ax and sub and clean and every and order and dis and off


# ------------------------------------------------------------------ `used` accounting with history (NATIVE-ONLY)
# These clauses relate the post-state of `used` to its PRE-state for directives reached through a list
# (`old.<list>[i].used`).  pyvc evaluates `old.<list>[i].<field>` in the CURRENT heap (only `old.<ref param>.<field>`
# is read in the entry heap), so a symbolic reading would be vacuous.  They are therefore registered as kind="native"
# contracts under alias keys (same function objects, reached through linted_file's import of IgnoreMask), never
# compiled to SMT, and run with pyvc.replay.search from BOUNDED[1] (bounded, labelled as such).
# Masks with an empty rule tuple are excluded here: they are the subject of the finding of the main contracts.
@spec
def nonempty_rules(ds):
    return all(ds[i].rules is None or len(ds[i].rules) > 0 for i in range(len(ds)))


@spec
def hides(d, v):
    """d is a directive that can hide v: a plain comment on v's line, or a disable at or before it, covering v's rule"""
    return covers(d, v) and ((d.action is None and d.line_no == v.line_no)
                             or (d.action == "disable" and d.line_no <= v.line_no))


@spec
def decides(ds, j, v):
    """ds[j] is THE most recent enable/disable comment at or before v's line that covers v's rule"""
    return (covers(ds[j], v) and ds[j].action is not None and ds[j].line_no <= v.line_no
            and all(not (covers(ds[i], v) and ds[i].action is not None and ds[i].line_no <= v.line_no and later(ds, j, i))
                    for i in range(len(ds))))


@contract("sqlfluff.core.linter.linted_file:IgnoreMask.ignore_masked_violations", PROP, kind="native")
class used_accounting_top:
    types = {"self": IgnoreMask, "violations": TList(SQLBaseError)}

    def requires(self, violations):
        return distinct(violations) and distinct(self._ignore_list) and nonempty_rules(self._ignore_list)

    def ensures(self, violations, result, old):
        ds = self._ignore_list
        ods = old.self._ignore_list
        # never reset
        mono = all(implies(ods[j].used, ds[j].used) for j in range(len(ds)))
        # the only directive that could hide a hidden violation is marked
        sole = all(implies(hidden(violations[k], ds) and hides(ds[j], violations[k])
                           and all(implies(i != j, not hides(ds[i], violations[k])) for i in range(len(ds))), ds[j].used)
                   for j in range(len(ds)) for k in range(len(violations)))
        # a plain / disable directive marked by this call covered a violation this call hid (so: used => it covered a
        # hidden violation of this or an earlier call, by induction over the calls)
        just = all(implies(ds[j].action != "enable" and ds[j].used and not ods[j].used,
                           any(hidden(violations[k], ds) and hides(ds[j], violations[k]) for k in range(len(violations))))
                   for j in range(len(ds)))
        return mono and sole and just


@contract("sqlfluff.core.linter.linted_file:IgnoreMask._ignore_masked_violations_single_line", PROP, kind="native")
class used_accounting_single_line:
    types = {"violations": TList(SQLBaseError), "ignore_mask": TList(NoQaDirective)}

    def requires(violations, ignore_mask):
        return (all(ignore_mask[i].action is None for i in range(len(ignore_mask))) and distinct(violations)
                and distinct(ignore_mask))

    def ensures(violations, ignore_mask, result, old):
        # exactly: used' == used or (it is the first directive, in list order, to match some violation)
        return all(ignore_mask[j].used == (old.ignore_mask[j].used
                                           or any(matched(ignore_mask[j], violations[k])
                                                  and all(not matched(ignore_mask[i], violations[k]) for i in range(0, j))
                                                  for k in range(len(violations))))
                   for j in range(len(ignore_mask)))


@contract("sqlfluff.core.linter.linted_file:IgnoreMask._ignore_masked_violations_line_range", PROP, kind="native")
class used_accounting_line_range:
    types = {"cls": _IgnoreMaskCls, "violations": TList(SQLBaseError), "ignore_mask": TList(NoQaDirective)}

    def requires(violations, ignore_mask):
        return (all(ignore_mask[i].action is not None for i in range(len(ignore_mask))) and distinct(violations)
                and distinct(ignore_mask) and nonempty_rules(ignore_mask))

    def ensures(violations, ignore_mask, result, old):
        mono = all(implies(old.ignore_mask[j].used, ignore_mask[j].used) for j in range(len(ignore_mask)))
        # exactly, for disable directives: used' == used or (it decided the state of some violation)
        dis = all(implies(ignore_mask[j].action == "disable",
                          ignore_mask[j].used == (old.ignore_mask[j].used
                                                  or any(decides(ignore_mask, j, violations[k]) for k in range(len(violations)))))
                  for j in range(len(ignore_mask)))
        return mono and dis


@contract("sqlfluff.core.linter.linted_file:IgnoreMask._should_ignore_violation_line_range", PROP, kind="native")
class used_frame_should_ignore:
    types = {"line_no": INT, "ignore_rules": TList(NoQaDirective)}

    def requires(line_no, ignore_rules):
        return (all(ignore_rules[a].line_no <= ignore_rules[b].line_no
                    for a in range(len(ignore_rules)) for b in range(a + 1, len(ignore_rules))) and distinct(ignore_rules))

    def ensures(line_no, ignore_rules, result, old):
        # frame: only `enable` directives are ever written here, and only towards True
        return all((ignore_rules[i].used == old.ignore_rules[i].used) if ignore_rules[i].action != "enable"
                   else implies(old.ignore_rules[i].used, ignore_rules[i].used) for i in range(len(ignore_rules)))


NATIVE_ONLY = [used_accounting_top, used_accounting_single_line, used_accounting_line_range, used_frame_should_ignore]


# ------------------------------------------------------------------ native builders
# Violations are REAL error objects: SQLLintError with a stand-in rule (codes A, B, C), SQLParseError (PRS),
# SQLTemplaterError (TMP), SQLLexError (LXR).  Small pools => distinct objects that compare equal under
# SQLBaseError.__eq__ occur often (this is what `v not in matched_violations` sees).
class _Pos:
    def __init__(self, ln, lp):
        self.ln, self.lp = ln, lp

    def source_position(self):
        return (self.ln, self.lp)

    def __eq__(self, o):
        return isinstance(o, _Pos) and (self.ln, self.lp) == (o.ln, o.lp)


class _Seg:
    def __init__(self, ln, lp):
        self.pos_marker = _Pos(ln, lp)

    def __eq__(self, o):
        return isinstance(o, _Seg) and self.pos_marker == o.pos_marker


class _Rule:
    def __init__(self, code):
        self.code, self.name = code, "rule." + code.lower()

    def __eq__(self, o):
        return isinstance(o, _Rule) and self.code == o.code

    def __repr__(self):
        return f"<rule {self.code}>"


LINES = [1, 1, 2, 2, 3, 4]
RULE_POOL = [None, None, ("A",), ("B",), ("A", "B"), ("C",), ("PRS",), ("A", "PRS", "TMP")]
# rules == () is what `noqa: disable=X` parses to when `disable_noqa_except` empties the reference of X
# (Linter.allowed_rule_ref_map): the property says such a directive covers nothing.  C20_NO_EMPTY_RULES=1 leaves it
# out of the random pool (used only to tell mutants apart from the finding it triggers).
if not _os.environ.get("C20_NO_EMPTY_RULES"):
    RULE_POOL = RULE_POOL + [()]


def make_violation(code, line_no, line_pos=1, desc="d", ignore=False, warning=False, fatal=False):
    from sqlfluff.core.errors import SQLLintError, SQLParseError, SQLTemplaterError, SQLLexError
    special = {"PRS": SQLParseError, "TMP": SQLTemplaterError, "LXR": SQLLexError}
    if code in special:
        return special[code](description=desc, line_no=line_no, line_pos=line_pos, ignore=ignore, warning=warning, fatal=fatal)
    return SQLLintError(description=desc, segment=_Seg(line_no, line_pos), rule=_Rule(code), ignore=ignore,
                        warning=warning, fatal=fatal)


def _build_violation(rng, gen):
    return make_violation(rng.choice(["A", "A", "B", "C", "PRS", "TMP", "LXR"]), rng.choice(LINES), rng.choice([1, 1, 5]),
                          rng.choice(["d", "d", "e"]), ignore=rng.random() < 0.2, warning=rng.random() < 0.2,
                          fatal=rng.random() < 0.1)


def _build_directive(rng, gen):
    from sqlfluff.core.rules.noqa import NoQaDirective as D
    return D(rng.choice(LINES), rng.choice([0, 3, 7, 9]), rng.choice(RULE_POOL), rng.choice([None, None, "enable", "disable", "disable"]),
             rng.choice(["noqa", "noqa: x"]), rng.random() < 0.25)


def _build_mask(rng, gen):
    from sqlfluff.core.rules.noqa import IgnoreMask as M
    return M([_build_directive(rng, gen) for _ in range(rng.randint(0, 4))])


def _directive_from_model(f):
    from sqlfluff.core.rules.noqa import NoQaDirective as D
    rules = f.get("rules")
    return D(f.get("line_no", 0), f.get("line_pos", 0), None if rules is None else tuple(rules), f.get("action"),
             f.get("raw_str", ""), bool(f.get("used", False)))


def _mask_from_model(f):
    from sqlfluff.core.rules.noqa import IgnoreMask as M
    return M(list(f.get("_ignore_list") or []))


def _violation_from_model(f):
    return make_violation("A", f.get("line_no", 0), f.get("line_pos", 0), ignore=bool(f.get("ignore", False)),
                          warning=bool(f.get("warning", False)), fatal=bool(f.get("fatal", False)))


_replay.BUILDERS["SQLBaseError"] = _build_violation     # richer than the shared builder; still valid for C33
_replay.BUILDERS["NoQaDirective"] = _build_directive
_replay.BUILDERS.setdefault("BaseSegment", lambda rng, gen: None)     # never read by get_violations
_replay.BUILDERS["FileTimings"] = lambda rng, gen: None
_replay.BUILDERS["IgnoreMask"] = _build_mask
_replay.FROM_MODEL["NoQaDirective"] = _directive_from_model
_replay.FROM_MODEL["IgnoreMask"] = _mask_from_model
_replay.FROM_MODEL["SQLBaseError"] = _violation_from_model


# ================================================================== BOUNDED stand-ins
def _failed(name, ident, function, detail):
    return {"name": name, "id": ident, "kind": "bounded", "status": "failed", "function": function,
            "backend": "CPython (bounded enumeration)", "detail": detail, "reproduced": True}


# ------------------------------------------------------------------ [0] the textual front end
# Executable grammar, written from docs/source/configuration/ignoring_configuration.rst:
#     -- noqa                          ignore all errors on the line
#     -- noqa: <ref>[,<ref>...]        ignore the referenced rules on the line
#     -- noqa: disable=<ref>[,...] | all     from this line forward      (also spelled `noqa:disable=...`)
#     -- noqa: enable=<ref>[,...] | all
# "Comment lines can also have noqa" (`--some text -- noqa: LT05`): the directive is what follows the LAST `--`.
# A reference is a code, name, group, alias or glob over those; a reference that matches nothing is kept literally
# (PRS / TMP / LXR).  Anything else that starts with `noqa` is malformed (an error, not a directive).
def spec_expand(ref, refmap):
    import fnmatch
    hit = [k for k in refmap if fnmatch.fnmatchcase(k, ref)]
    return set().union(*[refmap[k] for k in hit]) if hit else {ref}


def spec_parse(text, refmap):
    """-> ("none",) | ("error",) | ("directive", rules: None | sorted tuple, action: None|"enable"|"disable")"""
    tail = text.rsplit("--", 1)[-1].strip()
    if not tail.startswith("noqa"):
        return ("none",)
    rest = tail[4:]
    if rest == "":
        return ("directive", None, None)
    if rest[0] != ":":
        return ("error",)
    body = rest[1:].strip()
    if body == "":
        return ("directive", None, None)
    if "=" in body:
        action, _, rule_text = body.partition("=")
        if action not in ("enable", "disable"):
            return ("error",)
    else:
        action, rule_text = None, body
        if rule_text in ("enable", "disable"):
            return ("error",)
    if rule_text == "all":
        return ("directive", None, action)
    out = set()
    for ref in rule_text.split(","):
        out |= spec_expand(ref.strip(), refmap)
    return ("directive", tuple(sorted(out)), action)


def spec_strip_comment(raw):
    """comment segment text -> the text handed to the directive grammar (comment markers removed)"""
    t = raw
    for lead in ("--", "#"):
        if t.startswith(lead):
            t = t[len(lead):]
            break
    t = t.strip()
    if t.endswith("*/"):
        t = t[:-2].rstrip()
    if t.startswith("/*"):
        t = t[2:].lstrip()
    return t


SMALL_MAP = {"LT01": {"LT01"}, "LT02": {"LT02"}, "AL01": {"AL01"}, "CP01": {"CP01"},
             "layout.spacing": {"LT01"}, "layout.indent": {"LT02"}, "aliasing.table": {"AL01"}, "capitalisation.keywords": {"CP01"},
             "layout": {"LT01", "LT02"}, "aliasing": {"AL01"}, "capitalisation": {"CP01"}, "core": {"LT01", "AL01", "CP01"},
             "all": {"LT01", "LT02", "AL01", "CP01"}, "L001": {"LT01"}, "L011": {"AL01"}, "L010": {"CP01"}}
REFS = ["LT01", "AL01", "layout.spacing", "aliasing.table", "layout", "core", "all", "L001", "L011",     # code name group alias
        "LT*", "L*", "*01", "layout.*", "AL0?", "[AC]*01",                                                    # globs
        "ZZ99", "PRS", "TMP", "LXR", "lt01", "disable", ""]                                                   # unmatched
MALFORMED = ["noqa?", "noqa LT01", "noqab", "noqa :LT01", "noqa: disable", "noqa:enable", "noqa: foo=LT01", "noqa: Disable=all",
             "noqa: disable =all", "noqa=LT01"]
NOT_DIRECTIVES = ["", "no qa", "NOQA", "xnoqa: LT01", "a noqa", "just a comment", "no", "noq"]


def _directive_bodies(tier):
    refs = REFS if tier == "thorough" else REFS
    yield "noqa"
    yield "noqa:"
    yield "noqa: "
    rule_lists = ["all"] + refs[:-1] + [a + sep + b for a in refs for b in refs for sep in (",", ", ")]
    if tier == "thorough":
        rule_lists += [a + "," + b + " , " + c for a in refs[:8] for b in refs[8:16] for c in refs[14:]]
    for rl in rule_lists:
        for sp in ("", " "):
            yield "noqa:" + sp + rl
            yield "noqa:" + sp + "disable=" + rl
            yield "noqa:" + sp + "enable=" + rl
    for x in MALFORMED + NOT_DIRECTIVES:
        yield x


def _show(r):
    from sqlfluff.core.errors import SQLParseError
    from sqlfluff.core.rules.noqa import NoQaDirective as D
    if r is None:
        return ("none",)
    if isinstance(r, SQLParseError):
        return ("error",)
    if isinstance(r, D):
        return ("directive", r.rules, r.action)
    return ("?", repr(r))


def bounded_front_end(tier, seed):
    """_parse_noqa on every directive of the grammar x comment prefixes; from_tree (real lexer, inline and block
    comments, _extract_ignore_from_comment) and from_source (regex path) on a sample; real reference map on a sample."""
    import random
    from sqlfluff.core import FluffConfig, Linter
    from sqlfluff.core.parser import Lexer, BaseSegment
    from sqlfluff.core.rules.noqa import IgnoreMask as M, NoQaDirective as D
    rng = random.Random(seed)
    fn = "sqlfluff.core.rules.noqa:IgnoreMask._parse_noqa"
    failed, evals, nontrivial, samples = [], 0, set(), []
    bodies = list(dict.fromkeys(_directive_bodies(tier)))
    prefixes = ["", "-- ", "--", "some text -- ", "-- a -- b --", "x--y -- "]

    def check(kind, text, got, want, extra=""):
        nonlocal evals
        evals += 1
        if want[0] != "none":
            nontrivial.add((kind, text))
        if got != want:
            if len(failed) < 5:
                failed.append(_failed(f"C20/front-end/{kind}", f"C20/front-end/{kind}", fn,
                                      {"comment": text, "got": repr(got), "grammar_spec": repr(want), "note": extra}))
        elif len(samples) < 4 and want[0] == "directive" and want[1] and len(want[1]) > 1:
            samples.append({"comment": text, "parsed": repr(got)})

    # (a) _parse_noqa, exhaustively over the grammar, synthetic reference map
    for b in bodies:
        for pre in prefixes:
            text = pre + b
            r = M._parse_noqa(text, 3, 7, SMALL_MAP)
            check("parse_noqa", text, _show(r), spec_parse(text, SMALL_MAP))
            if isinstance(r, D) and (r.line_no, r.line_pos, r.raw_str, r.used) != (3, 7, text.rsplit("--", 1)[-1].strip(), False):
                check("parse_noqa-fields", text, (r.line_no, r.line_pos, r.raw_str, r.used), "(3, 7, <tail>, False)")
    # (b) the real reference map of the bundled rules: codes, names, groups, aliases, globs
    cfg = FluffConfig(overrides={"dialect": "ansi"})
    real_map = Linter(config=cfg).get_rulepack().reference_map
    real_refs = ["LT01", "layout.spacing", "layout", "core", "L003", "L0*", "LT0[12]", "capitalisation.*", "AL*", "PRS", "TMP", "LXR", "nope"]
    for a in real_refs:
        for b2 in real_refs:
            for act in ("", "disable=", "enable="):
                text = "-- noqa: " + act + a + "," + b2
                check("parse_noqa-real-map", text, _show(M._parse_noqa(text, 1, 0, real_map)), spec_parse(text, real_map))
    # (c) comment segments from the real lexer -> from_tree / _extract_ignore_from_comment ; regex path -> from_source
    lexer = Lexer(config=cfg)
    dialect = cfg.get("dialect_obj")
    pool = bodies if tier == "thorough" else rng.sample(bodies, min(len(bodies), 700))
    forms = [("-- {}", True), ("--{}", True), ("-- text -- {}", True), ("/* {} */", False), ("/*{}*/", False), ("/*  {}  */", False)]
    for b in pool:
        if "\n" in b:
            continue
        for form, inline in forms:
            comment = form.format(b)
            sql = "SELECT 1\nFROM t " + comment + "\n"
            want = spec_parse(spec_strip_comment(comment), SMALL_MAP)
            toks, _ = lexer.lex(sql)
            got_mask, got_errs = M.from_tree(BaseSegment(toks), SMALL_MAP)
            ds = got_mask._ignore_list
            got = ("none",) if not ds and not got_errs else (("error",) if got_errs and not ds else
                                                             ("directive", ds[0].rules, ds[0].action) if len(ds) == 1 and not got_errs else ("?", repr(ds), repr(got_errs)))
            check("from_tree", comment, got, want)
            if want[0] == "directive" and len(ds) == 1 and (ds[0].line_no, ds[0].line_pos) != (2, 8):
                check("from_tree-position", comment, (ds[0].line_no, ds[0].line_pos), (2, 8))
            if inline:
                m2, e2 = M.from_source_with_dialect(sql, dialect, SMALL_MAP)
                d2 = m2._ignore_list
                got2 = ("none",) if not d2 and not e2 else (("error",) if e2 and not d2 else
                                                            ("directive", d2[0].rules, d2[0].action) if len(d2) == 1 and not e2 else ("?", repr(d2), repr(e2)))
                check("from_source", comment, got2, want)
                if want[0] == "directive" and len(d2) == 1 and d2[0].line_no != 2:
                    check("from_source-line", comment, d2[0].line_no, 2)
    return {"name": "noqa front end vs executable grammar", "bound": f"{len(bodies)} directive texts x {len(prefixes)} prefixes (_parse_noqa, exhaustive); "
            f"{len(pool)} texts x {len(forms)} comment forms through the real lexer (from_tree / from_source); {len(real_refs) ** 2 * 3} texts on the real reference map",
            "rule": "parsed (rules, action) / error / no-directive must equal spec_parse of the comment text (documented syntax, docs/source/configuration/ignoring_configuration.rst)",
            "evaluations": evals, "distinct_nontrivial": len(nontrivial), "samples": samples, "failed": failed}


# ------------------------------------------------------------------ [1] small-scope semantics incl. call histories
def _ref_hidden(code, line, ds):
    """independent reading of the property (a state machine, not the quantifier text of `hidden`)"""
    if any(d.action is None and d.line_no == line and (d.rules is None or code in d.rules) for d in ds):
        return True
    state = None
    for d in sorted((d for d in ds if d.action is not None and (d.rules is None or code in d.rules)), key=lambda d: d.line_no):
        if d.line_no <= line:
            state = d.action
    return state == "disable"


def bounded_mask_semantics(tier, seed):
    """Every mask of <= K directives over 3 lines x {all, A, B} x {plain, enable, disable}, every set of <= 2 violations,
    applied TWICE (second call with another violation set): result == filter by the independent reference AND by the
    contract's `hidden`; `used` accounting across the two calls; unused warnings == directives never justified.
    Then the native-only `used` contracts under random search."""
    import itertools
    import random
    from sqlfluff.core.rules.noqa import IgnoreMask as M, NoQaDirective as D
    from pyvc.dsl import CONTRACTS
    rng = random.Random(seed)
    fn = "sqlfluff.core.rules.noqa:IgnoreMask.ignore_masked_violations"
    lines, codes = [1, 2, 3], ["A", "B"]
    dir_opts = [(l, r, a) for l in lines for r in (None, ("A",), ("B",)) for a in (None, "enable", "disable")]
    viol_opts = [(c, l) for c in codes for l in lines]
    viol_sets = [vs for n in (1, 2) for vs in itertools.combinations(viol_opts, n)]
    failed, evals, nontrivial, samples = [], 0, 0, []

    def covers_(d, c):
        return d.rules is None or c in d.rules

    def can_hide(d, c, l):
        return covers_(d, c) and ((d.action is None and d.line_no == l) or (d.action == "disable" and d.line_no <= l))

    def one(combo, vs1, vs2):
        nonlocal evals, nontrivial
        ds = [D(l, 1 + 4 * i, r, a, "noqa") for i, (l, r, a) in enumerate(combo)]
        mask = M(ds)
        justified = [False] * len(ds)
        for vs in (vs1, vs2):
            objs = [make_violation(c, l) for (c, l) in vs]
            before_used = [d.used for d in ds]
            out = mask.ignore_masked_violations(list(objs))
            evals += 1
            want = [v for v in objs if not _ref_hidden(v.rule_code(), v.line_no, ds)]
            want2 = [v for v in objs if not hidden(v, ds)]
            if len(want) != len(objs):
                nontrivial += 1
            bad = None
            if [id(x) for x in out] != [id(x) for x in want]:
                bad = "result differs from the property's filter"
            elif [id(x) for x in want] != [id(x) for x in want2]:
                bad = "contract spec `hidden` differs from the independent reference reading"
            hid = [v for v in objs if _ref_hidden(v.rule_code(), v.line_no, ds)]
            for j, d in enumerate(ds):
                if any(can_hide(d, v.rule_code(), v.line_no) for v in hid):
                    justified[j] = True
                if d.action != "enable" and d.used and not justified[j]:
                    bad = bad or f"directive {j} marked used although it never covered a hidden violation"
                if before_used[j] and not d.used:
                    bad = bad or f"directive {j}: used flag reset"
            for v in hid:
                cov = [j for j, d in enumerate(ds) if can_hide(d, v.rule_code(), v.line_no)]
                if len(cov) == 1 and not ds[cov[0]].used:
                    bad = bad or f"directive {cov[0]} is the only one covering a hidden violation but is not marked used"
            warned = [(w.line_no, w.line_pos) for w in mask.generate_warnings_for_unused()]
            if warned != [(d.line_no, d.line_pos) for d in ds if not d.used]:
                bad = bad or "unused warnings are not exactly the directives with used == False"
            if bad and len(failed) < 5:
                failed.append(_failed("C20/mask-semantics/small-scope", "C20/mask-semantics/small-scope", fn,
                                      {"directives(line, rules, action)": list(combo), "violations(code, line) call 1": list(vs1),
                                       "call 2": list(vs2), "what": bad, "returned": [(v.rule_code(), v.line_no) for v in out]}))
            if bad:
                return
        if len(samples) < 3 and len(combo) == 3 and any(d.used for d in ds) and not all(d.used for d in ds):
            samples.append({"directives": list(combo), "call1": list(vs1), "call2": list(vs2), "used": [d.used for d in ds]})

    kmax = 3 if tier == "thorough" else 2
    for k in range(1, kmax + 1):
        for combo in itertools.product(dir_opts, repeat=k):
            for vs1 in viol_sets:
                one(combo, vs1, viol_sets[(hash((combo, vs1)) + seed) % len(viol_sets)])
    if tier != "thorough":
        for _ in range(25000):                       # a random slice of the K=3 space
            combo = tuple(rng.choice(dir_opts) for _ in range(3))
            one(combo, rng.choice(viol_sets), rng.choice(viol_sets))
    # native-only `used` contracts (pre/post state of list elements), random search with the real function
    tries = 30000 if tier == "thorough" else 4000
    for c in NATIVE_ONLY:
        r = _replay.search(c, seed, tries)
        evals += r.get("admissible", 0)
        nontrivial += r.get("distinct", 0)
        if r.get("failure") or r.get("errors") or r.get("skipped"):
            failed.append(_failed(f"C20/used-accounting/{c.name}", f"C20/used-accounting/{c.name}", c.key,
                                  {"search": {k2: r.get(k2) for k2 in ("failure", "first_error", "skipped")}}))
    return {"name": "mask semantics and `used` accounting, small scope with call histories",
            "bound": f"all masks of <= {kmax} directives (3 lines x {{all,A,B}} x {{plain,enable,disable}}) x all sets of <= 2 violations, two calls each"
                     + ("" if tier == "thorough" else " + 25000 random masks of 3 directives") + f"; {tries} random tries per native-only `used` contract",
            "rule": "result == [v | not hidden(v)] (independent reference == contract spec); used marks monotone; used (plain/disable) => covered a hidden "
                    "violation of this or an earlier call; sole coverer of a hidden violation => used; warnings == directives with not used",
            "evaluations": evals, "distinct_nontrivial": nontrivial, "samples": samples, "failed": failed}


# ------------------------------------------------------------------ [2] end to end: noqa off / disable_noqa_except
E2E_SQL = [
    "SELECT a  FROM tbl; -- noqa\nSELECT b  FROM tbl2;\n",
    "SELECT a  FROM tbl; -- noqa: LT01\nSELECT b  from tbl2; -- noqa: CP01\n",
    "SELECT a  FROM tbl; -- noqa: disable=all\nSELECT b  FROM tbl2;\nSELECT  1; -- noqa: enable=all\nSELECT  2;\n",
    "/* noqa: disable=LT01 */\nSELECT a  FROM tbl;\nSELECT b  from tbl2;\n",
    "SELECT a  FROM tbl; -- noqa: disable=AL01\nSELECT b  FROM tbl2 t;\n",
    "SELECT 1 FROM (((  -- noqa: PRS\nSELECT  2\n",
    "SELECT {{ foo( }} FROM t -- noqa: TMP\nSELECT  1\n",          # fatal templating failure: source-based fallback
    "SELECT a  FROM tbl; -- noqa: \nSELECT  2; -- noqa:LT0*,capitalisation\n",
]


def bounded_end_to_end(tier, seed):
    """(i) disable_noqa (without disable_noqa_except): the mask is None and exactly the violations of the same file
    with its directives defused are reported.  (ii) disable_noqa_except=X: a directive naming only rules outside X hides
    nothing (its references expand to no rule at all)."""
    from sqlfluff.core import FluffConfig, Linter
    failed, evals, nontrivial, samples = [], 0, 0, []
    fn = "sqlfluff.core.linter.linter:Linter.lint_parsed"

    def lint(sql, **ov):
        lf = Linter(config=FluffConfig(overrides=dict(dialect="ansi", **ov))).lint_string(sql)
        return lf, [(v.rule_code(), v.line_no, v.line_pos) for v in lf.get_violations()]

    for sql in E2E_SQL:
        lf_on, shown_on = lint(sql)
        lf_off, shown_off = lint(sql, disable_noqa=True)
        _, shown_defused = lint(sql.replace("noqa", "nqqa"))
        evals += 1
        if shown_on != shown_off:
            nontrivial += 1
        raw_off = [(v.rule_code(), v.line_no, v.line_pos) for v in lf_off.violations if not v.ignore and not v.warning]
        if lf_off.ignore_mask is not None or shown_off != raw_off or shown_off != shown_defused:
            failed.append(_failed("C20/end-to-end/disable_noqa", "C20/end-to-end/disable_noqa", fn,
                                  {"sql": sql, "config": {"disable_noqa": True}, "mask": repr(lf_off.ignore_mask), "reported": shown_off,
                                   "unfiltered": raw_off, "same file with directives defused": shown_defused}))
        elif len(samples) < 2 and shown_on != shown_off:
            samples.append({"sql": sql, "reported with noqa": shown_on, "with disable_noqa": shown_off})
    # (ii) directives that name only rules outside disable_noqa_except
    cases = [("SELECT a  FROM tbl; -- noqa: disable=AL01\nSELECT b  FROM tbl2;\n", "CP01"),
             ("SELECT a  FROM tbl; -- noqa: AL01\nSELECT b  FROM tbl2;\n", "CP01"),
             ("SELECT a  FROM tbl; -- noqa: disable=all\nSELECT b  FROM tbl2;\nSELECT  1; -- noqa: enable=LT01\nSELECT  2;\n", "CP01"),
             ("SELECT a  FROM tbl; -- noqa: disable=LT01\nSELECT b  FROM tbl2;\n", "LT01")]
    for sql, exc in cases:
        lf, shown = lint(sql, disable_noqa_except=exc)
        ds = lf.ignore_mask._ignore_list if lf.ignore_mask else []
        # ground truth: every violation of the file (directives defused, so that nothing is dropped while crawling)
        lf_all, _ = lint(sql.replace("noqa", "nqqa"), disable_noqa_except=exc)
        want = [(v.rule_code(), v.line_no, v.line_pos) for v in lf_all.violations
                if not v.ignore and not v.warning and not hidden(v, ds)]
        evals += 1
        nontrivial += 1
        if shown != want:
            failed.append(_failed("C20/end-to-end/disable_noqa_except-range-directive", "C20/end-to-end/disable_noqa_except-range-directive",
                                  "sqlfluff.core.rules.noqa:IgnoreMask._ignore_masked_violations_line_range",
                                  {"sql": sql, "config": {"disable_noqa_except": exc}, "parsed directives": repr(ds), "reported": shown,
                                   "property (hidden iff a directive COVERING the rule ...)": want,
                                   "cause": "noqa.py:311 `if not ignore.rules` treats the empty tuple (references that expand to no allowed rule) like None (= all rules)"}))
    return {"name": "noqa off / disable_noqa_except, end to end through Linter.lint_string", "bound": f"{len(E2E_SQL)} files x 3 configurations + {len(cases)} disable_noqa_except cases",
            "rule": "disable_noqa => ignore_mask is None and reported == unfiltered == same file with directives defused; with disable_noqa_except reported == [v | not hidden(v, parsed directives)]",
            "evaluations": evals, "distinct_nontrivial": nontrivial, "samples": samples, "failed": failed}


BOUNDED = [bounded_front_end, bounded_mask_semantics, bounded_end_to_end]

SHARDS = {"sqlfluff.core.rules.noqa:IgnoreMask._ignore_masked_violations_line_range": 6,
          "sqlfluff.core.linter.linted_file:LintedFile.get_violations": 4}
TIMEOUT_MS = 20000

TRUSTED = [
    "SQLBaseError.rule_code / .fixable of every error class: deterministic, effect-free functions of the object",
    "`v not in matched_violations` (noqa.py:48) uses SQLBaseError.__eq__ (same class, equal __dict__); the engine reads `in` on a list of "
    "references as identity.  Assumed: violations that compare equal have the same line_no and rule_code() (true for the five concrete "
    "error classes: __dict__ holds line_no and, for SQLLintError, the rule), hence 'equal to a matched violation' implies 'matched' and both "
    "readings give the same filter.  The native search runs the real __eq__ on pools with many equal, distinct objects.",
    "abstract view of NoQaDirective.action as None | 'enable' | 'disable' (what _parse_noqa produces: proved there as the precondition "
    "of the constructor, contracts/c20_front.py); "
    "rules as None | list of codes; directive lists are in file order (IgnoreMask.from_tree crawls the tree in source order), so "
    "'most recent on the same line' is 'later in the list'",
    "violations handed to the mask are pairwise distinct objects (precondition of the five filter contracts; "
    "LintedFile.violations comes out of deduplicate_in_source_space)",
    "defining axioms of the uninterpreted spec functions names / plain_hit / range_off (their bodies, verbatim); they read only "
    "the fields line_no / rules / action of directives, which no function under contract writes",
    "builtins.sorted is a stable permutation ordered by key (engine model)",
]
NOT_COVERED = [
    "`used` accounting that needs the pre-state of list elements (monotone; used => covered a hidden violation of this or an earlier call; "
    "sole coverer => used at the top level; exact marks of the helpers): native-only contracts + BOUNDED[1], not SMT "
    "(pyvc reads old.<list>[i].<field> in the current heap, and a callee whose frame is 'only enable directives of this list' cannot be declared)",
    "marks on `enable` directives (set when the directive closes a disable or is the first one after the violation's line) are code-specific; the "
    "property is read as constraining the directives that can hide (plain, disable)",
    "IgnoreMask.generate_warnings_for_unused: contract validated natively only (object construction inside a comprehension is outside the engine's subset); "
    "the warning's description text is not specified",
    "LintedFile.get_violations is proved for types=None, fixable=None, warn_unused_ignores=False",
    "BaseRule._process_lint_result calls ignore_masked_violations([lerr]) while crawling (one violation per call): covered as a client of the "
    "top-level contract, not executed symbolically; cli.commands (the `parse`/render path) builds its own mask the same way",
    "from_source reports line_pos as a 0-based offset, from_tree as a 1-based column (only the position of unused-noqa warnings is affected; C23)",
]
MUTANTS = [
    ("single_line_next_line", "sqlfluff/core/rules/noqa.py", "                v.line_no == self.line_no\n", "                v.line_no == self.line_no + 1\n"),
    ("none_matches_nothing", "sqlfluff/core/rules/noqa.py", "and (self.rules is None or v.rule_code() in self.rules)", "and (self.rules is not None and v.rule_code() in self.rules)"),
    ("plain_forgets_used", "sqlfluff/core/rules/noqa.py", "            self.used = True\n            return [v for v in violations if v not in matched_violations]", "            return [v for v in violations if v not in matched_violations]"),
    ("plain_drops_whole_line", "sqlfluff/core/rules/noqa.py", "return [v for v in violations if v not in matched_violations]", "return [v for v in violations if v.line_no != self.line_no]"),
    ("range_same_line_excluded", "sqlfluff/core/rules/noqa.py", "            if ignore_rule.line_no > line_no:\n", "            if ignore_rule.line_no >= line_no:\n"),
    ("enable_acts_as_disable", "sqlfluff/core/rules/noqa.py", "                last_ignore = None\n                ignore = False\n", "                last_ignore = None\n                ignore = True\n"),
    ("range_unsorted", "sqlfluff/core/rules/noqa.py", "                key=lambda ignore: ignore.line_no,\n", "                key=lambda ignore: -ignore.line_no,\n"),
    ("range_forgets_used", "sqlfluff/core/rules/noqa.py", "            elif last_ignore:\n                last_ignore.used = True\n", "            elif last_ignore:\n                pass\n"),
    ("range_keeps_hidden", "sqlfluff/core/rules/noqa.py", "            if not ignore:\n                result.append(v)\n", "            if True:\n                result.append(v)\n"),
    ("skip_range_step", "sqlfluff/core/rules/noqa.py", "        violations = self._ignore_masked_violations_line_range(violations, ignore_range)\n", "        pass\n"),
    ("warn_for_used", "sqlfluff/core/rules/noqa.py", "            if not ignore.used\n", "            if ignore.used\n"),
    ("unmatched_ref_dropped", "sqlfluff/core/rules/noqa.py", "                                expanded_rules.add(r)\n", "                                pass\n"),
    ("block_comment_not_stripped", "sqlfluff/core/rules/noqa.py", "            comment_content = comment_content[2:].lstrip()\n", "            pass\n"),
    ("noqa_off_still_masks", "sqlfluff/core/linter/linter.py", "        if not config.get(\"disable_noqa\") or disable_noqa_except:\n", "        if True:\n"),
    ("get_violations_masks_unfiltered", "sqlfluff/core/linter/linted_file.py", "            violations = [v for v in violations if not v.ignore]\n            # Ignore any rules in the ignore mask\n            if self.ignore_mask:", "            violations = [v for v in violations if not v.ignore]\n        if True:\n            # Ignore any rules in the ignore mask\n            if self.ignore_mask:"),
]


def bounded_from_source_lines(tier, seed):
    """IgnoreMask.from_source (raw-source scan used when there is no parse tree): a directive's line number is one more
    than the number of '\\n' before its comment -- the same line notion violations use (C31) -- for sources whose earlier
    lines contain every other Unicode line-boundary character."""
    import random
    from sqlfluff.core import FluffConfig, Linter
    from sqlfluff.core.dialects import dialect_selector
    from sqlfluff.core.rules.noqa import IgnoreMask as IM
    rng = random.Random(seed)
    seps = ["\x0b", "\x0c", "\x1c", "\x1d", "\x1e", "\x85", " ", " ", "\r", "\t", " "]
    dialect = dialect_selector("ansi")
    n = 4000 if tier == "thorough" else 600
    ev, nontriv, failed, samples = 0, 0, [], []
    for _ in range(n):
        lines = []
        for _k in range(rng.randint(1, 4)):
            body = "".join(rng.choice(["a", " ", "1"] + seps) for _ in range(rng.randint(0, 5)))
            lines.append("select " + body + (" -- c" + rng.choice(seps) + "x" if rng.random() < 0.4 else ""))
        at = rng.randrange(len(lines))
        lines[at] = lines[at].split(" -- ")[0] + " -- noqa: LT01"
        src = "\n".join(lines) + ("\n" if rng.random() < 0.5 else "")
        ev += 1
        mask, _errs = IM.from_source_with_dialect(src, dialect, {"LT01": {"LT01"}})
        want = 1 + src[: src.index("-- noqa")].count("\n")
        got = [d.line_no for d in mask._ignore_list]
        nontriv += 1 if any(s in src for s in seps[:9]) else 0
        if len(samples) < 3:
            samples.append({"source": src, "directive_lines": got})
        if want not in got or len(got) != 1:
            if not failed:
                failed.append({"name": "C20/front-end/from_source-line-numbers", "id": "C20/front-end/from_source-line-numbers",
                               "kind": "bounded", "status": "failed", "function": "sqlfluff.core.rules.noqa:IgnoreMask.from_source",
                               "detail": {"source": src, "expected_line": want, "observed_lines": got}, "reproduced": True})
    return {"name": "from_source-line-numbers", "bound": f"{n} random sources of <= 4 lines with exotic separators",
            "rule": "non-trivial = contains a non-LF line-boundary character", "evaluations": ev,
            "distinct_nontrivial": nontriv, "samples": samples, "failed": failed}


BOUNDED.append(bounded_from_source_lines)
SHARDS["sqlfluff.core.rules.noqa:IgnoreMask._ignore_masked_violations_line_range"] = 12


# ------------------------------------------------------------------ textual front end and mask construction (contracts/c20_front.py)
from . import c20_front as _front  # noqa: E402

MUTANTS = MUTANTS + _front.MUTANTS
BOUNDED = BOUNDED + _front.BOUNDED
TRUSTED = TRUSTED + _front.TRUSTED
NOT_COVERED = NOT_COVERED + _front.NOT_COVERED


# ------------------------------------------------------------------ directives in TEMPLATED files (bounded, labelled)
def bounded_templated_directive_lines(tier="quick", seed=0):
    """BOUNDED: in a templated file the rendered text has other line numbers than the source (multi-line `{% set %}` / `{# #}`
    blocks, loops).  Violations are reported at SOURCE lines, so a directive must be placed at the source line of its comment:
    `-- noqa: X` hides exactly the X violations of its own source line.  Oracle: the unhidden set is the run with disable_noqa;
    the directive lines are read from the raw source text."""
    import re
    from sqlfluff.core import Linter, FluffConfig
    pre = ["{% set x = 1\n%}\n", "{# a\n   multi-line\n   comment #}\n", "{% for i in [1, 2, 3] %}\n-- {{ i }}\n{% endfor %}\n", "",
           "{% set y = [\n  1,\n  2\n] %}\n{# c #}\n"]
    bodies = ["SELECT\n    col_a a, -- noqa: AL02\n    col_b b\nFROM foo\n",
              "SELECT\n    col_a a,\n    col_b b -- noqa: AL02\nFROM foo\n",
              "SELECT\n    col_a a, -- noqa\n    col_b b\nFROM foo\n",
              "SELECT col_a a, col_b b FROM foo -- noqa: AL02\n",
              "SELECT\n    col_a a, -- noqa: disable=AL02\n    col_b b,\n    col_c c\n-- noqa: enable=AL02\nFROM foo f\n"]
    failed, samples, ev = [], [], 0

    def run(sql, **over):
        cfg = FluffConfig(overrides=dict({"dialect": "ansi", "templater": "jinja", "rules": "AL02"}, **over))
        return sorted((v.rule_code(), v.line_no) for v in Linter(config=cfg).lint_string(sql).get_violations())
    for p in pre:
        for b in bodies:
            sql = p + b
            ev += 1
            everything = run(sql, disable_noqa=True)
            visible = run(sql)
            lines = sql.split("\n")
            hidden_lines, rng_on = set(), False
            for ln, text in enumerate(lines, 1):
                m = re.search(r"-- noqa(?::\s*(.*))?$", text)
                arg = (m.group(1) or "").strip() if m else None
                if m and arg.startswith("disable="):
                    rng_on = True
                if m and arg.startswith("enable="):
                    rng_on = False
                if rng_on or (m and not arg.startswith(("disable=", "enable="))):
                    hidden_lines.add(ln)
            expected = [v for v in everything if v[1] not in hidden_lines]
            if len(samples) < 3 and p:
                samples.append({"source": sql, "all": everything, "visible": visible})
            if visible != expected and not failed:
                failed.append({"name": "C20/templated/directive-at-source-line", "id": "C20/templated/directive-at-source-line", "kind": "bounded",
                               "status": "failed", "function": "sqlfluff.core.rules.noqa:IgnoreMask._extract_ignore_from_comment",
                               "detail": {"source": sql, "violations_without_noqa": everything, "expected_visible": expected, "visible": visible},
                               "reproduced": True})
    return {"name": "templated-directive-lines", "bound": f"{len(pre)} jinja prefixes (multi-line set / comment / loop / none) x {len(bodies)} bodies with AL02 violations and noqa directives",
            "rule": "one evaluation = two lint runs of one template (with and without disable_noqa); non-trivial = prefix changes the line numbering",
            "evaluations": ev, "distinct_nontrivial": sum(1 for p in pre if p) * len(bodies), "samples": samples, "failed": failed}


BOUNDED = BOUNDED + [bounded_templated_directive_lines]
MUTANTS = MUTANTS + [
    ("directive_line_from_rendered_position", "sqlfluff/core/rules/noqa.py", "comment.pos_marker.source_position()", "comment.pos_marker.working_loc"),
]
