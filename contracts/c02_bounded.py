"""C02 -- parsing is lossless.   BOUNDED STAND-INS: nothing in this module is a proof.

Property text: "the leaves of the parse tree, ignoring zero-width indentation and placeholder markers, are exactly the lexer's
tokens in the same order, with the same text and positions. Code the grammar cannot match is kept inside unparsable nodes and
reported as PRS errors. It is never discarded, duplicated or reordered."

BOUNDED apply_contract       executable contract of MatchResult.apply (DESIGN.md A.3): requires wf(m), ensures
                             leaves(result) == leaves(segments[start:stop]) as (raw, source_slice, templated_slice) views.
                             (1) every apply call made during real parses of dialect fixtures (method wrapped while parsing),
                             (2) exhaustive families of synthetic well-formed MatchResults over 4 tokens, <= 2 levels,
                             (3) ill-formed MatchResults: rejected (ValueError / AssertionError) or silently corrupting?
BOUNDED root_parse_lossless  same real parses: tree leaves == lexer tokens; unmatched code inside `unparsable`; every
                             unparsable has a PRS violation; check_still_complete never raises.      ids C02/root/<clause>
BOUNDED append_wrap_wf       MatchResult.append / wrap preserve wf and obey the slice / children formulas, exhaustively
                             on small operands.                                                       ids C02/append|wrap/<clause>
"""
from __future__ import annotations

import glob
import os
import random
import sys
import time
import traceback

PROP = "C02"
_POOL = 6
F_APPLY = "sqlfluff.core.parser.match_result:MatchResult.apply"
F_ROOT = "sqlfluff.core.parser.segments.file:BaseFileSegment.root_parse"


def _failed(id_, function, detail, name=None):
    return {"name": name or id_, "id": id_, "kind": "bounded", "status": "failed", "function": function, "detail": detail,
            "reproduced": True, "backend": "CPython (bounded run of the real code under the executable contract)"}


class _Timeout(BaseException):
    """raised by the alarm below; a BaseException so that `except Exception` handlers inside sqlfluff do not swallow it"""


class _deadline:
    """with _deadline(seconds): ...   -- SIGALRM based, main thread of the (worker) process only; no-op elsewhere"""

    def __init__(self, seconds):
        self.seconds = int(seconds)
        self.armed = False

    def __enter__(self):
        import signal
        import threading
        if threading.current_thread() is threading.main_thread():
            def handler(signum, frame):
                raise _Timeout()
            self.old = signal.signal(signal.SIGALRM, handler)
            signal.alarm(self.seconds)
            self.armed = True
        return self

    def __exit__(self, *exc):
        if self.armed:
            import signal
            signal.alarm(0)
            signal.signal(signal.SIGALRM, self.old)
        return False



# ====================================================================================================== specification
def wf_local(m):
    """DESIGN.md A.3 `wf`, the clauses about m itself (every child gets its own apply call, hence its own check):
    children inside the slice and consecutive in tuple order (c1.stop <= c2.start; class optional, zero length allowed);
    inserts inside the slice and not strictly inside a child.  Returns None or the name of the broken clause."""
    s, e = m.matched_slice.start, m.matched_slice.stop
    if s > e:
        return "negative-slice"
    prev = s
    for c in m.child_matches:
        cs, ce = c.matched_slice.start, c.matched_slice.stop
        if cs > ce:
            return "child-negative-slice"
        if cs < s or ce > e:
            return "child-outside-slice"
        if cs < prev:
            # the design's special case: a zero-length child placed after a positive-length child that starts at the same index
            return "children-overlap-or-unordered"
        prev = ce
    for i, _ in m.insert_segments:
        if i < s or i > e:
            return "insert-outside-slice"
        if any(c.matched_slice.start < i < c.matched_slice.stop for c in m.child_matches):
            return "insert-strictly-inside-child"
    return None


def wf(m):
    return wf_local(m) or next((w for w in (wf(c) for c in m.child_matches) if w), None)


def zero_after_positive_same_index(m):
    """the pattern singled out in the design: ..., c1=[i,j) with j>i, c2=[i,i), ... in tuple order"""
    cs = m.child_matches
    return any(a.matched_slice.start == b.matched_slice.start == b.matched_slice.stop < a.matched_slice.stop
               for k, a in enumerate(cs) for b in cs[k + 1:])


def leaves(segs):
    """views (raw, source start/stop, templated start/stop) of the non-meta raw leaves, in order"""
    out = []
    for s in segs:
        for r in s.raw_segments:
            if not r.is_meta:
                pm = r.pos_marker
                out.append((r.raw, pm.source_slice.start, pm.source_slice.stop, pm.templated_slice.start, pm.templated_slice.stop))
    return out


def n_metas(segs):
    return sum(1 for s in segs for r in s.raw_segments if r.is_meta)


def n_inserts(m):
    return len(m.insert_segments) + sum(n_inserts(c) for c in m.child_matches)


def show(m):
    return {"slice": [m.matched_slice.start, m.matched_slice.stop], "class": getattr(m.matched_class, "__name__", None),
            "inserts": [[i, t.__name__] for i, t in m.insert_segments], "children": [show(c) for c in m.child_matches]}


# ====================================================================================================== synthetic matches
_SYN = {}


def _syn():
    if not _SYN:
        from sqlfluff.core import FluffConfig
        from sqlfluff.core.parser import Lexer
        from sqlfluff.core.parser.segments import BaseSegment, Indent, Dedent

        class Box(BaseSegment):
            type = "box"
            can_start_end_non_code = True
            allow_empty = True
        toks = tuple(Lexer(config=FluffConfig(overrides={"dialect": "ansi"})).lex("a,b;")[0][:4])
        assert [t.raw for t in toks] == ["a", ",", "b", ";"] and not any(t.is_meta for t in toks)
        _SYN.update(Box=Box, Indent=Indent, Dedent=Dedent, toks=toks, N=4)
    return _SYN


def _subranges(a, b):
    return [(x, y) for x in range(a, b + 1) for y in range(x, b + 1)]


def _insert_options(a, b, children, imax, metas):
    """tuples of <= imax inserts at allowed positions (k-th insert uses the k-th meta class)"""
    ok = [i for i in range(a, b + 1) if not any(c.matched_slice.start < i < c.matched_slice.stop for c in children)]
    out = [()]
    if imax >= 1:
        out += [((i, metas[0]),) for i in ok]
    if imax >= 2:
        out += [((i, metas[0]), (j, metas[1])) for i in ok for j in ok]
    return out


def _combos(level, a, b, kmax, imax):
    """(class, children, inserts) of every well-formed MatchResult with slice [a,b): <= kmax[0] children (themselves
    gen_wf(level-1, ..., kmax[1:], imax[1:])), <= imax[0] inserts, class in {None, Box}"""
    S = _syn()
    seqs = [()]
    if level > 0 and b > a and kmax and kmax[0] >= 1:
        for (x, y) in _subranges(a, b):
            for c in gen_wf(level - 1, x, y, kmax[1:], imax[1:]):
                seqs.append((c,))
                if kmax[0] >= 2:
                    for (x2, y2) in _subranges(y, b):
                        for c2 in gen_wf(level - 1, x2, y2, kmax[1:], imax[1:]):
                            seqs.append((c, c2))
    for cls in ([None, S["Box"]] if b > a else [None]):
        for ch in seqs:
            for ins in _insert_options(a, b, ch, imax[0] if imax else 0, (S["Indent"], S["Dedent"])):
                yield cls, ch, ins


def gen_wf(level, a, b, kmax, imax, _memo={}):
    from sqlfluff.core.parser.match_result import MatchResult
    key = (level, a, b, kmax, imax)
    if key not in _memo:
        _memo[key] = [MatchResult(slice(a, b), matched_class=cls, insert_segments=ins, child_matches=ch)
                      for cls, ch, ins in _combos(level, a, b, kmax, imax)]
    return _memo[key]


FAMILIES = {
    # name: (level, kmax, imax)
    "two-children-one-grandchild+top-insert": (2, (2, 1), (1, 0, 0)),
    "chains-with-inserts-at-every-level": (2, (1, 1), (1, 1, 1)),
    "two-children-two-grandchildren": (2, (2, 2), (0, 0, 0)),
    "one-level-two-children-two-inserts": (1, (2,), (2, 0)),
}
FAMILIES_THOROUGH = {
    "one-level-two-children-two-inserts+child-insert": (1, (2,), (2, 1)),
    "two-children-one-grandchild+inserts-two-levels": (2, (2, 1), (1, 1, 0)),
    "two-children-two-grandchildren+top-insert": (2, (2, 2), (1, 0, 0)),
}


def _check_apply(m, toks):
    """contract of one synthetic apply call -> None or (clause, detail)"""
    s, e = m.matched_slice.start, m.matched_slice.stop
    try:
        res = m.apply(toks)
    except Exception as ex:
        return ("wf-rejected", {"raised": f"{type(ex).__name__}: {ex}"[:160]})
    if leaves(res) != leaves(toks[s:e]):
        return ("leaves", {"expected": [v[0] for v in leaves(toks[s:e])], "observed": [v[0] for v in leaves(res)]})
    if n_metas(res) != n_inserts(m):
        return ("inserts-materialised", {"inserts": n_inserts(m), "metas_in_result": n_metas(res)})
    if m.matched_class is not None and not (len(res) == 1 and type(res[0]) is m.matched_class):
        return ("class", {"result_types": [type(r).__name__ for r in res]})
    return None


def _synthetic_wf_task(args):
    fam, (level, kmax, imax), top, shard, nshards = args
    from sqlfluff.core.parser.match_result import MatchResult
    import logging
    logging.disable(logging.CRITICAL)
    S = _syn()
    n = 0
    first = {}
    for k, (cls, ch, ins) in enumerate(_combos(level, top[0], top[1], kmax, imax)):
        if k % nshards != shard:
            continue
        m = MatchResult(slice(*top), matched_class=cls, insert_segments=ins, child_matches=ch)
        n += 1
        assert wf(m) is None, show(m)
        r = _check_apply(m, S["toks"])
        if r and r[0] not in first:
            first[r[0]] = {"family": fam, "match": show(m), "observed": r[1]}
    return fam, n, first


def _ill_formed_task(top):
    """top-level ill-formed matches with well-formed leaf children: outcome of apply"""
    from sqlfluff.core.parser.match_result import MatchResult
    import logging
    logging.disable(logging.CRITICAL)
    S = _syn()
    N, toks = S["N"], S["toks"]
    leafs = [MatchResult(slice(x, y), matched_class=c) for (x, y) in _subranges(0, N) for c in ([None, S["Box"]] if y > x else [None])]
    child_seqs = [()] + [(c,) for c in leafs] + [(c, d) for c in leafs for d in leafs]
    a, b = top
    stats = {"enumerated": 0, "unconstructible": 0, "rejected": 0, "rejected-other-class": 0, "accepted-harmless": 0, "accepted-corrupting": 0}
    kinds, witness = {}, {}
    for cls in ([None, S["Box"]] if b > a else [None]):
        for ch in child_seqs:
            for ins in [()] + [((i, S["Indent"]),) for i in range(0, N + 1)]:
                try:
                    m = MatchResult(slice(a, b), matched_class=cls, insert_segments=ins, child_matches=ch)
                except AssertionError:
                    stats["unconstructible"] += 1
                    continue
                w = wf_local(m)
                if w is None:
                    continue
                stats["enumerated"] += 1
                special = zero_after_positive_same_index(m)
                try:
                    res = m.apply(toks)
                except (ValueError, AssertionError):
                    stats["rejected"] += 1
                    kinds[(w, "rejected")] = kinds.get((w, "rejected"), 0) + 1
                    continue
                except Exception:
                    stats["rejected-other-class"] += 1
                    kinds[(w, "rejected-other-class")] = kinds.get((w, "rejected-other-class"), 0) + 1
                    continue
                exp, got = leaves(toks[a:b]), leaves(res)
                if exp == got:
                    stats["accepted-harmless"] += 1
                    kinds[(w, "accepted-harmless")] = kinds.get((w, "accepted-harmless"), 0) + 1
                else:
                    stats["accepted-corrupting"] += 1
                    k = "zero-length-child-after-positive-child-at-same-index" if special else w
                    kinds[(k, "accepted-corrupting")] = kinds.get((k, "accepted-corrupting"), 0) + 1
                    size = len(ch) * 10 + len(ins) + (b - a)
                    if k not in witness or size < witness[k][0]:
                        witness[k] = (size, {"match": show(m), "tokens": [t.raw for t in toks], "expected_leaves": [v[0] for v in exp],
                                             "observed_leaves": [v[0] for v in got]})
    return stats, {f"{k[0]}|{k[1]}": v for k, v in kinds.items()}, witness


# ====================================================================================================== real parses
_W = {}


def _install_probes():
    """wrap MatchResult.apply and Parser.parse (observers: they call the real method and re-raise what it raises)"""
    if _W.get("installed"):
        return
    from sqlfluff.core.parser.match_result import MatchResult
    from sqlfluff.core.parser.parser import Parser
    _W.update(installed=True, depth=0, on=False)
    orig_apply, orig_parse = MatchResult.apply, Parser.parse

    def apply(self, segments, parse_context=None):
        if not _W["on"]:
            return orig_apply(self, segments, parse_context)
        st = _W["stats"]
        _W["depth"] += 1
        try:
            res = orig_apply(self, segments, parse_context)
        except BaseException as ex:
            st["apply_raised"][type(ex).__name__] = st["apply_raised"].get(type(ex).__name__, 0) + 1
            raise
        finally:
            _W["depth"] -= 1
        st["calls"] += 1
        if _W["depth"] == 0:
            _W["top_applies"].append((self, segments))
        w = wf_local(self)
        if w:
            st["wf_fail"][w] = st["wf_fail"].get(w, 0) + 1
            _W["fails"].setdefault("C02/apply/real-parse-wf", {"broken_clause": w, "match": str(self)[:600]})
        if zero_after_positive_same_index(self):
            st["zero_after_positive"] += 1
        if any(not c.matched_class for c in self.child_matches):
            st["classless_child"] += 1
        if any(len(c) == 0 for c in self.child_matches):
            st["zero_length_child"] += 1
        s, e = self.matched_slice.start, self.matched_slice.stop
        exp, got = leaves(segments[s:e]), leaves(res)
        if exp != got:
            st["contract_fail"] += 1
            i = next((k for k, (x, y) in enumerate(zip(exp, got)) if x != y), min(len(exp), len(got)))
            _W["fails"].setdefault("C02/apply/real-parse-leaves", {"wf": w, "match": str(self)[:600], "first_difference_at": i,
                                                                  "expected": exp[max(0, i - 2):i + 3], "observed": got[max(0, i - 2):i + 3],
                                                                  "n_expected": len(exp), "n_observed": len(got)})
        elif s < e or self.insert_segments:
            st["nontrivial"] += 1
        return res

    def parse(self, segments, *a, **k):
        if not _W["on"]:
            return orig_parse(self, segments, *a, **k)
        rec = {"segments": tuple(segments), "root": None, "raised": None}
        _W["parses"].append(rec)
        try:
            rec["root"] = orig_parse(self, segments, *a, **k)
        except BaseException as ex:
            rec["raised"] = ex
            raise
        return rec["root"]
    MatchResult.apply = apply
    Parser.parse = parse


def _mutate(text, kind, rng):
    if kind == "orig":
        return text
    stray = {"paren": ")", "semis": ";;", "garbage": " ¿¿ %%% "}[kind]
    # at a token boundary: just after a whitespace character (or the middle of the text if there is none)
    cands = [i + 1 for i, c in enumerate(text) if c in " \n\t"] or [len(text) // 2]
    i = rng.choice(cands)
    return text[:i] + stray + text[i:]


def _parse_task(task):
    """one real parse under instrumentation -> small picklable record"""
    path, dialect, kind, seed = task
    import logging
    logging.disable(logging.CRITICAL)
    from sqlfluff.core import Linter, FluffConfig
    from sqlfluff.core.errors import SQLParseError
    from sqlfluff.core.parser import Lexer
    _install_probes()
    rng = random.Random(f"c02-{seed}-{path}-{kind}")
    with open(path, encoding="utf-8") as fh:
        text = _mutate(fh.read(), kind, rng)
    st = {"calls": 0, "wf_fail": {}, "contract_fail": 0, "zero_after_positive": 0, "classless_child": 0, "zero_length_child": 0,
          "nontrivial": 0, "apply_raised": {}}
    _W.update(on=True, stats=st, fails={}, top_applies=[], parses=[], depth=0)
    rec = {"path": path, "dialect": dialect, "kind": kind, "len": len(text), "stats": st, "fails": {}, "tree": False, "unparsables": 0, "no_tree": None}
    t0 = time.time()

    def fail(id_, detail):
        rec["fails"].setdefault(id_, dict(detail, file=path.split("/fixtures/")[-1], variant=kind, dialect=dialect,
                                          text=text if len(text) < 300 else None))
    try:
        cfg = FluffConfig(overrides={"dialect": dialect})
        lnt = Linter(config=cfg)
        try:
            with _deadline(_PARSE_LIMIT_S):
                parsed = lnt.parse_string(text)
        except _Timeout:
            if _TIMEOUTS is not None:
                with _TIMEOUTS.get_lock():
                    _TIMEOUTS.value += 1
            fail("C02/root/timeout", {"what": f"Linter.parse_string did not return within {_PARSE_LIMIT_S} s (parser not terminating?)"})
            return rec
        except Exception as ex:
            tb = traceback.extract_tb(ex.__traceback__)
            site = next((f"{os.path.basename(f.filename)}:{f.name}" for f in reversed(tb) if "sqlfluff" in f.filename), "?")
            fail(f"C02/root/raised[{type(ex).__name__}]", {"message": str(ex)[:200], "site": site})
            return rec
        finally:
            _W["on"] = False
        for k, v in _W["fails"].items():
            fail(k, v)
        if not parsed.parsed_variants or not _W["parses"]:
            rec["no_tree"] = "templating/lexing failed"
            return rec
        variant = parsed.parsed_variants[0]
        pr = _W["parses"][0]
        toks = pr["segments"]
        lexed, _ = Lexer(config=cfg).lex(variant.templated_file)
        tok_views = leaves(lexed)
        if leaves(toks) != tok_views:
            fail("C02/root/tokens-passed-to-parser", {"what": "non-meta tokens handed to Parser.parse differ from an independent lex"})
        prs = list(variant.parsing_violations)
        if pr["raised"] is not None:
            ex = pr["raised"]
            if isinstance(ex, SQLParseError) and "Parse completeness check fail" in str(ex):
                fail("C02/root/check-still-complete-raised", {"message": str(ex)[:300]})
            rec["no_tree"] = f"{type(ex).__name__}: {str(ex)[:60]}"
            if not any(v.rule_code() == "PRS" for v in parsed.violations):
                fail("C02/root/no-tree-has-prs", {"parse_raised": rec["no_tree"], "violations": [v.desc()[:60] for v in parsed.violations]})
            return rec
        root = pr["root"]
        if root is None:
            rec["no_tree"] = "Parser.parse returned None"
            return rec
        rec["tree"] = True
        got = leaves((root,))
        if got != tok_views:
            i = next((k for k, (x, y) in enumerate(zip(tok_views, got)) if x != y), min(len(tok_views), len(got)))
            fail("C02/root/leaves-equal-tokens", {"first_difference_at": i, "tokens": tok_views[max(0, i - 2):i + 3], "tree_leaves": got[max(0, i - 2):i + 3],
                                                  "n_tokens": len(tok_views), "n_leaves": len(got)})
        # which leaves sit under an `unparsable` node
        under = []

        def walk(seg, inside):
            inside = inside or seg.is_type("unparsable")
            if not seg.segments:
                if not seg.is_meta:
                    under.append(inside)
                return
            for c in seg.segments:
                walk(c, inside)
        walk(root, False)
        # the root match = first outermost apply call on the very tuple handed to the parser
        top = next(((m, segs) for m, segs in _W["top_applies"] if len(segs) == len(toks) and all(x is y for x, y in zip(segs[:3], toks[:3]))), None)
        code_idx = [i for i, t in enumerate(toks) if t.is_code]
        if top is not None and code_idx and len(under) == len(tok_views):
            m = top[0]
            end_idx = code_idx[-1] + 1
            start_unmatched = m.matched_slice.stop if m else code_idx[0]
            nonmeta_index, k = {}, 0
            for i, t in enumerate(toks):
                if not t.is_meta:
                    nonmeta_index[i] = k
                    k += 1
            loose = [i for i in code_idx if start_unmatched <= i < end_idx and not under[nonmeta_index[i]]]
            rec["unmatched_code"] = sum(1 for i in code_idx if start_unmatched <= i < end_idx)
            if loose:
                fail("C02/root/unmatched-code-in-unparsable", {"root_match_slice": [m.matched_slice.start, m.matched_slice.stop], "root_match_truthy": bool(m),
                                                               "code_tokens_outside_unparsable": [toks[i].raw for i in loose[:8]], "first_index": loose[0]})
        elif top is None and code_idx:
            rec["no_root_apply_seen"] = True
        ups = list(root.iter_unparsables())
        rec["unparsables"] = len(ups)
        for u in ups:
            if not any(getattr(v, "segment", None) is u for v in prs):
                up = u.pos_marker.source_position()
                if not any((v.line_no, v.line_pos) == up and "unparsable" in v.desc() for v in prs):
                    fail("C02/root/unparsable-has-prs", {"unparsable": u.raw[:60], "position": list(up), "prs_violations": [v.desc()[:60] for v in prs][:5]})
        if prs and not ups:
            fail("C02/root/prs-without-unparsable", {"prs_violations": [v.desc()[:80] for v in prs][:5]})
    except Exception:
        rec["fails"].setdefault("C02/checker-crash", {"traceback": traceback.format_exc()[-1500:], "file": path, "variant": kind})
    finally:
        _W["on"] = False
        rec["time"] = round(time.time() - t0, 3)
    return rec


_PARSE_LIMIT_S = 60
_TIMEOUTS = None         # multiprocessing.Value shared by the workers of one real_parses() call: stop parsing after 3 time-outs


def _parse_group(tasks):
    import gc
    gc.freeze()          # inherited objects of the parent are never traversed (or copied) by the worker's collector
    out = []
    for t in tasks:
        if _TIMEOUTS is not None and _TIMEOUTS.value >= 3:
            break        # the parser hangs: the remaining inputs are not evaluated (the time-outs are reported as failures)
        out.append(_parse_task(t))
    return out


def choose_inputs(tier, seed):
    rng = random.Random(f"c02-files-{seed}")
    by = {}
    for p in sorted(glob.glob("/repo/test/fixtures/dialects/*/*.sql")):
        if os.path.getsize(p) <= (20000 if tier == "thorough" else 1500):
            by.setdefault(p.split("/")[-2], []).append(p)
    for v in by.values():
        rng.shuffle(v)
    want = 750 if tier == "thorough" else 60          # x 2 variants = 120 parses (a small fixture costs 0.2-0.5 s of CPU to parse)
    files, k = [], 0
    dialects = sorted(by)
    while len(files) < want and any(by.values()):
        d = dialects[k % len(dialects)]
        k += 1
        if by[d]:
            files.append((by[d].pop(), d))
    tasks = []
    for i, (p, d) in enumerate(files):
        tasks.append((p, d, "orig", seed))
        tasks.append((p, d, ("paren", "semis", "garbage")[i % 3], seed))
    return tasks


_CACHE = {}


def _pool(n=_POOL):
    import concurrent.futures as cf
    import multiprocessing as mp
    return cf.ProcessPoolExecutor(max_workers=n, mp_context=mp.get_context("fork"))


def real_parses(tier, seed):
    """shared by apply_contract and root_parse_lossless (one set of parses per (tier, seed) and process)"""
    key = (tier, seed)
    if key not in _CACHE:
        tasks = choose_inputs(tier, seed)
        t0 = time.time()
        # one group per dialect, so that each worker loads only a few dialect modules (that is most of the cost of a small parse)
        groups = {}
        for t in tasks:
            groups.setdefault(t[1], []).append(t)
        order = sorted(groups.values(), key=len, reverse=True)
        global _TIMEOUTS
        import multiprocessing as mp
        _TIMEOUTS = mp.get_context("fork").Value("i", 0)
        with _pool() as pool:
            recs = [r for g in pool.map(_parse_group, order) for r in g]
        _CACHE[key] = (recs, round(time.time() - t0, 1))
    return _CACHE[key]


def _collect(recs, prefix):
    """smallest witness per failing clause id starting with prefix"""
    best, counts = {}, {}
    for r in recs:
        for id_, d in r["fails"].items():
            if id_.startswith(prefix) or id_ == "C02/checker-crash":
                counts[id_] = counts.get(id_, 0) + 1
                if id_ not in best or r["len"] < best[id_][0]:
                    best[id_] = (r["len"], d)
    return best, counts


# ====================================================================================================== BOUNDED 1
def apply_contract(tier="quick", seed=0):
    t0 = time.time()
    fams = dict(FAMILIES)
    if tier == "thorough":
        fams.update(FAMILIES_THOROUGH)
    N = 4
    recs, wall_parse = real_parses(tier, seed)
    syn_tasks = [(f, spec, top, k, K) for f, spec in fams.items() for top in _subranges(0, N)
                 for K in [6 if top[1] - top[0] >= 3 else 1] for k in range(K)]
    with _pool() as pool:
        syn = list(pool.map(_synthetic_wf_task, syn_tasks))
        ill = list(pool.map(_ill_formed_task, _subranges(0, N)))
    failed = []
    per_family, syn_first = {}, {}
    for fam, n, first in syn:
        per_family[fam] = per_family.get(fam, 0) + n
        for clause, d in first.items():
            syn_first.setdefault(clause, d)
    for clause, d in sorted(syn_first.items()):
        failed.append(_failed(f"C02/apply/synthetic-{clause}", F_APPLY, d))
    ill_stats, ill_kinds, ill_wit = {}, {}, {}
    for stats, kinds, witness in ill:
        for k, v in stats.items():
            ill_stats[k] = ill_stats.get(k, 0) + v
        for k, v in kinds.items():
            ill_kinds[k] = ill_kinds.get(k, 0) + v
        for k, (size, d) in witness.items():
            if k not in ill_wit or size < ill_wit[k][0]:
                ill_wit[k] = (size, d)
    if ill_wit:
        special = "zero-length-child-after-positive-child-at-same-index"
        first_kind = special if special in ill_wit else sorted(ill_wit, key=lambda k: ill_wit[k][0])[0]
        failed.append(_failed("C02/apply/ill-formed-accepted", F_APPLY,
                              {"what": "apply() on a MatchResult that violates wf returned normally with leaves != leaves(segments[start:stop]) "
                                       "(tokens duplicated / dropped / taken from outside the slice) instead of raising ValueError/AssertionError",
                               "witness": ill_wit[first_kind][1], "witness_kind": first_kind,
                               "smallest_witness_per_broken_clause": {k: v[1]["match"] for k, v in sorted(ill_wit.items())},
                               "outcomes_by_broken_clause": dict(sorted(ill_kinds.items())), "totals": ill_stats,
                               "wf_excludes_it": True,
                               "judgement": "not a violation of C02 as long as every MatchResult reaching apply() is wf (precondition of the A.3 contract); "
                                            "it shows apply's own `Segment skip ahead` check is weaker than wf: it only compares trigger indices"}))
    best, counts = _collect(recs, "C02/apply/")
    for id_, (_, d) in sorted(best.items()):
        failed.append(_failed(id_, F_APPLY, dict(d, occurrences=counts[id_])))
    tot = {"calls": 0, "contract_fail": 0, "zero_after_positive": 0, "classless_child": 0, "zero_length_child": 0, "nontrivial": 0}
    wf_kinds, raised = {}, {}
    for r in recs:
        for k in tot:
            tot[k] += r["stats"][k]
        for k, v in r["stats"]["wf_fail"].items():
            wf_kinds[k] = wf_kinds.get(k, 0) + v
        for k, v in r["stats"]["apply_raised"].items():
            raised[k] = raised.get(k, 0) + v
    n_syn = sum(per_family.values())
    return {"name": "apply-contract",
            "bound": f"(1) {tot['calls']} MatchResult.apply calls in {len(recs)} real parses ({len(recs) // 2} dialect fixtures <= "
                     f"{20000 if tier == 'thorough' else 1500} bytes over {len({r['dialect'] for r in recs})} dialects, each also with a stray ')' / ';;' / garbage token); "
                     f"(2) {n_syn} synthetic well-formed MatchResults over 4 tokens, exhaustive per family {per_family}; "
                     f"(3) {ill_stats.get('enumerated', 0)} ill-formed top-level MatchResults (<= 2 leaf children anywhere in any order, <= 1 insert anywhere)",
            "rule": "non-trivial = positive-length match or a match with inserts whose contract was evaluated",
            "evaluations": tot["calls"] + n_syn + ill_stats.get("enumerated", 0), "distinct_nontrivial": tot["nontrivial"] + n_syn,
            "samples": [{"real_parse_apply_calls": tot["calls"], "wf_violations_in_real_parses": wf_kinds or 0, "contract_failures": tot["contract_fail"],
                         "calls_with_zero_length_child_after_positive_child_at_same_index": tot["zero_after_positive"],
                         "calls_with_classless_child": tot["classless_child"], "calls_with_zero_length_child": tot["zero_length_child"],
                         "apply_calls_that_raised": raised or 0},
                        {"ill_formed_outcomes": ill_stats}],
            "failed": failed, "ill_formed_by_clause": dict(sorted(ill_kinds.items())), "wall_s": round(time.time() - t0, 1), "parse_wall_s": wall_parse}


# ====================================================================================================== BOUNDED 2
def root_parse_lossless(tier="quick", seed=0):
    t0 = time.time()
    recs, wall_parse = real_parses(tier, seed)
    best, counts = _collect(recs, "C02/root/")
    failed = [_failed(id_, F_ROOT, dict(d, occurrences=counts[id_])) for id_, (_, d) in sorted(best.items())]
    trees = sum(1 for r in recs if r["tree"])
    with_unp = sum(1 for r in recs if r["unparsables"])
    no_tree = {}
    for r in recs:
        if r["no_tree"]:
            k = r["no_tree"].split(":")[0] + (": " + r["no_tree"].split(": ", 1)[1][:28] if ": " in r["no_tree"] else "")
            no_tree[k] = no_tree.get(k, 0) + 1
    samples = [{"file": r["path"].split("/fixtures/")[-1], "variant": r["kind"], "unparsable_sections": r["unparsables"],
                "unmatched_code_tokens_after_root_match": r.get("unmatched_code"), "apply_calls": r["stats"]["calls"]}
               for r in recs if r["unparsables"]][:3]
    return {"name": "root-parse-lossless",
            "bound": f"{len(recs)} real parses (same inputs as apply-contract): {trees} produced a tree, {with_unp} of them with unparsable sections, "
                     f"{sum(no_tree.values())} without a tree {no_tree}",
            "rule": "non-trivial = parse that produced a tree with at least one unparsable section",
            "evaluations": len(recs), "distinct_nontrivial": with_unp, "samples": samples, "failed": failed,
            "clauses": ["C02/root/leaves-equal-tokens", "C02/root/unmatched-code-in-unparsable", "C02/root/unparsable-has-prs", "C02/root/prs-without-unparsable",
                        "C02/root/check-still-complete-raised", "C02/root/no-tree-has-prs", "C02/root/tokens-passed-to-parser", "C02/root/raised[<Exc>]"],
            "slowest": sorted(((r.get("time", 0), r["path"].split("/fixtures/")[-1]) for r in recs), reverse=True)[:2],
            "wall_s": round(time.time() - t0, 1), "parse_wall_s": wall_parse}


# ====================================================================================================== BOUNDED 3
def _flat(m):
    return (m,) if m.matched_class else tuple(m.child_matches)


def _ins_ms(xs):
    return sorted((i, t.__name__) for i, t in xs)


def _append_pool(tier):
    """operands of append: thorough = <= 1 child and <= 1 own insert (938); quick = (<= 1 child, no inserts) + (leaf with <= 1 insert) (270)"""
    N = _syn()["N"]
    if tier == "thorough":
        return [m for (a, b) in _subranges(0, N) for m in gen_wf(1, a, b, (1,), (1, 0))]
    pool = [m for (a, b) in _subranges(0, N) for m in gen_wf(1, a, b, (1,), (0, 0))]
    pool += [m for (a, b) in _subranges(0, N) for m in gen_wf(0, a, b, (), (1,)) if m.insert_segments]
    return pool


def _append_task(chunk):
    import logging
    logging.disable(logging.CRITICAL)
    S = _syn()
    N = S["N"]
    pool = _append_pool(chunk[2])
    lo, hi = chunk[:2]
    n = nontrivial = 0
    first = {}

    def fail(clause, a, b, extra, detail):
        first.setdefault(clause, {"self": show(a), "other": show(b) if b is not None else None, "insert_segments": [[i, t.__name__] for i, t in extra],
                                  "observed": detail})
    for a in pool[lo:hi]:
        a_empty = len(a) == 0 and not a.insert_segments
        for b in pool:
            b_empty = len(b) == 0 and not b.insert_segments
            ordered = a.matched_slice.stop <= b.matched_slice.start
            hull = (a.matched_slice.start, b.matched_slice.stop)
            for extra in [()] + [((i, S["Dedent"]),) for i in range(0, N + 1)]:
                n += 1
                try:
                    r = a.append(b, insert_segments=extra)
                except AssertionError as ex:
                    if a_empty or b_empty or ordered:
                        # legitimate only if the extra insert would make an invalid zero-length / out-of-hull result -- append never checks that
                        fail("C02/append/raised-on-valid-operands", a, b, extra, f"AssertionError: {ex}"[:160])
                    continue
                except Exception as ex:
                    fail("C02/append/raised-other", a, b, extra, f"{type(ex).__name__}: {ex}"[:160])
                    continue
                if a_empty:
                    if r is not b:
                        fail("C02/append/empty-self-returns-other", a, b, extra, show(r))
                    continue
                if b_empty:
                    if r is not a:
                        fail("C02/append/empty-other-returns-self", a, b, extra, show(r))
                    continue
                if not ordered:
                    fail("C02/append/overlap-accepted", a, b, extra, show(r))
                    continue
                nontrivial += 1
                if (r.matched_slice.start, r.matched_slice.stop) != hull:
                    fail("C02/append/slice-is-hull", a, b, extra, show(r))
                if r.matched_class is not None:
                    fail("C02/append/result-unclassed", a, b, extra, show(r))
                want_children = _flat(a) + _flat(b)
                if len(r.child_matches) != len(want_children) or any(x is not y for x, y in zip(r.child_matches, want_children)):
                    fail("C02/append/children-formula", a, b, extra, {"result": show(r), "expected_children": [show(c) for c in want_children]})
                want_ins = list(extra) + (list(a.insert_segments) if not a.matched_class else []) + (list(b.insert_segments) if not b.matched_class else [])
                if _ins_ms(r.insert_segments) != _ins_ms(want_ins):
                    fail("C02/append/inserts-formula", a, b, extra, {"result": show(r), "expected_inserts": _ins_ms(want_ins)})
                # wf is preserved when the extra insert is itself admissible for the result
                extra_ok = all(hull[0] <= i <= hull[1] and not any(c.matched_slice.start < i < c.matched_slice.stop for c in want_children) for i, _ in extra)
                if extra_ok:
                    w = wf(r)
                    if w:
                        fail("C02/append/wf-preserved", a, b, extra, {"broken_clause": w, "result": show(r)})
                    else:
                        toks = S["toks"]
                        try:
                            res = r.apply(toks)
                            if leaves(res) != leaves(toks[hull[0]:hull[1]]):
                                fail("C02/append/apply-of-result-lossless", a, b, extra, {"result": show(r), "leaves": [v[0] for v in leaves(res)]})
                        except Exception as ex:
                            fail("C02/append/apply-of-result-lossless", a, b, extra, f"{type(ex).__name__}: {ex}"[:160])
    return n, nontrivial, first


def _wrap_task(args):
    top, tier = args
    import logging
    logging.disable(logging.CRITICAL)
    S = _syn()
    N = S["N"]
    from sqlfluff.core.parser.segments import BaseSegment

    class Outer(BaseSegment):
        type = "outer"
        can_start_end_non_code = True
        allow_empty = True

        def __init__(self, segments, pos_marker=None, k=None):
            super().__init__(segments, pos_marker=pos_marker)
    pool = gen_wf(1, top[0], top[1], (2,), (1, 1) if tier == "thorough" else (1, 0))
    n = nontrivial = 0
    first = {}

    def fail(clause, a, extra, detail):
        first.setdefault(clause, {"self": show(a), "insert_segments": [[i, t.__name__] for i, t in extra], "observed": detail})
    for a in pool:
        s, e = a.matched_slice.start, a.matched_slice.stop
        empty = s == e and not a.insert_segments
        for extra in [()] + [((i, S["Dedent"]),) for i in range(0, N + 1)]:
            n += 1
            kw = {"k": 1}
            try:
                r = a.wrap(Outer, insert_segments=extra, segment_kwargs=kw)
            except AssertionError as ex:
                # two documented rejections: inserts wrapped onto an empty match; a class given to a zero-length match (MatchResult.__post_init__)
                if not ((empty and extra) or (s == e)):
                    fail("C02/wrap/raised-on-valid-operand", a, extra, f"AssertionError: {ex}"[:160])
                continue
            except Exception as ex:
                fail("C02/wrap/raised-other", a, extra, f"{type(ex).__name__}: {ex}"[:160])
                continue
            if empty:
                if r is not a:
                    fail("C02/wrap/empty-returns-self", a, extra, show(r))
                continue
            nontrivial += 1
            if (r.matched_slice.start, r.matched_slice.stop) != (s, e):
                fail("C02/wrap/slice-unchanged", a, extra, show(r))
            if r.matched_class is not Outer or r.segment_kwargs != kw:
                fail("C02/wrap/class-and-kwargs", a, extra, show(r))
            want_children = (a,) if a.matched_class else tuple(a.child_matches)
            if len(r.child_matches) != len(want_children) or any(x is not y for x, y in zip(r.child_matches, want_children)):
                fail("C02/wrap/children-formula", a, extra, {"result": show(r), "expected_children": [show(c) for c in want_children]})
            want_ins = list(extra) + ([] if a.matched_class else list(a.insert_segments))
            if _ins_ms(r.insert_segments) != _ins_ms(want_ins):
                fail("C02/wrap/inserts-formula", a, extra, {"result": show(r), "expected_inserts": _ins_ms(want_ins)})
            extra_ok = all(s <= i <= e and not any(c.matched_slice.start < i < c.matched_slice.stop for c in want_children) for i, _ in extra)
            if extra_ok:
                w = wf(r)
                if w:
                    fail("C02/wrap/wf-preserved", a, extra, {"broken_clause": w, "result": show(r)})
                else:
                    toks = S["toks"]
                    try:
                        res = r.apply(toks)
                        if leaves(res) != leaves(toks[s:e]) or not (len(res) == 1 and type(res[0]) is Outer):
                            fail("C02/wrap/apply-of-result-lossless", a, extra, {"result": show(r), "leaves": [v[0] for v in leaves(res)]})
                    except Exception as ex:
                        fail("C02/wrap/apply-of-result-lossless", a, extra, f"{type(ex).__name__}: {ex}"[:160])
    return n, nontrivial, first, len(pool)


def append_wrap_wf(tier="quick", seed=0):
    t0 = time.time()
    S = _syn()
    N = S["N"]
    npool = len(_append_pool(tier))
    step = max(1, npool // 12)
    chunks = [(i, min(i + step, npool), tier) for i in range(0, npool, step)]
    with _pool() as pool:
        parts = list(pool.map(_append_task, chunks))
        wparts = list(pool.map(_wrap_task, [(top, tier) for top in _subranges(0, N)]))
    n = sum(p[0] for p in parts)
    nontrivial = sum(p[1] for p in parts)
    first = {}
    for p in parts:
        for k, v in p[2].items():
            first.setdefault(k, v)
    wn, wnt, wpool = sum(p[0] for p in wparts), sum(p[1] for p in wparts), sum(p[3] for p in wparts)
    for p in wparts:
        for k, v in p[2].items():
            first.setdefault(k, v)
    failed = [_failed(k, "sqlfluff.core.parser.match_result:MatchResult." + ("append" if "/append/" in k else "wrap"), v) for k, v in sorted(first.items())]
    return {"name": "append-wrap-wf",
            "bound": f"append: all ordered pairs of {npool} well-formed operands over 4 tokens (<= 1 child, <= 1 insert{'' if tier == 'thorough' else ' on leaf operands'}) x (no extra insert | one at each of 5 positions) = {n}; "
                     f"wrap: {wpool} well-formed operands (<= 2 children, <= 1 insert{' at both levels' if tier == 'thorough' else ''}) x the same 6 insert options = {wn}",
            "rule": "non-trivial = both operands non-empty and ordered (append) / operand non-empty (wrap): the formulas and wf(result) were evaluated",
            "evaluations": n + wn, "distinct_nontrivial": nontrivial + wnt, "samples": [{"append_pairs": n, "wrap_cases": wn}], "failed": failed,
            "exhaustive": True, "wall_s": round(time.time() - t0, 1)}


BOUNDED = [apply_contract, root_parse_lossless, append_wrap_wf]
EXTRA = []

TRUSTED = ["views, not identity: a raw parser may rebuild a token as a new object; `same token` means same raw, source_slice and templated_slice",
           "the root match is identified as the first outermost MatchResult.apply call made on the tuple handed to Parser.parse"]
NOT_COVERED = ["Matchable.match of the grammar combinators returning wf results is observed on the sampled parses only (wf checked at every apply call)",
               "fixtures larger than the size cut-off; templated inputs"]

MUTANTS = [
    ("apply_max_idx_start", "sqlfluff/core/parser/match_result.py",
     "                    max_idx = trigger.matched_slice.stop\n", "                    max_idx = trigger.matched_slice.start\n"),
    ("apply_trailing_tokens_dropped", "sqlfluff/core/parser/match_result.py",
     "        if max_idx < self.matched_slice.stop:\n            result_segments_list.extend(", "        if False:\n            result_segments_list.extend("),
    ("apply_gap_loses_first_token", "sqlfluff/core/parser/match_result.py",
     "                result_segments_list.extend(segments[max_idx:idx])", "                result_segments_list.extend(segments[max_idx + 1 : idx])"),
    ("append_stop_is_other_start", "sqlfluff/core/parser/match_result.py",
     "        new_slice = slice(self.matched_slice.start, other.matched_slice.stop)", "        new_slice = slice(self.matched_slice.start, other.matched_slice.start)"),
    ("wrap_drops_children", "sqlfluff/core/parser/match_result.py",
     "            insert_segments = self.insert_segments + insert_segments\n            child_matches = self.child_matches",
     "            insert_segments = self.insert_segments + insert_segments\n            child_matches = ()"),
    ("root_parse_unparsable_tail_dropped", "sqlfluff/core/parser/segments/file.py",
     "                + _unmatched[:_idx]\n                + (\n                    UnparsableSegment(\n                        _unmatched[_idx:], expected=\"Nothing else in FileSegment.\"\n                    ),\n                )\n",
     "                + _unmatched[:_idx]\n"),
    ("root_parse_tail_not_wrapped", "sqlfluff/core/parser/segments/file.py",
     "                + _unmatched[:_idx]\n                + (\n                    UnparsableSegment(\n                        _unmatched[_idx:], expected=\"Nothing else in FileSegment.\"\n                    ),\n                )\n",
     "                + _unmatched[:_idx]\n                + _unmatched[_idx:]\n"),
    ("unparsable_not_reported", "sqlfluff/core/linter/linter.py",
     "        for unparsable in parsed.iter_unparsables():", "        for unparsable in ():"),
]


if __name__ == "__main__":
    import json
    sys.path.insert(0, os.path.dirname(os.path.dirname(os.path.abspath(__file__))))
    which = sys.argv[1:] or ["apply_contract", "root_parse_lossless", "append_wrap_wf"]
    tier = os.environ.get("VERIF_TIER", "quick")
    seed = int(os.environ.get("VERIF_SEED", "0"))
    for w in which:
        t0 = time.time()
        r = globals()[w](tier, seed)
        print(json.dumps(r, indent=1, default=str)[: int(os.environ.get("C02_PRINT", "7000"))])
        print(f"== {w}: {time.time() - t0:.1f}s failed={[f['id'] for f in r['failed']]}")
