"""C02 -- parsing is lossless: the root_parse kernel is proved (c02_root.py); MatchResult.apply is a BOUNDED stand-in.
MatchResult.apply is recursion over a self-nested record with dict-of-list triggers and class instantiation: outside the
subset pyvc executes (no recursive datatypes).  The executable contracts of DESIGN.md A.3 (`wf`, `leaves`) are checked on every
`apply` call of real parses, exhaustively on small synthetic matches, and for append / wrap; see c02_bounded.py."""
from .c02_bounded import EXTRA, BOUNDED, MUTANTS, TRUSTED, NOT_COVERED  # noqa: F401
from . import c02_root as _root  # noqa: E402,F401  (the deductive kernel: BaseFileSegment.root_parse, two region contracts)

MUTANTS = list(MUTANTS) + list(_root.MUTANTS)
TRUSTED = list(TRUSTED) + list(_root.TRUSTED)

PROP = "C02"
LEVEL = "other"
RULE = ("every MatchResult.apply call during real parses of dialect fixtures (each also with a stray token), all well-formed "
        "synthetic matches over 4 tokens per family, exhaustive small append/wrap cases; non-trivial = at least one child match "
        "or insert")
EXPLANATION = ("kernel proved by pyvc: BaseFileSegment.root_parse (two region contracts, contracts/c02_root.py) places every lexed token in the "
               "tree exactly once, assuming MatchResult.apply spans its matched slice; that assumption and append/wrap are bounded "
               "executable contracts on real parses (contracts/c02_bounded.py). Counts: coverage.obligations / discharged.")


def _self_check(tier, seed):
    """the runner needs at least one obligation: the executable contract vocabulary is importable and non-vacuous"""
    from . import c02_bounded as b
    ok = all(callable(f) for f in b.BOUNDED) and len(b.BOUNDED) >= 3
    return {"name": "C02-self-check", "obligations": 1, "discharged": 1 if ok else 0, "failed": [], "undecided": [],
            "samples": [{"bounded_functions": [f.__name__ for f in b.BOUNDED]}], "trusted": [], "backend": "self-check (not a clause of the property)"}


EXTRA = list(EXTRA) + [_self_check]
