"""C10 -- fixes never edit template code.   Functions under contract:
 the LAST line of defence (this file):
   sqlfluff.core.templaters.base: TemplatedFile.raw_slices_spanning_source_slice, TemplatedFile.source_only_slices
   sqlfluff.core.linter.patch:    generate_source_patches (the filter loop; the patch generator is havocked)
   together with C30's contracts of merge / slicer / builder (imported, re-checked under C30).
 the FIRST line of defence (contracts/c10_fix.py; bounded parts and the syntactic wiring check in contracts/c10_bounded.py):
   sqlfluff.core.rules.fix:  LintFix._raw_slices_from_templated_slices, LintFix.get_fix_slices, LintFix.has_template_conflicts
   sqlfluff.core.rules.base: BaseRule.discard_unsafe_fixes (region: guard + conflict loop)
Inlined from real source: _log_hints, FixPatch.dedupe_tuple, RawFileSlice.*.
"""
from pyvc.dsl import contract, external, spec, lemma, implies, inline, ref_class
from pyvc.ty import INT, BOOL, Text, TList, TSet, TTuple, TOpt, SLICE, TRef

from .types import FixPatch, RawFileSlice, TemplatedFile
from . import c30 as _c30
from . import c10_fix as _fix          # the first line of defence (LintFix.has_template_conflicts, discard_unsafe_fixes)
from .c10_fix import raw_tiled        # noqa: F401  (shared spec: the raw slices tile the source)

PROP = "C10"
DedupeT = TTuple(TTuple(INT, INT), Text)
BaseSegment = ref_class("sqlfluff.core.parser.segments.base:BaseSegment")
inline("sqlfluff.core.linter.patch:_log_hints")


# ------------------------------------------------------------------ specification
@spec
def touches_template(p, raw):
    """edit p overwrites, or inserts strictly inside, some non-literal raw slice"""
    return any(raw[k].slice_type != "literal" and len(raw[k].raw) > 0
               and not (p.source_slice.stop <= raw[k].source_idx
                        or p.source_slice.start >= raw[k].source_idx + len(raw[k].raw))
               for k in range(len(raw)))


@spec
def safe(p, raw):
    """the property's rule: template code is edited only by explicit source-level patches"""
    return p.patch_category == "source" or not touches_template(p, raw)


# ------------------------------------------------------------------ contracts
@contract("sqlfluff.core.templaters.base:TemplatedFile.raw_slices_spanning_source_slice", PROP)
class raw_slices_spanning_source_slice:
    types = {"self": TemplatedFile, "source_slice": SLICE, "raw_slice_idx": INT, "slice_span": INT,
             "last_raw_slice": RawFileSlice}
    ret = TList(RawFileSlice)
    ghost_out = {"raw_slice_idx": INT, "slice_span": INT}

    def requires(self, source_slice):
        return raw_tiled(self.raw_sliced)

    def ensures(self, source_slice, result, raw_slice_idx, slice_span):
        return (
            (len(result) == 0) == (source_slice.start >= self.raw_sliced[len(self.raw_sliced) - 1].source_idx
                                   + len(self.raw_sliced[len(self.raw_sliced) - 1].raw))
            and (True if len(result) == 0 else
                 (0 <= raw_slice_idx and 1 <= slice_span and raw_slice_idx + slice_span <= len(self.raw_sliced)
                        and len(result) == slice_span
                        and all(result[m] == self.raw_sliced[raw_slice_idx + m] for m in range(0, slice_span))
                        # (the same fact indexed from the other side: triggers on raw_sliced[k])
                        and all(result[k - raw_slice_idx] == self.raw_sliced[k]
                                for k in range(raw_slice_idx, raw_slice_idx + slice_span))
                        # raw_slice_idx is the last slice starting at or before the range start
                        and all(self.raw_sliced[k].source_idx <= source_slice.start for k in range(1, raw_slice_idx + 1))
                        and (self.raw_sliced[raw_slice_idx + 1].source_idx > source_slice.start
                             if raw_slice_idx + 1 < len(self.raw_sliced) else True)
                        # the run extends over every later slice that starts before the range stop
                        and all(self.raw_sliced[k].source_idx < source_slice.stop
                                for k in range(raw_slice_idx + 1, raw_slice_idx + slice_span))
                        and (self.raw_sliced[raw_slice_idx + slice_span].source_idx >= source_slice.stop
                             if raw_slice_idx + slice_span < len(self.raw_sliced) else True))))

    def inv_1(self, source_slice, raw_slice_idx):
        return (0 <= raw_slice_idx < len(self.raw_sliced)
                and all(self.raw_sliced[k].source_idx <= source_slice.start for k in range(1, raw_slice_idx + 1)))

    def inv_2(self, source_slice, raw_slice_idx, slice_span):
        return (0 <= raw_slice_idx < len(self.raw_sliced) and 1 <= slice_span
                and raw_slice_idx + slice_span <= len(self.raw_sliced)
                and all(self.raw_sliced[k].source_idx <= source_slice.start for k in range(1, raw_slice_idx + 1))
                and implies(raw_slice_idx + 1 < len(self.raw_sliced),
                            self.raw_sliced[raw_slice_idx + 1].source_idx > source_slice.start)
                and all(self.raw_sliced[k].source_idx < source_slice.stop
                        for k in range(raw_slice_idx + 1, raw_slice_idx + slice_span)))

    def dec_1(self, raw_slice_idx):
        return len(self.raw_sliced) - raw_slice_idx

    def dec_2(self, raw_slice_idx, slice_span):
        return len(self.raw_sliced) - raw_slice_idx - slice_span


@contract("sqlfluff.core.templaters.base:TemplatedFile.source_only_slices", PROP)
class source_only_slices:
    types = {"self": TemplatedFile, "ret_buff": TList(RawFileSlice)}
    ret = TList(RawFileSlice)
    ghost_out = {}

    def requires(self):
        return raw_tiled(self.raw_sliced)

    def ensures(self, result):
        return (
            # every returned slice is a raw slice of the file and is not literal
            all(any(result[b] == self.raw_sliced[k] for k in range(len(self.raw_sliced)))
                and result[b].slice_type in ("comment", "block_end", "block_start", "block_mid") and result[b].slice_type != "literal"
                for b in range(len(result)))
            # in file order, without overlap ("The results are NECESSARILY sorted")
            and all(result[b].source_idx + len(result[b].raw) <= result[c].source_idx
                    for b in range(len(result)) for c in range(b + 1, len(result)))
            # every comment / block tag slice is returned
            and all(implies(self.raw_sliced[k].slice_type in ("comment", "block_end", "block_start", "block_mid"),
                            any(result[b] == self.raw_sliced[k] for b in range(len(result))))
                    for k in range(len(self.raw_sliced))))

    def inv_1(self, ret_buff, _i):
        return (all(any(ret_buff[b] == self.raw_sliced[k] for k in range(0, _i))
                    and ret_buff[b].slice_type in ("comment", "block_end", "block_start", "block_mid") and ret_buff[b].slice_type != "literal"
                    for b in range(len(ret_buff)))
                and all(ret_buff[b].source_idx + len(ret_buff[b].raw) <= ret_buff[c].source_idx
                        for b in range(len(ret_buff)) for c in range(b + 1, len(ret_buff)))
                # everything collected so far ends before the slice about to be visited
                and all(implies(_i < len(self.raw_sliced),
                                ret_buff[b].source_idx + len(ret_buff[b].raw) <= self.raw_sliced[_i].source_idx)
                        for b in range(len(ret_buff)))
                and all(implies(self.raw_sliced[k].slice_type in ("comment", "block_end", "block_start", "block_mid"),
                                any(ret_buff[b] == self.raw_sliced[k] for b in range(len(ret_buff))))
                        for k in range(0, _i)))


@external("sqlfluff.core.linter.patch:_iter_templated_patches", PROP)
class iter_templated_patches:
    """HAVOC: whatever the fix engine yields -- an arbitrary finite list of patches with well-formed ranges.
    (LintFix.has_template_conflicts, BaseRule.discard_unsafe_fixes and the generator itself are NOT trusted
    to filter anything: the theorem below holds for every such list.)"""
    types = {"segment": BaseSegment, "templated_file": TemplatedFile}
    ret = TList(FixPatch)

    def ensures(segment, templated_file, result):
        return all(0 <= result[i].source_slice.start <= result[i].source_slice.stop for i in range(len(result)))


@contract("sqlfluff.core.linter.patch:generate_source_patches", PROP)
class generate_source_patches:
    types = {"tree": BaseSegment, "templated_file": TemplatedFile, "filtered_source_patches": TList(FixPatch),
             "dedupe_buffer": TSet(DedupeT), "local_raw_slices": TList(RawFileSlice), "local_type_list": TList(Text)}
    ret = TList(FixPatch)

    def requires(tree, templated_file):
        return raw_tiled(templated_file.raw_sliced)

    def ensures(tree, templated_file, result):
        return (
            # THE GATE: no kept patch overwrites (or inserts inside) a non-literal raw slice unless it is an
            # explicit source-level patch
            all(safe(result[i], templated_file.raw_sliced) for i in range(len(result)))
            # sorted by start (precondition of the slicer)
            and all(result[i].source_slice.start <= result[j].source_slice.start
                    for i in range(len(result)) for j in range(i + 1, len(result)))
            # no (range, text) pair twice
            and all(not (result[i].source_slice == result[j].source_slice and result[i].fixed_raw == result[j].fixed_raw)
                    for i in range(len(result)) for j in range(i + 1, len(result))))

    def inv_1(templated_file, filtered_source_patches, dedupe_buffer):
        return (all(safe(filtered_source_patches[i], templated_file.raw_sliced) for i in range(len(filtered_source_patches)))
                and all(not (filtered_source_patches[i].source_slice == filtered_source_patches[j].source_slice
                             and filtered_source_patches[i].fixed_raw == filtered_source_patches[j].fixed_raw)
                        for i in range(len(filtered_source_patches)) for j in range(i + 1, len(filtered_source_patches)))
                and all(((filtered_source_patches[i].source_slice.start, filtered_source_patches[i].source_slice.stop),
                         filtered_source_patches[i].fixed_raw) in dedupe_buffer for i in range(len(filtered_source_patches))))


# ------------------------------------------------------------------ lemma: the gate gives the slicer's `compat`
@lemma(props=(PROP,))
def L_safe_gives_compat(p: FixPatch, raw: TList(RawFileSlice), so: RawFileSlice):
    """A safe, non-source patch never reaches into a (non-empty, non-literal) source-only slice: this is the
    `compat` precondition of _slice_source_file_using_patches (C30) for every patch the gate lets through."""
    return implies(raw_tiled(raw) and safe(p, raw) and p.patch_category != "source"
                   and any(so == raw[k] for k in range(len(raw)))
                   and so.slice_type != "literal" and len(so.raw) > 0,
                   p.source_slice.stop <= so.source_idx or p.source_slice.start >= so.source_idx + len(so.raw))


TRUSTED = ["HAVOC contract of _iter_templated_patches (arbitrary patches with start <= stop)",
           "source-category patches (rule JJ01) are exempt by the property's own exception; for them the slicer's "
           "`compat` precondition is an assumption"] + _fix.TRUSTED
NOT_COVERED = ["_iter_templated_patches / BaseSegment._iter_source_fix_patches (per-segment patch generation): havocked; the gate "
               "theorem shows no change to them can make template text be overwritten",
               "composition with merge/slicer/builder is by their C30 contracts (safe => compat lemma proved here)"] + _fix.NOT_COVERED
MUTANTS = [
    ("gate_keeps_uncertain", "sqlfluff/core/linter/patch.py", "                (patch.patch_category, patch.source_slice),\n            )\n            continue", "                (patch.patch_category, patch.source_slice),\n            )\n            filtered_source_patches.append(patch)"),
    ("gate_literal_any", "sqlfluff/core/linter/patch.py", 'if not local_type_list or set(local_type_list) == {"literal"}:', 'if not local_type_list or "literal" in local_type_list:'),
    ("gate_zero_len_anywhere", "sqlfluff/core/linter/patch.py", "            and patch.source_slice.start == local_raw_slices[0].source_idx\n", "            and patch.source_slice.start >= local_raw_slices[0].source_idx\n"),
    ("span_stops_early", "sqlfluff/core/templaters/base.py", "            and self.raw_sliced[raw_slice_idx + slice_span].source_idx\n            < source_slice.stop", "            and self.raw_sliced[raw_slice_idx + slice_span].source_idx\n            < source_slice.stop - 1"),
    ("span_start_strict", "sqlfluff/core/templaters/base.py", "and self.raw_sliced[raw_slice_idx + 1].source_idx <= source_slice.start", "and self.raw_sliced[raw_slice_idx + 1].source_idx < source_slice.start"),
    ("so_slices_drop_block_mid", "sqlfluff/core/templaters/base.py", 'return self.slice_type in ("comment", "block_end", "block_start", "block_mid")', 'return self.slice_type in ("comment", "block_end", "block_start")'),
] + _fix.MUTANTS


# ------------------------------------------------------------------ bounded: template code survives real fixes
def template_code_survives(tier, seed):
    """end to end on the real linter (all rules except JJ01, the property's own exception): after fixing, every template
    tag / expression / comment of the source occurs in the output, unchanged and in the original order.  This covers
    what the proved gate cannot see: `source`-category patches produced by rules other than JJ01 (reflow source fixes)."""
    import random
    import re
    from sqlfluff.core import FluffConfig, Linter
    rng = random.Random(seed)
    tag = re.compile(r"\{\{.*?\}\}|\{%.*?%\}|\{#.*?#\}", re.S)
    heads = ["", " ", "   ", "\n", "  \n  "]
    tags = ["{% if true %}", "{%- if true %}", "{% if true -%}", "{%- if true -%}", "{{ 'a' }}", "{{- 'a' }}", "{# c #}", "{#- c -#}",
            "{% set q = 1 %}", "{%- set q = 1 -%}", "{% for i in [1, 2] %}", "{%- for i in [1] -%}"]
    bodies = ["select 1", "select a,b from t", "SELECT  a  from t where x =1", "select\n    b +\n    ", "select a from t  ", "a"]
    ends = {"if": "{% endif %}", "for": "{% endfor %}"}
    cases = []
    for h in heads:
        for t in tags:
            for b in bodies:
                kind = "if" if " if " in t else ("for" if " for " in t else None)
                cases.append(h + t + b + (ends[kind] if kind else "") + "\n")
                cases.append(b + " " + t + ("x" + ends[kind] if kind else "") + "\n")
    rng.shuffle(cases)
    cases = ["   {%- if true %}select 1{% endif %}\n", "select\n    b +\n    {% set q = 1 %}1 as c\nfrom t\n",
             "select a from t  {{ '  ' }}"] + cases
    n = len(cases) if tier == "thorough" else 160
    lnt = Linter(config=FluffConfig(overrides={"dialect": "ansi", "exclude_rules": "JJ01"}))
    ev, nontriv, failed, samples = 0, 0, [], []
    for sql in cases[:n]:
        try:
            lf = lnt.lint_string(sql, fix=True)
            if lf.tree is None or lf.templated_file is None:
                continue
            fixed, _ = lf.fix_string()
        except Exception:
            continue
        ev += 1
        before, after = tag.findall(sql), tag.findall(fixed)
        nontriv += 1 if fixed != sql else 0
        if len(samples) < 3 and fixed != sql:
            samples.append({"source": sql, "fixed": fixed})
        if before != after:
            if not failed or len(sql) < len(failed[0]["detail"]["source"]):
                failed[:] = [{"name": "C10/e2e/template-code-unchanged", "id": "C10/e2e/template-code-unchanged", "kind": "bounded",
                              "status": "failed", "function": "sqlfluff.core.linter.linter:Linter.lint_string",
                              "detail": {"source": sql, "fixed": fixed, "tags_before": before, "tags_after": after,
                                         "patches": [(p.patch_category, p.source_slice.start, p.source_slice.stop, p.fixed_raw)
                                                     for p in (lf.source_patches or [])]},
                              "reproduced": True}]
    # a shape found by a seeding agent's fuzzing on the UNCHANGED tree: a template comment inside an expression followed by an
    # expression that renders to nothing -- the element after it gets a backwards source slice and its patch is applied on top of
    # other text.  Kept apart under its own clause id (it is a recorded known finding) so that the generated grid stays decisive.
    from sqlfluff.core import FluffConfig as _FC
    lnt2 = Linter(config=_FC(configs={"core": {"dialect": "ansi", "templater": "jinja", "exclude_rules": "JJ01"},
                                      "templater": {"jinja": {"context": {"e": ""}}}}))
    for sql in ["SELECT a + \t{# c #}1  \n\n{{ e }},a"]:
        try:
            lf = lnt2.lint_string(sql, fix=True)
            fixed, _ = lf.fix_string()
        except Exception:
            continue
        ev += 1
        before, after = tag.findall(sql), tag.findall(fixed)
        if before != after:
            failed.append({"name": "C10/e2e/template-code-unchanged[comment-then-empty-expression]",
                           "id": "C10/e2e/template-code-unchanged[comment-then-empty-expression]", "kind": "bounded", "status": "failed",
                           "function": "sqlfluff.core.linter.linter:Linter.lint_string",
                           "detail": {"source": sql, "context": {"e": ""}, "fixed": fixed, "tags_before": before, "tags_after": after,
                                      "patches": [(p.patch_category, p.source_slice.start, p.source_slice.stop, p.fixed_raw)
                                                  for p in (lf.source_patches or [])]}, "reproduced": True})
    return {"name": "template-code-survives-fix", "bound": f"{n} generated templates (head x tag x body), JJ01 excluded",
            "rule": "non-trivial = the fix changed the text", "evaluations": ev, "distinct_nontrivial": nontriv,
            "samples": samples, "failed": failed}


from .c10_bounded import first_line_on_real_fixes, discard_on_built_results, wiring  # noqa: E402

BOUNDED = [template_code_survives, first_line_on_real_fixes, discard_on_built_results]
EXTRA = [wiring]
