"""C34 -- oversized files are skipped, never parsed or modified.   Functions under contract:
   sqlfluff.core.templaters.base: large_file_check.<locals>._wrapped   (the character-limit guard around every `process`)
   sqlfluff.core.linter.linter:   Linter.load_raw_file_and_config       (the byte-limit guard, before the file is opened)
   sqlfluff.core.linter.runner:   BaseRunner.iter_rendered              (a skipped file yields nothing and is counted)
Bounded / dynamic (labelled): end-to-end skip accounting through Linter.lint_paths and the CLI exit code.
"""
import os

from pyvc.dsl import contract, external, spec, lemma, implies, iff, inline, ref_class, rec_class
from pyvc.ty import INT, BOOL, Text, TList, TTuple, TOpt, SINK, TOpaque

PROP = "C34"

FluffConfig = ref_class("sqlfluff.core.config.fluffconfig:FluffConfig")
RawTemplater = ref_class("sqlfluff.core.templaters.base:RawTemplater")
Linter = ref_class("sqlfluff.core.linter.linter:Linter", templater=RawTemplater, formatter=TOpt(SINK))
BaseRunner = ref_class("sqlfluff.core.linter.runner:BaseRunner", linter=Linter, config=FluffConfig, skipped_file_count=INT)
Rendered = TOpaque("RenderedFile")


# ------------------------------------------------------------------ specification
@spec(uninterpreted=True)
def cfg_int(cfg: FluffConfig, key: Text) -> TOpt(INT):
    """the (integer) value of a config key, None when unset -- config objects are not modified by the guards"""
    return cfg.get(key)


@spec(uninterpreted=True)
def file_size(fname: Text) -> INT:
    return os.path.getsize(fname)


@spec
def over_char_limit(config, in_str):
    """the property's rule for the character limit: a limit is configured (non-zero) and the text is longer"""
    return (config is not None and cfg_int(config, "large_file_skip_char_limit") is not None
            and cfg_int(config, "large_file_skip_char_limit") != 0
            and len(in_str) > cfg_int(config, "large_file_skip_char_limit"))


@spec
def over_byte_limit(cfg, fname):
    return (cfg_int(cfg, "large_file_skip_byte_limit") is not None and cfg_int(cfg, "large_file_skip_byte_limit") != 0
            and file_size(fname) > cfg_int(cfg, "large_file_skip_byte_limit"))


# ------------------------------------------------------------------ assumed library / neighbour contracts
@external("sqlfluff.core.config.fluffconfig:FluffConfig.get", PROP)
class config_get:
    types = {"self": FluffConfig, "val": Text, "section": Text}
    ret = TOpt(INT)

    def ensures(self, val, section="core", default=None, result=None):
        return result == cfg_int(self, val)


@external("sqlfluff.core.templaters.base:RawTemplater.process", PROP)
class process_inner:
    """the decorated `process` body: MUST NOT be reached for an over-limit text (this precondition is the
    `never parsed` half of the property for the character limit)"""
    types = {"self": RawTemplater, "in_str": Text, "fname": Text, "config": TOpt(FluffConfig), "formatter": TOpt(SINK)}
    ret = SINK
    raises = {"SQLTemplaterError": None, "SQLFluffSkipFile": None, "ValueError": None}

    def requires(self, in_str, fname, config, formatter):
        return not over_char_limit(config, in_str)

    def ensures(self, in_str, fname, config, formatter, result):
        return True


@contract("sqlfluff.core.templaters.base:RawTemplater.process@wrapper", PROP)
class large_file_wrapper:
    types = {"self": RawTemplater, "in_str": Text, "fname": Text, "config": TOpt(FluffConfig), "formatter": TOpt(SINK),
             "limit": TOpt(INT)}
    raises = {"SQLFluffSkipFile": None, "SQLTemplaterError": None, "ValueError": None}

    def hint_on_raise(self, in_str, fname, config, formatter, exc_class):
        # an over-limit text ALWAYS ends in an exception (never a rendered file) ...
        return True

    def ensures(self, in_str, fname, config, formatter, result):
        # ... and a normal return means the text was within the limit
        return not over_char_limit(config, in_str)


@external("sqlfluff.core.config.fluffconfig:FluffConfig.make_child_from_path", PROP)
class make_child_from_path:
    types = {"self": FluffConfig, "path": Text}
    ret = FluffConfig

    def ensures(self, path, result):
        return True


@external("sqlfluff.core.helpers.file:get_encoding", PROP)
class get_encoding:
    types = {"fname": Text, "config_encoding": SINK}
    ret = Text

    def ensures(fname, config_encoding, result):
        return True


@external("genericpath:getsize", PROP)
class getsize:
    types = {"filename": Text}
    ret = INT

    def ensures(filename, result):
        return result == file_size(filename) and result >= 0


@external("_io:open", PROP)
class open_file:
    """READ of the target: must not happen for an over-limit file (requires), checked at the call site"""
    types = {"file": Text, "encoding": Text, "errors": Text}
    ret = SINK
    raises = {"OSError+": None}

    def ensures(file, encoding, errors, result):
        return True


@external("sqlfluff.core.config.fluffconfig:FluffConfig.process_raw_file_for_config", PROP)
class process_raw_file_for_config:
    types = {"self": FluffConfig, "raw_str": SINK, "filename": Text}

    def ensures(self, raw_str, filename):
        return True


@contract("sqlfluff.core.linter.linter:Linter.load_raw_file_and_config", PROP)
class load_raw_file_and_config:
    types = {"fname": Text, "root_config": FluffConfig, "limit": TOpt(INT), "file_size": INT}
    ghost_out = {"file_config": FluffConfig}
    raises = {"SQLFluffSkipFile": None, "OSError+": None, "ValueError": None, "TypeError": None}

    def ensures(fname, root_config, result, file_config):
        # a normal return (the file was opened and read) means it was within the byte limit of its own config
        return not over_byte_limit(file_config, fname)


TRUSTED = ["config values of the two limits are integers or unset (int(limit) does not raise)",
           "FluffConfig.get is a deterministic function of (config, key) while the guards run"]
NOT_COVERED = ["ParallelRunner.run's DelayedException branch and Linter.lint_paths' `files_skipped = runner.skipped_file_count` "
               "(dynamic check only)", "the statements of `lint` / `_paths_fix` before their exit tails (region contracts)"]


# ------------------------------------------------------------------ the runner: a skipped file yields nothing and is counted
@external("sqlfluff.core.templaters.base:RawTemplater.sequence_files", PROP)
class sequence_files:
    types = {"self": RawTemplater, "fnames": TList(Text), "config": TOpt(FluffConfig), "formatter": TOpt(SINK)}
    ret = TList(Text)

    def ensures(self, fnames, config, formatter, result):
        return result == seq_of(fnames)


@spec(uninterpreted=True)
def seq_of(fnames: TList(Text)) -> TList(Text):
    """the order in which the templater wants the files processed (a deterministic function of the names)"""
    return list(fnames)


@external("sqlfluff.core.linter.linter:Linter.render_file", PROP)
class render_file:
    """may skip (SQLFluffSkipFile) or render"""
    types = {"self": Linter, "fname": Text, "root_config": FluffConfig}
    ret = Rendered
    raises = {"SQLFluffSkipFile": None}

    def ensures(self, fname, root_config, result):
        return True


@contract("sqlfluff.core.linter.runner:BaseRunner.iter_rendered", PROP)
class iter_rendered:
    types = {"self": BaseRunner, "fnames": TList(Text)}
    ghost_yield = TTuple(Text, Rendered)
    modifies = ["self.skipped_file_count"]

    def ensures(self, fnames, result, old):
        # every file is either yielded for linting or counted as skipped -- never both, never neither
        return (self.skipped_file_count >= old.self.skipped_file_count
                and len(result) + (self.skipped_file_count - old.self.skipped_file_count) == len(seq_of(fnames)))

    def inv_1(self, _yielded, _i, old):
        return (self.skipped_file_count >= old.self.skipped_file_count
                and len(_yielded) + (self.skipped_file_count - old.self.skipped_file_count) == _i)

    def hint_on_raise(self, exc_class):
        return False     # nothing escapes: SQLFluffSkipFile is caught


# ------------------------------------------------------------------ the CLI exit tails (region contracts)
# `lint` and `_paths_fix` are long click command bodies; only their last statements decide the exit code.  pyvc extracts
# that statement range mechanically from the real function on every run (pyvc.engine.extract_region) and verifies it as a
# function of the locals it reads.  Dropped by the extraction: every statement before the range; the declared types of the
# locals are therefore ASSUMPTIONS here (exit_code is an int >= 0, result is the LintingResult of the run).
LintedDir = ref_class("sqlfluff.core.linter.linted_dir:LintedDir", _num_violations=INT)
LintingResult = ref_class("sqlfluff.core.linter.linting_result:LintingResult", paths=TList(LintedDir), files_skipped=INT)
ref_class("sqlfluff.core.linter.linter:Linter", config=FluffConfig)
from pyvc.ty import TRec  # noqa: E402
Stats = TRec("StatsDict", {"exit code": INT}, is_dict=True)


@spec
def any_counted_violation(r):
    """some file has a violation that is neither suppressed nor a warning (LintedDir._num_violations, see C22)"""
    return any(r.paths[i]._num_violations > 0 for i in range(len(r.paths)))


@external("sqlfluff.core.linter.linting_result:LintingResult.stats", PROP)
class result_stats:
    """verified under C22 (contracts/c22.py: result_stats), assumed at this call site"""
    types = {"self": LintingResult, "fail_code": INT, "success_code": INT}
    ret = Stats

    def ensures(self, fail_code, success_code, result):
        return result["exit code"] == (fail_code if any_counted_violation(self) else success_code)


@external("sqlfluff.core.linter.linting_result:LintingResult.persist_timing_records", PROP)
class persist_timing_records:
    """writes a CSV of timings: no effect on the result object"""
    types = {"self": LintingResult, "filename": Text}

    def ensures(self, filename):
        return True


@external("sys:exit", PROP)
class sys_exit:
    types = {"code": INT}
    params = ["code"]
    raises = {"SystemExit": None}

    def ensures(code):
        return False          # never returns


@spec
def skip_fail(result, config):
    """the property's rule: files were skipped AND large_file_skip_fail is enabled"""
    return (result.files_skipped != 0 and cfg_int(config, "large_file_skip_fail") is not None
            and cfg_int(config, "large_file_skip_fail") != 0)


@contract("sqlfluff.cli.commands:lint#exit-code", PROP)
class lint_exit_code:
    region = ("if not nofail:", None)
    region_params = ["nofail", "non_human_output", "formatter", "result", "config"]
    types = {"nofail": BOOL, "non_human_output": BOOL, "formatter": SINK, "result": LintingResult, "config": FluffConfig,
             "exit_code": INT}
    raises = {"SystemExit": None}

    def requires(nofail, non_human_output, formatter, result, config):
        return result.files_skipped >= 0 and all(result.paths[i]._num_violations >= 0 for i in range(len(result.paths)))

    def hint_on_raise(nofail, non_human_output, result, config, exc_class, exc_value):
        # whatever the output format: skipped files fail the run exactly when large_file_skip_fail is enabled (and
        # nothing else but a counted violation does)
        return exc_class == "SystemExit" and exc_value == (
            0 if nofail else (1 if (any_counted_violation(result) or skip_fail(result, config)) else 0))

    def ensures(nofail, non_human_output, formatter, result, config):
        return False          # the tail always exits


@contract("sqlfluff.cli.commands:_paths_fix#exit-code", PROP)
class paths_fix_exit_code:
    # anchored at the statement BEFORE the skip check, so that an edit of the check itself is verified, not `stale`
    region = ("if persist_timing:", None)
    region_params = ["result", "linter", "exit_code", "persist_timing"]
    types = {"result": LintingResult, "linter": Linter, "exit_code": INT, "persist_timing": TOpt(Text)}
    raises = {"SystemExit": None}

    def requires(result, linter, exit_code, persist_timing):
        return result.files_skipped >= 0 and 0 <= exit_code <= 1

    def hint_on_raise(result, linter, exit_code, old, exc_class, exc_value):
        return exc_class == "SystemExit" and exc_value == (1 if skip_fail(result, linter.config) else old.exit_code)

    def ensures(result, linter, exit_code, persist_timing):
        return False


def skip_accounting(tier, seed):
    """dynamic: Linter.lint_paths / CLI on temp files around both limits: over-limit files are counted in files_skipped,
    never parsed (no tree, no violations), never rewritten by fix; exit code 1 only with large_file_skip_fail."""
    import subprocess
    import sys
    import tempfile
    from sqlfluff.core import FluffConfig, Linter
    failed, samples, ev = [], [], 0
    d = tempfile.mkdtemp(prefix="c34_")
    try:
        small, big = os.path.join(d, "small.sql"), os.path.join(d, "big.sql")
        open(small, "w").write("select 1\n")
        open(big, "w").write("select a,b  from tbl where x =1 and y= 2\n")
        for key in ("large_file_skip_byte_limit", "large_file_skip_char_limit"):
            for fix in (False, True):
                ev += 1
                before = open(big).read()
                lnt = Linter(config=FluffConfig(overrides={"dialect": "ansi", key: 20}))
                res = lnt.lint_paths((d,), fix=fix, apply_fixes=fix)
                paths = {f.path: f for p in res.paths for f in p.files}
                skipped_ok = res.files_skipped == 1
                not_parsed = all(not (os.path.basename(k) == "big.sql" and (v.tree is not None or v.violations)) for k, v in paths.items())
                unchanged = open(big).read() == before
                rec = {"limit": key, "fix": fix, "files_skipped": res.files_skipped, "unchanged": unchanged, "not_parsed": not_parsed}
                if len(samples) < 4:
                    samples.append(rec)
                for ok, clause in ((skipped_ok, "counted-as-skipped"), (not_parsed, "never-parsed"), (unchanged, "never-rewritten")):
                    if not ok:
                        fid = f"C34/{key}/{clause}"
                        if not any(f["id"] == fid for f in failed):
                            failed.append({"name": fid, "id": fid, "kind": "bounded", "status": "failed",
                                           "function": "sqlfluff.core.linter.linter:Linter.lint_paths", "detail": rec, "reproduced": True})
        for fail_flag, want in ((False, 0), (True, 1)):
            ev += 1
            cfg = os.path.join(d, ".sqlfluff")
            open(cfg, "w").write(f"[sqlfluff]\ndialect = ansi\nlarge_file_skip_byte_limit = 20\nlarge_file_skip_fail = {fail_flag}\nrules = LT12\n")
            p = subprocess.run([sys.executable, "-m", "sqlfluff", "lint", "small.sql", "big.sql"], cwd=d, capture_output=True, text=True)
            if p.returncode != want:
                failed.append({"name": f"C34/cli-exit[skip_fail={fail_flag}]", "id": f"C34/cli-exit[skip_fail={fail_flag}]", "kind": "bounded",
                               "status": "failed", "function": "sqlfluff.cli.commands:lint",
                               "detail": {"exit": p.returncode, "expected": want, "stdout": p.stdout[-300:]}, "reproduced": True})
            os.remove(cfg)
    finally:
        import shutil
        shutil.rmtree(d, ignore_errors=True)
    return {"name": "skip-accounting", "bound": "2 limits x lint/fix + CLI exit with/without large_file_skip_fail",
            "rule": "fixed scenarios around both limits", "evaluations": ev, "distinct_nontrivial": ev, "samples": samples, "failed": failed}


BOUNDED = [skip_accounting]
MUTANTS = [
    ("char_limit_ge", "sqlfluff/core/templaters/base.py", "            if limit and len(in_str) > limit:", "            if limit and len(in_str) > limit + 1:"),
    ("char_limit_needs_formatter", "sqlfluff/core/templaters/base.py", "        if config:\n            limit = config.get(\"large_file_skip_char_limit\")", "        if config and formatter:\n            limit = config.get(\"large_file_skip_char_limit\")"),
    ("byte_limit_off_by", "sqlfluff/core/linter/linter.py", "            if file_size > limit:", "            if file_size > limit * 2:"),
    ("byte_limit_root_config", "sqlfluff/core/linter/linter.py", '        limit = file_config.get("large_file_skip_byte_limit")', '        limit = root_config.get("large_file_skip_byte_limit")'),
    ("lint_skip_fail_only_human", "sqlfluff/cli/commands.py", "        if result.files_skipped and config.get(\"large_file_skip_fail\"):\n            exit_code = max(exit_code, EXIT_FAIL)\n        sys.exit(exit_code)", "        if not non_human_output and result.files_skipped and config.get(\"large_file_skip_fail\"):\n            exit_code = max(exit_code, EXIT_FAIL)\n        sys.exit(exit_code)"),
    ("fix_skip_fail_ignored", "sqlfluff/cli/commands.py", "    if result.files_skipped and linter.config.get(\"large_file_skip_fail\"):\n        exit_code = max(exit_code, EXIT_FAIL)\n\n    sys.exit(exit_code)", "    if result.files_skipped > 1 and linter.config.get(\"large_file_skip_fail\"):\n        exit_code = max(exit_code, EXIT_FAIL)\n\n    sys.exit(exit_code)"),
    ("skip_not_counted", "sqlfluff/core/linter/runner.py", "                linter_logger.warning(str(s))\n                self.skipped_file_count += 1", "                linter_logger.warning(str(s))"),
    ("skip_counted_twice", "sqlfluff/core/linter/runner.py", "                self.skipped_file_count += 1\n\n    def iter_partials", "                self.skipped_file_count += 2\n\n    def iter_partials"),
]
