"""C25 -- File discovery honours ignore files regardless of path spelling.

"The files linted for a set of paths are exactly those under the paths that have a configured SQL extension and are
not matched by any applicable ignore file.  Applicable ignore files are .sqlfluffignore files and ignore_paths
settings in an ancestor directory, or in a directory between the path and the file.  The selection is the same whether
a path is given as relative, absolute or '.'."

Code: sqlfluff.core.linter.discovery (paths_from_path, _iter_files_in_path, _process_exact_path, _check_ignore_specs,
_match_file_extension, _iter_config_files, the loaders) and sqlfluff.core.helpers.file.iter_intermediate_paths.

The deductive engine has no model of `os.walk` with in-place pruning of `subdirs` (a generator that reads a list the
consumer mutates between two `next` calls), so the property is decided in three layers, each labelled for what it is:

  (1) PROVED (pyvc / z3, native strings): lemmas over an abstract path model (`abs_` uninterpreted): the relevance test
      of an inner ignore spec, in the shape the code has after the repair, IS the ancestor relation on absolute forms;
      the shape it had before the repair is the ancestor relation only for absolute spellings and degenerates to
      `x == d` for relative ones (and a must-fail: the old shape is not equivalent -- counter-model expected).
  (2) SYNTACTIC (python ast of the real source, re-read on every run): the code has the shape the lemma talks about,
      every path handed to an ignore spec is absolute and matched relative to the spec's own directory, outer and inner
      specs are both consulted for every candidate, exact files go through the same filter, the walk is top-down and
      pruned in place.
  (3) BOUNDED (the part that decides the property): the executable contract of paths_from_path -- the property's
      selection formula written independently on relative posix strings -- compared with the real function on random
      directory trees, for every spelling of the same target.
"""

import ast
import hashlib
import inspect
import logging
import os
import random
import shutil
import tempfile
import time
import warnings

from pyvc.dsl import LEMMAS, iff, implies, lemma, spec
from pyvc.ty import StrN

PROP = "C25"
LEVEL = "exploration"
NATIVE_TRIES = {"quick": 0, "thorough": 0}
FN = "sqlfluff.core.linter.discovery:paths_from_path"

# =====================================================================================================================
# (1) abstract path model: proved lemmas
# =====================================================================================================================


@spec(uninterpreted=True)
def abs_(p: StrN) -> StrN:
    """absolute, normalised form of the path spelling p (native reading: os.path.abspath under the current cwd)"""
    return os.path.abspath(p)


@spec
def anc(d, x):
    """the directory spelled d is x's directory or one of its ancestors (the property's "applies below its directory")"""
    return abs_(x) == abs_(d) or abs_(x).startswith(abs_(d) + "/")


@spec
def new_test(d, x):
    """the relevance test of _iter_files_in_path as it is written now (C25/static/relevance-test-shape checks that)"""
    return x == d or abs_(x).startswith(abs_(d) + "/")


@spec
def old_test(d, x):
    """the relevance test before the repair: the walk's own spelling of x against an absolute prefix"""
    return x == d or x.startswith(abs_(d) + "/")


@spec
def walk_names(d, x):
    """d and x are both names yielded by ONE os.walk(top): join(top, components), each directory yielded once, links
    not followed -- so two names are equal exactly when they denote the same directory (assumed of os.walk: TRUSTED)"""
    return iff(x == d, abs_(x) == abs_(d))


@lemma(props=(PROP,))
def L_relevance_test_is_ancestor(d: StrN, x: StrN):
    """an inner ignore spec loaded in d is kept while walking x exactly when d is x or an ancestor of x"""
    return implies(walk_names(d, x), iff(new_test(d, x), anc(d, x)))


@lemma(props=(PROP,))
def L_old_test_correct_for_absolute_spelling(d: StrN, x: StrN):
    """why the defect was invisible for `/abs/p`: when the walk's names are already absolute the old test is right"""
    return implies(walk_names(d, x) and abs_(x) == x, iff(old_test(d, x), anc(d, x)))


@lemma(props=(PROP,))
def L_old_test_degenerate_for_relative_spelling(d: StrN, x: StrN):
    """... and for a relative spelling it keeps a spec only inside its own directory, never below it"""
    return implies(abs_(d).startswith("/") and not x.startswith("/"), iff(old_test(d, x), x == d))


@lemma(props=())      # NOT registered for the property: generated and refuted by `path_model_must_fail` (EXTRA)
def L_old_test_is_ancestor__MUST_FAIL(d: StrN, x: StrN):
    return implies(walk_names(d, x) and abs_(d).startswith("/") and abs_(x).startswith("/"),
                   iff(old_test(d, x), anc(d, x)))


def path_model_must_fail(tier, seed):
    """The old relevance test is NOT the ancestor relation: the solver must find a counter-model (bounded,
    quantifier-free encoding, model re-evaluated), and the textbook instance must reproduce with the real os.path."""
    from pyvc import verify
    from pyvc.runner import model_text
    oid = f"{PROP}/lemma.L_old_test_is_ancestor/must-fail"
    out = {"name": "C25-path-model-must-fail", "obligations": 1, "discharged": 0, "failed": [], "undecided": [], "samples": [],
           "backend": "z3-5.1.0 refutation mode (bound 3) + CPython os.path", "trusted": []}
    rep = verify.gen_lemma(LEMMAS["L_old_test_is_ancestor__MUST_FAIL"], PROP, bounded=3)
    if rep.error or not rep.obligations:
        out["undecided"].append({"function": "lemma:L_old_test_is_ancestor__MUST_FAIL", "obligation": oid, "reason": str(rep.error)})
        return out
    ob = rep.obligations[0]
    verify.solve_obligation(ob, timeout_ms=10000, use_cli=False, bounded=True)
    d, x = "p/a", "p/a/b"            # the confirmed instance: p/a/.sqlfluffignore while walking p/a/b
    native = {"d": d, "x": x, "old_test": old_test(d, x), "new_test": new_test(d, x), "ancestor": anc(d, x)}
    if ob.status == "sat" and native["ancestor"] and not native["old_test"] and native["new_test"]:
        out["discharged"] = 1
        out["samples"].append({"obligation": oid, "expected": "counter-model", "solver_model": dict(model_text(ob.model, rep.inputs), model=str(ob.model)[:300]),
                               "native_instance": native, "time_s": round(ob.time_s, 3)})
    else:
        out["undecided"].append({"function": "lemma:L_old_test_is_ancestor__MUST_FAIL", "obligation": oid,
                                 "reason": f"expected a counter-model, solver said {ob.status}; native instance {native}"})
    return out


# =====================================================================================================================
# (2) syntactic obligations on the real source
# =====================================================================================================================
def _dotted(n):
    if isinstance(n, ast.Name):
        return n.id
    if isinstance(n, ast.Attribute):
        b = _dotted(n.value)
        return None if b is None else b + "." + n.attr
    return None


def _is_call(n, *names):
    return isinstance(n, ast.Call) and _dotted(n.func) in names


def _abs_arg(n):
    """`os.path.abspath(e)` -> e, else None"""
    return n.args[0] if _is_call(n, "os.path.abspath", "abspath") and len(n.args) == 1 else None


def _strip_sep(n):
    """`e + os.sep` / `e + "/"` -> (e, True); anything else -> (n, False)"""
    if isinstance(n, ast.BinOp) and isinstance(n.op, ast.Add) and (
            _dotted(n.right) in ("os.sep", "os.path.sep", "sep") or (isinstance(n.right, ast.Constant) and n.right.value == "/")):
        return n.left, True
    return n, False


def _is_slice_copy(n):
    return (isinstance(n, ast.Subscript) and isinstance(n.value, ast.Name) and isinstance(n.slice, ast.Slice)
            and n.slice.lower is None and n.slice.upper is None and n.slice.step is None)


def _u(n):
    return ast.unparse(n) if n is not None else None


def _positive_calls(test, fname):
    """calls of `fname` whose truth makes `test` true: the test itself or a disjunct of it"""
    if _is_call(test, fname):
        return [test]
    if isinstance(test, ast.BoolOp) and isinstance(test.op, ast.Or):
        return [c for v in test.values for c in _positive_calls(v, fname)]
    return []


def _only_continue(body):
    return len(body) >= 1 and isinstance(body[-1], ast.Continue) and all(isinstance(s, (ast.Expr, ast.Continue)) for s in body)


class _Obs:
    def __init__(self, file):
        self.n = 0
        self.ok_n = 0
        self.failed, self.undecided, self.samples = [], [], []
        self.file = file

    def put(self, name, verdict, detail, line=None, function=None, reproduced=False):
        """verdict: True discharged / False failed / None undecided (anchor not found)"""
        oid = f"{PROP}/static/{name}"
        self.n += 1
        if verdict is True:
            self.ok_n += 1
            self.samples.append({"obligation": oid, "backend": BACKEND_STATIC, "line": line, "evidence": detail})
        elif verdict is False:
            self.failed.append({"name": oid, "id": oid, "kind": "static", "status": "failed", "backend": BACKEND_STATIC,
                                "function": function or FN, "detail": {"file": self.file, "line": line, "why": detail},
                                "reproduced": reproduced})
        else:
            self.undecided.append({"function": function or FN, "obligation": oid, "reason": "anchor not found: " + str(detail)})


BACKEND_STATIC = "python ast pattern check of the real source (syntactic, not a proof)"


def _functions(modfile):
    with open(modfile) as fh:
        text = fh.read()
    tree = ast.parse(text)
    return {n.name: n for n in tree.body if isinstance(n, ast.FunctionDef)}, tree, hashlib.sha256(text.encode()).hexdigest()


def _assigned_values(fn, name):
    return [s.value for s in ast.walk(fn) if isinstance(s, ast.Assign) and any(isinstance(t, ast.Name) and t.id == name for t in s.targets)]


def static_obligations(tier, seed):
    t0 = time.time()
    from sqlfluff.core.linter import discovery
    from sqlfluff.core.helpers import file as helpers_file
    dfile = inspect.getsourcefile(discovery.paths_from_path)
    hfile = inspect.getsourcefile(helpers_file.iter_intermediate_paths)
    F, dtree, dsha = _functions(dfile)
    H, _, hsha = _functions(hfile)
    O = _Obs(dfile)
    DISC = "sqlfluff.core.linter.discovery:"

    it = F.get("_iter_files_in_path")
    walk = None
    if it is not None:
        walk = next((n for n in ast.walk(it) if isinstance(n, ast.For) and _is_call(n.iter, "os.walk")), None)
    wt = [e.id for e in walk.target.elts] if walk is not None and isinstance(walk.target, ast.Tuple) and all(
        isinstance(e, ast.Name) for e in walk.target.elts) else None
    params = [a.arg for a in it.args.args] if it is not None else []

    # ------------------------------------------------------------------------------------------ (e) walk + pruning
    if walk is None or wt is None or len(wt) != 3:
        for nm in ("walk-topdown", "prune-in-place", "prune-tests-outer-and-inner", "walk-body-order", "relevance-test-absolute-both-sides",
                   "relevance-test-shape", "inner-spec-dirs-are-walk-names", "file-loop-checks-extension-outer-inner"):
            O.put(nm, None, "`for dirname, subdirs, filenames in os.walk(...)` in _iter_files_in_path", function=DISC + "_iter_files_in_path")
        dirname_v = subdirs_v = filenames_v = None
    else:
        dirname_v, subdirs_v, filenames_v = wt
        td = [k for k in walk.iter.keywords if k.arg == "topdown"]
        if len(walk.iter.args) >= 2:
            td_val = walk.iter.args[1]
        else:
            td_val = td[0].value if td else None
        if td_val is None or (isinstance(td_val, ast.Constant) and td_val.value is True):
            O.put("walk-topdown", True, _u(walk.iter) + ("" if td_val is not None else "  (topdown defaults to True)"), walk.lineno)
        elif isinstance(td_val, ast.Constant):
            O.put("walk-topdown", False, "os.walk is not top-down: pruning `subdirs` has no effect and parents' ignore files are read after "
                  "their children were visited: " + _u(walk.iter), walk.lineno, DISC + "_iter_files_in_path")
        else:
            O.put("walk-topdown", None, "topdown is not a literal: " + _u(walk.iter))

        loops = [n for n in walk.body if isinstance(n, ast.For)]
        prune = next((n for n in loops if _is_slice_copy(n.iter) and n.iter.value.id == subdirs_v), None)
        rel = next((n for n in loops if _is_slice_copy(n.iter) and n.iter.value.id != subdirs_v), None)
        fileloop = next((n for n in loops if isinstance(n.iter, ast.Name) and n.iter.id == filenames_v), None)
        load = next((n for n in walk.body if isinstance(n, ast.If) and any(
            isinstance(c, ast.Call) and isinstance(c.func, ast.Attribute) and c.func.attr == "append" for c in ast.walk(n))), None)
        inner_v = rel.iter.value.id if rel is not None else None

        # (e) pruning mutates the walk's own list in place, iterating a slice copy
        if prune is None:
            direct = next((n for n in loops if isinstance(n.iter, ast.Name) and n.iter.id == subdirs_v), None)
            if direct is not None and any(isinstance(c, ast.Call) and _dotted(c.func) == subdirs_v + ".remove" for c in ast.walk(direct)):
                O.put("prune-in-place", False, f"`{subdirs_v}` is mutated while it is iterated directly (no slice copy): elements are skipped",
                      direct.lineno, DISC + "_iter_files_in_path")
            else:
                O.put("prune-in-place", None, f"`for subdir in {subdirs_v}[:]`")
            O.put("prune-tests-outer-and-inner", None, f"`for subdir in {subdirs_v}[:]`")
        else:
            sub_v = prune.target.id if isinstance(prune.target, ast.Name) else None
            removes = [c for c in ast.walk(prune) if isinstance(c, ast.Call) and _dotted(c.func) == subdirs_v + ".remove"]
            rebinds = [s for s in ast.walk(walk) if isinstance(s, (ast.Assign, ast.AugAssign, ast.AnnAssign)) and any(
                isinstance(t, ast.Name) and t.id == subdirs_v for t in (s.targets if isinstance(s, ast.Assign) else [s.target]))]
            if rebinds:
                O.put("prune-in-place", False, f"`{subdirs_v}` is rebound ({_u(rebinds[0])}): os.walk keeps reading its own list, "
                      "so nothing is pruned", rebinds[0].lineno, DISC + "_iter_files_in_path")
            elif removes and all(len(c.args) == 1 and isinstance(c.args[0], ast.Name) and c.args[0].id == sub_v for c in removes):
                O.put("prune-in-place", True, f"for {sub_v} in {_u(prune.iter)}: ... {_u(removes[0])}   (slice copy iterated, "
                      f"the list os.walk reads is mutated, never rebound)", prune.lineno)
            else:
                O.put("prune-in-place", None, f"`{subdirs_v}.remove({sub_v})` inside the pruning loop")
            # what is tested: abspath(join(dirname, subdir, "*")) against outer and inner specs
            guard = next((n for n in prune.body if isinstance(n, ast.If) and any(c in removes for c in ast.walk(n))), None)
            calls = _positive_calls(guard.test, "_check_ignore_specs") if guard is not None else []
            second = sorted(_u(c.args[1]) for c in calls if len(c.args) == 2)
            firsts = {_u(c.args[0]) for c in calls if len(c.args) == 2}
            ok_abs = False
            if len(firsts) == 1 and calls and isinstance(calls[0].args[0], ast.Name):
                vals = _assigned_values(prune, calls[0].args[0].id)
                ok_abs = bool(vals) and all(
                    _abs_arg(v) is not None and _is_call(_abs_arg(v), "os.path.join") and [_u(a) for a in _abs_arg(v).args[:2]] == [dirname_v, sub_v]
                    for v in vals)
            if guard is None or not calls:
                O.put("prune-tests-outer-and-inner", None, "`if _check_ignore_specs(...) or _check_ignore_specs(...): subdirs.remove(subdir)`")
            elif second == sorted([params[2], inner_v or ""]) and ok_abs:
                O.put("prune-tests-outer-and-inner", True, f"if {_u(guard.test)}: remove   with {calls[0].args[0].id} = "
                      f"{_u(_assigned_values(prune, calls[0].args[0].id)[0])}", guard.lineno)
            else:
                O.put("prune-tests-outer-and-inner", False, f"a sub-directory must be pruned when an outer OR an inner spec matches its absolute "
                      f"path; found specs {second}, absolute operand: {ok_abs}: {_u(guard.test)}", guard.lineno, DISC + "_iter_files_in_path")

        # order inside one walk step: drop irrelevant specs, load this directory's ignore files, prune, then files
        idx = {k: (walk.body.index(v) if v is not None else None) for k, v in (("rel", rel), ("load", load), ("prune", prune), ("files", fileloop))}
        if None in idx.values():
            O.put("walk-body-order", None, f"the four steps of one walk iteration {idx}")
        elif idx["rel"] < idx["load"] < idx["prune"] < idx["files"]:
            O.put("walk-body-order", True, "relevance filter (stmt %(rel)d) < load this directory's ignore files (%(load)d) < prune "
                  "sub-directories (%(prune)d) < file loop (%(files)d)" % idx, walk.lineno)
        else:
            O.put("walk-body-order", False, "a directory's own ignore files must be loaded after the stale ones are dropped and before its "
                  "sub-directories are pruned and its files are filtered: %s" % idx, walk.lineno, DISC + "_iter_files_in_path")

        # ------------------------------------------------------------------------------------------ (a) relevance test
        sw = [c for c in ast.walk(rel) if isinstance(c, ast.Call) and isinstance(c.func, ast.Attribute) and c.func.attr == "startswith"] if rel is not None else []
        rt = [e.id for e in rel.target.elts] if rel is not None and isinstance(rel.target, ast.Tuple) and all(
            isinstance(e, ast.Name) for e in rel.target.elts) else None
        if rel is None or rt is None or len(sw) != 1 or len(sw[0].args) != 1:
            O.put("relevance-test-absolute-both-sides", None, "one `.startswith(` in `for inner_dirname, inner_file, inner_spec in inner_ignore_specs[:]`")
            O.put("relevance-test-shape", None, "the relevance loop over a slice copy of the inner spec list")
        else:
            c = sw[0]
            left, (right, has_sep) = c.func.value, _strip_sep(c.args[0])
            la, ra = _abs_arg(left), _abs_arg(right)
            kinds = ("abs" if la is not None else "raw" if isinstance(left, ast.Name) else "other",
                     "abs" if ra is not None else "raw" if isinstance(right, ast.Name) else "other")
            lname = _u(la) if la is not None else _u(left)
            rname = _u(ra) if ra is not None else _u(right)
            if "other" in kinds or not has_sep:
                O.put("relevance-test-absolute-both-sides", None, "operands of the form [os.path.abspath](name) / [os.path.abspath](name) + os.sep: " + _u(c))
            elif kinds[0] == kinds[1] and (lname, rname) == (dirname_v, rt[0]):
                O.put("relevance-test-absolute-both-sides", True, f"{_u(c)}: both operands {'absolute' if kinds[0] == 'abs' else 'in the spelling of the walk'}"
                      f" ({dirname_v} = directory being walked, {rt[0]} = directory of the ignore file)", c.lineno)
            elif kinds[0] != kinds[1]:
                d, x = "p/a", "p/a/b"
                lv = os.path.abspath(x) if kinds[0] == "abs" else x
                rv = (os.path.abspath(d) if kinds[1] == "abs" else d) + os.sep
                O.put("relevance-test-absolute-both-sides", False,
                      {"test": _u(c), "operands": {"left": kinds[0], "right": kinds[1]},
                       "why": "one side is the path as spelled by the caller, the other is absolute: a prefix test between them is "
                              "meaningless for a relative spelling (lemma L_old_test_degenerate_for_relative_spelling)",
                       "instance": {"ignore file in": d, "walking": x, "left": lv, "right": rv, "startswith": lv.startswith(rv),
                                    "is below": True}},
                      c.lineno, DISC + "_iter_files_in_path", reproduced=not lv.startswith(rv))
            else:
                O.put("relevance-test-absolute-both-sides", None, f"operands are {lname} / {rname}, expected {dirname_v} / {rt[0]}")
            # the whole statement has the shape of `new_test` (or of its absolute-only variant), negated, guarding the removal
            ifs = [n for n in rel.body if isinstance(n, ast.If)]
            shape = None
            if len(ifs) == 1 and isinstance(ifs[0].test, ast.UnaryOp) and isinstance(ifs[0].test.op, ast.Not):
                inner = ifs[0].test.operand
                if isinstance(inner, ast.BoolOp) and isinstance(inner.op, ast.Or) and len(inner.values) == 2:
                    eq, call = inner.values
                    if (isinstance(eq, ast.Compare) and len(eq.ops) == 1 and isinstance(eq.ops[0], ast.Eq)
                            and {_u(eq.left), _u(eq.comparators[0])} == {dirname_v, rt[0]} and call is c):
                        rm = [k for k in ast.walk(ifs[0]) if isinstance(k, ast.Call) and _dotted(k.func) == inner_v + ".remove"]
                        if len(rm) == 1 and _u(rm[0].args[0]).replace(" ", "") == "(" + ",".join(rt) + ")":
                            shape = f"if not ({_u(inner)}): {_u(rm[0])}"
            if shape and kinds == ("abs", "abs"):
                O.put("relevance-test-shape", True, "kept  <=>  new_test(d=%s, x=%s)  [lemma L_relevance_test_is_ancestor: <=> anc(d, x)]: %s" % (rt[0], dirname_v, shape), ifs[0].lineno)
            elif shape:
                O.put("relevance-test-shape", None, "the statement matches neither spec function new_test (abspath on both sides): " + shape)
            else:
                O.put("relevance-test-shape", None, "`if not (dirname == inner_dirname or <startswith>): inner_ignore_specs.remove((...))`")

        # the d's of the lemma are walk names: records are appended from loader(dirname, name), loaders return their first parameter first
        apps = [c for c in ast.walk(walk) if isinstance(c, ast.Call) and inner_v and _dotted(c.func) == inner_v + ".append"]
        ok = bool(apps)
        why = []
        for a in apps:
            v = a.args[0]
            vals = _assigned_values(walk, v.id) if isinstance(v, ast.Name) else [v]
            for val in vals:
                good = (isinstance(val, ast.Call) and isinstance(val.func, ast.Subscript) and _u(val.func.value) == "ignore_file_loaders"
                        and len(val.args) == 2 and _u(val.args[0]) == dirname_v and _u(val.args[1]) == _u(val.func.slice))
                ok = ok and good
                why.append(_u(val))
        loaders_ok = []
        for ln in ("_load_ignorefile", "_load_configfile"):
            f = F.get(ln)
            if f is None:
                loaders_ok.append(None)
                continue
            p0, p1 = f.args.args[0].arg, f.args.args[1].arg
            rets = [r.value for r in ast.walk(f) if isinstance(r, ast.Return) and r.value is not None and not (isinstance(r.value, ast.Constant) and r.value.value is None)]
            loaders_ok.append(bool(rets) and all(isinstance(r, ast.Tuple) and len(r.elts) == 3 and _u(r.elts[0]) == p0 and _u(r.elts[1]) == p1 for r in rets))
        reg = next((s for s in dtree.body if isinstance(s, (ast.Assign, ast.AnnAssign)) and _u(s.targets[0] if isinstance(s, ast.Assign) else s.target) == "ignore_file_loaders"), None)
        regv = {k.value: _u(v) for k, v in zip(reg.value.keys, reg.value.values)} if reg is not None and isinstance(reg.value, ast.Dict) else None
        if not apps or None in loaders_ok or regv is None:
            O.put("inner-spec-dirs-are-walk-names", None, "`inner_ignore_specs.append(ignore_file_loaders[name](dirname, name))`, the two loaders and their registry")
        elif ok and all(loaders_ok) and set(regv.values()) <= {"_load_ignorefile", "_load_configfile"}:
            O.put("inner-spec-dirs-are-walk-names", True, {"appended": why, "loaders return (dirpath, filename, spec)": True, "registry": regv}, apps[0].lineno)
        else:
            O.put("inner-spec-dirs-are-walk-names", False, {"appended": why, "loaders return their directory first": loaders_ok, "registry": regv,
                                                           "why": "the directory recorded with a spec must be the directory its file was found in"},
                  apps[0].lineno, DISC + "_iter_files_in_path")

        # ------------------------------------------------------------------------------------------ (c) file loop
        yields = [n for n in ast.walk(it) if isinstance(n, (ast.Yield, ast.YieldFrom))]
        if fileloop is None or len(yields) != 1 or not any(y is yields[0] for s in fileloop.body for y in ast.walk(s)):
            O.put("file-loop-checks-extension-outer-inner", None, "`for filename in filenames:` holding the function's only yield")
        else:
            fv = fileloop.target.id
            seen = {"ext": False, "outer": False, "inner": False}
            absnames = set()
            for s in fileloop.body:
                if any(y is yields[0] for y in ast.walk(s)):
                    break
                if isinstance(s, ast.If) and _only_continue(s.body) and not s.orelse:
                    t = s.test
                    if isinstance(t, ast.UnaryOp) and isinstance(t.op, ast.Not) and _is_call(t.operand, "_match_file_extension") \
                            and _u(t.operand.args[0]) in (fv,) + tuple(absnames) and _u(t.operand.args[1]) == params[3]:
                        seen["ext"] = True
                    for c in _positive_calls(t, "_check_ignore_specs"):
                        if len(c.args) == 2 and isinstance(c.args[0], ast.Name):
                            absnames.add(c.args[0].id)
                            if _u(c.args[1]) == params[2]:
                                seen["outer"] = True
                            if _u(c.args[1]) == inner_v:
                                seen["inner"] = True
            if all(seen.values()):
                O.put("file-loop-checks-extension-outer-inner", True, f"before `{_u(yields[0])}`: continue unless _match_file_extension({fv}, {params[3]}); "
                      f"continue if _check_ignore_specs(., {params[2]}); continue if _check_ignore_specs(., {inner_v})", fileloop.lineno)
            else:
                O.put("file-loop-checks-extension-outer-inner", False, {"guards found before the yield": seen, "why": "every candidate file must pass the "
                      "extension filter, the outer specs (ancestor directories) and the inner specs (directories between the path and the file)"},
                      fileloop.lineno, DISC + "_iter_files_in_path")

    # ---------------------------------------------------------------------------------------------- (b) absolute paths into specs
    sites = []
    for fname in ("_iter_files_in_path", "_process_exact_path"):
        f = F.get(fname)
        if f is None:
            continue
        for c in ast.walk(f):
            if _is_call(c, "_check_ignore_specs") and c.args:
                a = c.args[0]
                vals = _assigned_values(f, a.id) if isinstance(a, ast.Name) else [a]
                sites.append((fname, c.lineno, _u(a), bool(vals) and all(_abs_arg(v) is not None for v in vals), [_u(v) for v in vals]))
    other_match = [n.lineno for fn_ in F.values() if fn_.name != "_check_ignore_specs" for n in ast.walk(fn_)
                   if isinstance(n, ast.Call) and isinstance(n.func, ast.Attribute) and n.func.attr == "match_file"]
    if not sites:
        O.put("spec-paths-absolute", None, "calls of _check_ignore_specs in _iter_files_in_path / _process_exact_path")
    elif all(s[3] for s in sites) and not other_match:
        O.put("spec-paths-absolute", True, {"call sites": len(sites), "first arguments": sorted({f"{s[0]}: {s[2]} = {s[4][0]}" for s in sites}),
                                            "match_file called only inside _check_ignore_specs": True}, sites[0][1])
    else:
        bad = [s for s in sites if not s[3]]
        O.put("spec-paths-absolute", False, {"not made absolute with os.path.abspath": [f"{s[0]}:{s[1]} {s[2]} = {s[4]}" for s in bad],
                                             "match_file outside _check_ignore_specs at lines": other_match},
              (bad[0][1] if bad else other_match[0]), DISC + "_iter_files_in_path")
    cs = F.get("_check_ignore_specs")
    mf = [n for n in ast.walk(cs) if isinstance(n, ast.Call) and isinstance(n.func, ast.Attribute) and n.func.attr == "match_file"] if cs is not None else []
    loop = next((n for n in ast.walk(cs) if isinstance(n, ast.For)), None) if cs is not None else None
    if cs is None or len(mf) != 1 or loop is None or not isinstance(loop.target, ast.Tuple) or len(mf[0].args) != 1:
        O.put("match-relative-to-spec-directory", None, "`for dirname, filename, spec in ignore_specs: spec.match_file(...)` in _check_ignore_specs")
    else:
        p0, p1 = cs.args.args[0].arg, cs.args.args[1].arg
        dn = _u(loop.target.elts[0])
        a = mf[0].args[0]
        if _is_call(a, "os.path.relpath") and [_u(x) for x in a.args] == [p0, dn] and _u(loop.iter) == p1 and _u(mf[0].func.value) == _u(loop.target.elts[2]):
            O.put("match-relative-to-spec-directory", True, f"for {_u(loop.target)} in {p1}: {_u(mf[0])}   (patterns see the path relative to the directory "
                  "holding the ignore file; relpath makes both operands absolute)", mf[0].lineno)
        else:
            O.put("match-relative-to-spec-directory", False, {"found": _u(mf[0]), "why": "gitignore-style patterns are relative to the directory containing "
                  "the ignore file: the path matched must be relpath(<absolute file path>, <that directory>)"}, mf[0].lineno, DISC + "_check_ignore_specs")

    # ---------------------------------------------------------------------------------------------- (c) outer specs
    pf = F.get("paths_from_path")
    icf = F.get("_iter_config_files")
    if pf is None or icf is None:
        O.put("outer-specs-from-ancestors", None, "paths_from_path / _iter_config_files")
        O.put("exact-file-filtered", None, "paths_from_path")
    else:
        pparams = [a.arg for a in pf.args.args]
        oloop = next((n for n in ast.walk(pf) if isinstance(n, ast.For) and _is_call(n.iter, "_iter_config_files")), None)
        iloop = next((n for n in ast.walk(icf) if isinstance(n, ast.For) and _is_call(n.iter, "iter_intermediate_paths")), None)
        floop = next((n for n in ast.walk(iloop) if isinstance(n, ast.For) and _u(n.iter) == "ignore_file_loaders"), None) if iloop is not None else None
        ok = None
        if oloop is not None and iloop is not None and floop is not None:
            apps = [c for c in ast.walk(oloop) if isinstance(c, ast.Call) and isinstance(c.func, ast.Attribute) and c.func.attr == "append"]
            tgt = [_u(e) for e in oloop.target.elts] if isinstance(oloop.target, ast.Tuple) else []
            loads = [c for c in ast.walk(oloop) if isinstance(c, ast.Call) and isinstance(c.func, ast.Subscript) and _u(c.func.value) == "ignore_file_loaders"]
            outer_v = _dotted(apps[0].func.value) if apps else None
            a0 = oloop.iter.args[0] if oloop.iter.args else None
            target_ok = a0 is not None and pparams[0] in {n.id for n in ast.walk(a0) if isinstance(n, ast.Name)}
            ys = [y for y in ast.walk(floop) if isinstance(y, ast.Yield)]
            y_ok = len(ys) == 1 and isinstance(ys[0].value, ast.Tuple) and _u(iloop.target) in _u(ys[0].value.elts[0]) and _u(ys[0].value.elts[1]) == _u(floop.target)
            it_call = next((c for c in ast.walk(pf) if _is_call(c, "_iter_files_in_path")), None)
            handed = it_call is not None and len(it_call.args) >= 3 and _u(it_call.args[2]) == outer_v and _u(it_call.args[0]) == pparams[0]
            ok = bool(apps) and len(loads) == 1 and [_u(a) for a in loads[0].args] == tgt and _u(loads[0].func.slice) == tgt[1] and target_ok and y_ok and handed
            det = {"loop": f"for {_u(oloop.target)} in {_u(oloop.iter)}", "load": _u(loads[0]) if loads else None,
                   "_iter_config_files": f"for {_u(iloop.target)} in {_u(iloop.iter)}: for {_u(floop.target)} in ignore_file_loaders: yield {_u(ys[0].value) if ys else None}",
                   "handed to the walk": _u(it_call) if it_call is not None else None}
        if ok is None:
            O.put("outer-specs-from-ancestors", None, "`for ignore_path, ignore_file in _iter_config_files(...)` / `for search_path in iter_intermediate_paths(...)`")
        elif ok:
            O.put("outer-specs-from-ancestors", True, det, oloop.lineno)
        else:
            O.put("outer-specs-from-ancestors", False, dict(det, why="every ignore file found by iter_intermediate_paths must be loaded with its own "
                  "directory and handed to the walk as an outer spec"), oloop.lineno)

        # ------------------------------------------------------------------------------------------ (d) exact file path
        pe = F.get("_process_exact_path")
        iip = H.get("iter_intermediate_paths")
        ret = next((r for r in ast.walk(pf) if isinstance(r, ast.Return) and _is_call(r.value, "_process_exact_path")), None)
        if pe is None or ret is None or iip is None or oloop is None:
            O.put("exact-file-filtered", None, "`return _process_exact_path(path, working_path, lower_file_exts, outer_ignore_specs)` after the outer specs are loaded")
        else:
            eparams = [a.arg for a in pe.args.args]
            after = ret.lineno > oloop.lineno
            args_ok = len(ret.value.args) == 4 and _u(ret.value.args[0]) == pparams[0] and _u(ret.value.args[3]) == outer_v
            body = pe.body[1:] if isinstance(pe.body[0], ast.Expr) and isinstance(pe.body[0].value, ast.Constant) else pe.body
            g0 = body[0] if body else None
            ext_ok = (isinstance(g0, ast.If) and isinstance(g0.test, ast.UnaryOp) and isinstance(g0.test.op, ast.Not) and _is_call(g0.test.operand, "_match_file_extension")
                      and _u(g0.test.operand.args[0]) == eparams[0] and isinstance(g0.body[0], ast.Return) and _u(g0.body[0].value) == "[]")
            chk = [s for s in body if isinstance(s, ast.Assign) and _is_call(s.value, "_check_ignore_specs")]
            ign_ok = False
            if len(chk) == 1:
                flag = chk[0].targets[0].id
                a0 = chk[0].value.args[0]
                vals = _assigned_values(pe, a0.id) if isinstance(a0, ast.Name) else [a0]
                abs_ok = bool(vals) and all(_abs_arg(v) is not None and _u(_abs_arg(v)) == eparams[0] for v in vals) and _u(chk[0].value.args[1]) == eparams[3]
                nonempty = [r for r in ast.walk(pe) if isinstance(r, ast.Return) and r.value is not None and _u(r.value) != "[]"]
                guarded = [i for i in body if isinstance(i, ast.If) and isinstance(i.test, ast.UnaryOp) and isinstance(i.test.op, ast.Not)
                           and _u(i.test.operand) == flag and any(r in nonempty for r in ast.walk(i))]
                ign_ok = abs_ok and len(nonempty) == 1 and len(guarded) == 1 and body.index(guarded[0]) > body.index(chk[0])
            # the file's own directory is among the directories searched: iter_intermediate_paths replaces a non-directory by its parent and always yields it last
            par = any(isinstance(i, ast.If) and "is_dir" in _u(i.test) and any(isinstance(s, ast.Assign) and _u(s.value) == "inner_path.parent" for s in i.body) for i in iip.body)
            last = iip.body[-1]
            last_ok = isinstance(last, ast.Expr) and isinstance(last.value, ast.Yield) and "inner_path" in _u(last.value.value)
            det = {"dispatch": _u(ret), "after outer specs are loaded": after, "extension filter first": ext_ok, "ignored => []": ign_ok,
                   "own directory searched (iter_intermediate_paths: file -> parent, always yielded last)": par and last_ok,
                   "property": "an exact file is subject to the same filter as a discovered one: configured extension, and every ignore file in its own "
                               "directory or above; there is no directory between the path and the file, so `inner' specs cannot exist",
                   "code": "only the outer specs are consulted; they are loaded from commonpath(working directory, dirname(file)) down to dirname(file) "
                           "inclusive (same range as for a directory argument: see the bounded clause C25/ancestor-above-working-directory for what "
                           "lies above that range)"}
            if after and args_ok and ext_ok and ign_ok and par and last_ok:
                O.put("exact-file-filtered", True, det, ret.lineno)
            elif not (args_ok and isinstance(g0, ast.If) and len(chk) == 1):
                O.put("exact-file-filtered", None, "the shape of _process_exact_path (extension guard, `ignore_file = _check_ignore_specs(abs, outer)`, guarded return)")
            else:
                O.put("exact-file-filtered", False, dict(det, why="an exact file path must be dropped when its extension is not configured or an "
                      "ignore file in its directory or above matches it"), ret.lineno, DISC + "_process_exact_path")

    want = ("relevance-test-absolute-both-sides", "relevance-test-shape", "match-relative-to-spec-directory", "prune-in-place")
    samples = [s for w in want for s in O.samples if s["obligation"].endswith(w)] + [s for s in O.samples if not any(s["obligation"].endswith(w) for w in want)]
    return {"name": "C25-static", "obligations": O.n, "discharged": O.ok_n, "failed": O.failed, "undecided": O.undecided, "samples": samples,
            "backend": BACKEND_STATIC,
            "trusted": [f"python ast of {dfile} (sha256 {dsha[:16]}) and {hfile} (sha256 {hsha[:16]}), re-read on every run ({time.time() - t0:.2f}s); "
                        "the C25/static/* obligations are pattern checks: they say the code has the shape the lemmas and the bounded contract talk about, "
                        "they do not prove what that shape computes"]}


# =====================================================================================================================
# (3) bounded stand-in: the selection formula against the real paths_from_path
# =====================================================================================================================
DIR_NAMES = ("a", "sub", "dir1", "dir2", "b", "a2", "sub_old")   # a|a2 and sub|sub_old: one sibling name is a prefix of the other
FILE_NAMES = ("a.sql", "b.sql", "c.sql", "keep.sql", "c.txt", "d.SQL", "e.sql.j2")
PATTERNS = ("c.sql", "*.sql", "sub/", "/a.sql", "**/b.sql", "!keep.sql", "dir*/", "# a comment", "", "a.sql", "sub/b.sql", "/sub/a.sql",
            "dir1/", "b.*", "/dir2", "sub/*", "*/c.sql", "!b.sql", "d.SQL", "*.SQL", "/b", "a/", "keep.sql", "e.sql.j2", "*.j2", "!*.j2",
            "/a/b.sql", "**/sub/", "b/**", "!a.sql")
CONFIG_PATTERNS = tuple(p for p in PATTERNS if p and not p.startswith("#"))
EXT_SETS = ((".sql",), (".sql",), (".sql", ".sql.j2"), (".SQL",), (".sql", ".txt"), (".sql", ".sql.j2", ".dml", ".ddl"))
IGNORE_KINDS = (".sqlfluffignore", ".sqlfluffignore", ".sqlfluffignore", ".sqlfluff", "pyproject.toml", "pyproject.toml:str")
# config files the general config loader reads but discovery's `ignore_file_loaders` does not: probed, reported, not required
UNREGISTERED_CONFIG_FILES = ("setup.cfg", "tox.ini", "pep8.ini")


def _spec_factory():
    import pathspec
    with warnings.catch_warnings():
        warnings.simplefilter("ignore")
        try:
            pathspec.PathSpec.from_lines("gitignore", ["x"])
            return "gitignore"
        except Exception:
            return "gitwildmatch"


def _parents(rel):
    """strict ancestors of a relative posix path inside the tree, outermost first: 'a/b/c' -> ['', 'a', 'a/b']"""
    if rel == "":
        return []
    parts = rel.split("/")
    return [""] + ["/".join(parts[:i]) for i in range(1, len(parts))]


def _dirname(rel):
    return rel.rsplit("/", 1)[0] if "/" in rel else ""


def _relto(rel, d):
    """rel (a path below directory d, both relative to the tree top) relative to d -- string arithmetic only"""
    return rel if d == "" else rel[len(d) + 1:]


def _under(rel, d):
    return d == "" or rel == d or rel.startswith(d + "/")


class Oracle:
    """The property's selection formula.  Everything is a posix string relative to the tree top; no os.path, no cwd.
    Ignore files live in directories of the tree; directories above the tree top hold none (checked when the tree is
    built), so "an ancestor directory" is: every directory from the tree top down to the path."""

    def __init__(self, tree, factory):
        import pathspec
        self.tree = tree
        self.specs = {}
        with warnings.catch_warnings():
            warnings.simplefilter("ignore")
            for (d, kind), lines in tree["ignores"].items():
                self.specs.setdefault(d, []).append(pathspec.PathSpec.from_lines(factory, list(lines)))

    def matched(self, rel, dirs):
        """some ignore file in one of `dirs` (all ancestors-or-self of rel's directory) matches rel, seen from that directory"""
        return any(sp.match_file(_relto(rel, d)) for d in dirs for sp in self.specs.get(d, ()))

    @staticmethod
    def has_ext(rel, exts):
        return any(rel.lower().endswith(e.lower()) for e in exts)

    def file_ignored(self, f):
        d = _dirname(f)
        return self.matched(f, _parents(d) + [d])

    def dir_ignored(self, x):
        """directory x is ignored by an ignore file in one of its strict ancestors (matched as `x/*`, the way git treats a directory)"""
        return self.matched(x + "/*", _parents(x))

    def select_dir(self, target, exts, ignore_files=True):
        out = []
        for f in sorted(self.tree["files"]):
            if not (_under(f, target) and f != target) or not self.has_ext(f, exts):
                continue
            if ignore_files:
                if self.file_ignored(f):
                    continue
                d = _dirname(f)
                between = [x for x in _parents(d) + [d] if x != target and _under(x, target)]     # strictly below the path, down to the file's directory
                if any(self.dir_ignored(x) for x in between):
                    continue
            out.append(f)
        return out

    def select_file(self, f, exts, ignore_files=True):
        if not self.has_ext(f, exts):
            return []
        if ignore_files and self.file_ignored(f):
            return []
        return [f]


# ------------------------------------------------------------------------------------------------- tree generation
def _set_ignore(tree, d, kind, lines):
    """one file per (directory, file name): the two pyproject.toml syntaxes are the same file"""
    for k in [k for k in tree["ignores"] if k[0] == d and k[1].split(":")[0] == kind.split(":")[0]]:
        del tree["ignores"][k]
    tree["ignores"][(d, kind)] = tuple(lines)


def gen_tree(rng):
    dirs = [""]

    def grow(d, depth):
        if depth >= 4:
            return
        n = rng.choice((0, 1, 1, 2, 2, 3)) if depth < 2 else rng.choice((0, 0, 1, 1, 2))
        for name in rng.sample(DIR_NAMES, n):
            c = name if d == "" else d + "/" + name
            dirs.append(c)
            if len(dirs) < 14:
                grow(c, depth + 1)
    grow("", 0)
    files = set()
    for d in dirs:
        for name in FILE_NAMES:
            if rng.random() < 0.55:
                files.add(name if d == "" else d + "/" + name)
    ignores = {}
    for d in dirs:
        if rng.random() < 0.4:
            kinds = rng.sample(IGNORE_KINDS, 1 if rng.random() < 0.85 else 2)
            for k in {k.split(":")[0]: k for k in kinds}.values():
                pool = PATTERNS if k == ".sqlfluffignore" else CONFIG_PATTERNS
                ignores[(d, k)] = tuple(rng.choice(pool) for _ in range(rng.choice((1, 1, 2, 2, 3, 4))))
    tree = {"dirs": sorted(dirs), "files": sorted(files), "ignores": ignores}
    motif = rng.random()
    deep = [d for d in dirs if d.count("/") >= 1]
    if motif < 0.25 and deep:
        # an ignore file one level up from a directory that holds the file it names (the shape of the repaired defect)
        d = rng.choice(deep)
        f = rng.choice(("c.sql", "b.sql", "a.sql"))
        tree["files"] = sorted(set(tree["files"]) | {d + "/" + f})
        _set_ignore(tree, _dirname(d), ".sqlfluffignore", (rng.choice((f, "*.sql", "**/" + f, d.rsplit("/", 1)[-1] + "/" + f)),))
    elif motif < 0.4 and len(dirs) > 1:
        # a directory pattern with a negated file inside it (pruning is observable only here)
        d = rng.choice(dirs[1:])
        tree["files"] = sorted(set(tree["files"]) | {d + "/keep.sql", d + "/a.sql"})
        _set_ignore(tree, _dirname(d), rng.choice((".sqlfluffignore", ".sqlfluff")), (d.rsplit("/", 1)[-1] + "/", "!keep.sql"))
    elif motif < 0.5 and deep:
        # anchored pattern: applies in the directory of the ignore file only
        d = rng.choice(deep)
        p = _dirname(d)
        tree["files"] = sorted(set(tree["files"]) | {d + "/a.sql", (p + "/" if p else "") + "a.sql"})
        _set_ignore(tree, p, rng.choice((".sqlfluffignore", "pyproject.toml")), ("/a.sql",))
    return tree


def tree_signature(tree):
    return hashlib.sha256(repr((tree["dirs"], tree["files"], sorted(tree["ignores"].items()))).encode()).hexdigest()[:16]


def write_ignore(path, kind, lines):
    if kind == ".sqlfluffignore":
        text = "\n".join(lines) + "\n"
    elif kind in (".sqlfluff",) + UNREGISTERED_CONFIG_FILES:
        text = "[sqlfluff]\nignore_paths = " + ",".join(lines) + "\n"
    elif kind == "pyproject.toml":
        text = "[tool.sqlfluff.core]\nignore_paths = [" + ", ".join('"' + l.replace("\\", "\\\\") + '"' for l in lines) + "]\n"
    elif kind == "pyproject.toml:str":
        text = '[tool.sqlfluff.core]\nignore_paths = "' + ",".join(lines) + '"\n'
    else:
        raise ValueError(kind)
    with open(os.path.join(path, kind.split(":")[0]), "w") as fh:
        fh.write(text)


class Sandbox:
    """<base>/w/proj is the tree top, <base>/w/sib an empty sibling, <base>/elsewhere an unrelated directory."""

    def __init__(self):
        self.base = os.path.realpath(tempfile.mkdtemp(prefix="c25_"))
        self.n = 0
        self.ignore_names = None
        d = self.base
        self.clean_above = True
        from sqlfluff.core.linter import discovery
        names = tuple(discovery.ignore_file_loaders) + UNREGISTERED_CONFIG_FILES
        while True:
            if any(os.path.exists(os.path.join(d, n)) for n in names):
                self.clean_above = False
            if os.path.dirname(d) == d:
                break
            d = os.path.dirname(d)

    def build(self, tree):
        self.n += 1
        root = os.path.join(self.base, f"t{self.n}")
        W = os.path.join(root, "w")
        top = os.path.join(W, "proj")
        os.makedirs(os.path.join(W, "sib"))
        os.makedirs(os.path.join(root, "elsewhere"))
        for d in tree["dirs"]:
            os.makedirs(os.path.join(top, d), exist_ok=True)
        for f in tree["files"]:
            with open(os.path.join(top, f), "w") as fh:
                fh.write("select 1\n")
        for (d, kind), lines in tree["ignores"].items():
            write_ignore(os.path.join(top, d), kind, lines)
        return root, W, top

    def drop(self, root):
        shutil.rmtree(root, ignore_errors=True)

    def close(self):
        shutil.rmtree(self.base, ignore_errors=True)


def call_real(cwd, path, exts, ignore_files=True):
    """paths_from_path as a fresh process started in `cwd` would call it (the default `working_path` is the cwd at import)"""
    from sqlfluff.core.linter import discovery
    from sqlfluff.core.config.file import load_config_file_as_dict
    load_config_file_as_dict.cache_clear()
    old = os.getcwd()
    os.chdir(cwd)
    try:
        got = discovery.paths_from_path(path, ignore_files=ignore_files, working_path=os.getcwd(), target_file_exts=exts)
        return sorted(os.path.abspath(p) for p in got), len(got)
    except Exception as e:     # noqa: BLE001 -- an exception is an observation (and a failure of the clause)
        return ["<raised> " + type(e).__name__ + ": " + str(e)[:200]], 0
    finally:
        os.chdir(old)


def dir_spellings(tree, target, root, W, top):
    """(label, class, cwd, path) for one directory target.  class: plain | parent-segment | above-cwd | symlink"""
    j = os.path.join
    rel = "proj" if target == "" else "proj/" + target
    has_above = any(d in _parents(target) for d, _ in tree["ignores"])     # ignore files strictly above the target (inside the tree)
    S = [("absolute", "plain", W, j(top, target) if target else top),
         ("relative", "plain", W, rel),
         ("./relative", "plain", W, "./" + rel),
         ("relative/", "plain", W, rel + "/"),
         ("relative/.", "plain", W, rel + "/."),
         ("from a sibling cwd: ../relative", "plain", j(W, "sib"), "../" + rel),
         ("absolute from an unrelated cwd", "plain", j(root, "elsewhere"), j(top, target) if target else top),
         ("from the tree top", "plain", top, target if target else "."),
         ("'.' after chdir into it", "above-cwd" if has_above else "plain", j(top, target), "."),
         ("absolute after chdir into it", "above-cwd" if has_above else "plain", j(top, target), j(top, target) if target else top)]
    if target:
        par = _dirname(target)
        mid_above = any(d in _parents(par) for d, _ in tree["ignores"]) if par else False
        S.append(("relative from its parent directory", "above-cwd" if mid_above else "plain", j(top, par), target.rsplit("/", 1)[-1]))
    # spellings with a `..` segment: through a sibling, through a child, through the empty sibling of the tree top
    sibs = [d for d in tree["dirs"] if d and d != target and _dirname(d) == _dirname(target)] if target else []
    kids = [d for d in tree["dirs"] if d and _dirname(d) == target and d != target]
    last = target.rsplit("/", 1)[-1] if target else "proj"
    if sibs:
        S.append(("through a sibling: sibling/../relative", "parent-segment", W, "proj/" + sibs[0] + "/../" + last))
    if kids:
        S.append(("through a child: relative/child/..", "parent-segment", W, rel + "/" + kids[0].rsplit("/", 1)[-1] + "/.."))
    if sibs and not any(d in _parents(_dirname(target)) for d, _ in tree["ignores"]):
        # started inside a sibling directory (only when nothing above the common parent could be missed for the other reason)
        S.append(("from inside a sibling directory: ../name", "parent-segment", j(top, sibs[0]), "../" + last))
    S.append(("through an empty directory: sib/../relative", "parent-segment", W, "sib/../" + rel))
    return S


def file_spellings(tree, f, root, W, top):
    j = os.path.join
    d = _dirname(f)
    has_above = any(x in _parents(d) for x, _ in tree["ignores"]) if d else False
    S = [("absolute", "plain", W, j(top, f)),
         ("relative", "plain", W, "proj/" + f),
         ("./relative", "plain", W, "./proj/" + f),
         ("from a sibling cwd", "plain", j(W, "sib"), "../proj/" + f),
         ("bare name from its directory", "above-cwd" if has_above else "plain", j(top, d), f.rsplit("/", 1)[-1])]
    kids = [x for x in tree["dirs"] if x and _dirname(x) == d]
    if kids:
        S.append(("through a child directory: dir/child/../name", "parent-segment", W, "proj/" + kids[0] + "/../" + f.rsplit("/", 1)[-1]))
    return S


CLAUSES = {
    "C25/spelling-independence": "the same directory given as absolute, relative, ./relative, relative/, relative/., from another working directory or as "
                                 "'.' selects the same files",
    "C25/selection-formula": "selected = files under the path with a configured extension, not matched by an ignore file (.sqlfluffignore / ignore_paths) in "
                             "their directory or any ancestor of it, with no ignored directory between the path and the file",
    "C25/spelling-independence/parent-segment": "a relative spelling containing `..` (sibling/../dir, dir/child/..) selects what the plain spelling selects",
    "C25/ancestor-above-working-directory": "an ignore file in an ancestor directory of the path applies wherever the process was started "
                                            "('.' after chdir into the path, or an absolute path given from inside it)",
    "C25/exact-file-path": "a file given directly is selected iff its extension is configured and no ignore file in its directory or above matches it, "
                           "whatever its spelling",
    "C25/ignore-files-disabled": "with ignore_files=False only the extension filter applies",
}
CLASS_CLAUSE = {"parent-segment": "C25/spelling-independence/parent-segment", "above-cwd": "C25/ancestor-above-working-directory"}


def check_tree(sb, O, tree, target, exts, files, want=None):
    """Run every clause on one materialised tree.  Returns (failures {clause id: detail}, evaluations, observations)."""
    root, W, top = sb.build(tree)
    fails, evals, seen = {}, 0, []
    try:
        def rels(xs):
            return [x[len(top) + 1:] if x.startswith(top + os.sep) else x for x in xs]

        def detail(kind, tgt, expected, rows, **kw):
            return dict({"tree": {"directories": tree["dirs"], "files": tree["files"],
                                  "ignore files": {(d + "/" if d else "") + k: list(v) for (d, k), v in sorted(tree["ignores"].items())}},
                         "layout": "<base>/w/proj is the tree top; <base>/w/sib is empty; paths below are relative to the tree top, working directories to <base>",
                         "target": kind + ": " + (tgt or "<tree top>"), "target_file_exts": list(exts), "expected": expected,
                         "observed": [{"spelling": lab, "class": cls, "cwd": os.path.relpath(cwd, root), "path": p if not os.path.isabs(p) else "<base>/" + os.path.relpath(p, root),
                                       "selected": rels(got), "as expected": rels(got) == expected} for lab, cls, cwd, p, got in rows]}, **kw)
        # ---- directory target
        exp = O.select_dir(target, exts)
        rows = []
        for lab, cls, cwd, p in dir_spellings(tree, target, root, W, top):
            got, _ = call_real(cwd, p, exts)
            evals += 1
            rows.append((lab, cls, cwd, p, got))
        absexp = [os.path.join(top, f) for f in exp]
        plain = [r for r in rows if r[1] == "plain"]
        if len({tuple(r[4]) for r in plain}) > 1:
            fails["C25/spelling-independence"] = detail("directory", target, exp, plain)
        elif plain and plain[0][4] != absexp:
            fails["C25/selection-formula"] = detail("directory", target, exp, plain[:2])
        else:
            for cls, cid in CLASS_CLAUSE.items():
                bad = [r for r in rows if r[1] == cls and r[4] != absexp]
                if bad:
                    fails[cid] = detail("directory", target, exp, plain[:2] + bad)
        seen.append({"target": target or "<tree top>", "exts": list(exts), "expected": exp, "spellings": [(r[0], r[1], os.path.relpath(r[2], root), r[3].replace(root, "<base>")) for r in rows],
                     "all agree": all(r[4] == absexp for r in rows)})
        # ---- ignore_files=False
        exp0 = O.select_dir(target, exts, ignore_files=False)
        rows0 = []
        for lab, cls, cwd, p in dir_spellings(tree, target, root, W, top)[:2]:
            got, _ = call_real(cwd, p, exts, ignore_files=False)
            evals += 1
            rows0.append((lab, cls, cwd, p, got))
        if any(r[4] != [os.path.join(top, f) for f in exp0] for r in rows0):
            fails["C25/ignore-files-disabled"] = detail("directory (ignore_files=False)", target, exp0, rows0)
        # ---- exact files
        for f in files:
            expf = O.select_file(f, exts)
            rowsf = []
            for lab, cls, cwd, p in file_spellings(tree, f, root, W, top):
                got, _ = call_real(cwd, p, exts)
                evals += 1
                rowsf.append((lab, cls, cwd, p, got))
            absf = [os.path.join(top, x) for x in expf]
            plainf = [r for r in rowsf if r[1] == "plain"]
            if any(r[4] != absf for r in plainf):
                fails.setdefault("C25/exact-file-path", detail("file", f, expf, plainf, ignored_by_property=O.file_ignored(f)))
            else:
                for cls, cid in CLASS_CLAUSE.items():
                    bad = [r for r in rowsf if r[1] == cls and r[4] != absf]
                    if bad:
                        fails.setdefault(cid, detail("file", f, expf, plainf[:2] + bad))
    finally:
        sb.drop(root)
    if want is not None:
        fails = {k: v for k, v in fails.items() if k == want}
    return fails, evals, seen


def _valid(tree, target, files):
    ds = set(tree["dirs"])
    return target in ds and all(f in tree["files"] for f in files) and all(_dirname(f) in ds for f in tree["files"]) and all(
        d in ds for d, _ in tree["ignores"]) and all(_dirname(d) in ds for d in ds if d)


def shrink(sb, factory, tree, target, exts, files, cid, budget=220):
    """delete files, directories (with what is below them), ignore files and pattern lines while clause `cid` still fails"""
    cur = {"dirs": list(tree["dirs"]), "files": list(tree["files"]), "ignores": dict(tree["ignores"])}
    fl = list(files)
    used = 0

    def still(t, fls):
        nonlocal used
        used += 1
        if not _valid(t, target, fls):
            return None
        try:
            f, _, _ = check_tree(sb, Oracle(t, factory), t, target, exts, fls, want=cid)
        except Exception:
            return None
        return f.get(cid)
    best = still(cur, fl)
    if best is None:
        return tree, files, None
    changed = True
    while changed and used < budget:
        changed = False
        cands = []
        for d in sorted(cur["dirs"], key=lambda x: -len(x)):
            if d and not _under(target, d):
                cands.append(("dir", d))
        for f in fl:
            cands.append(("probe", f))
        for f in cur["files"]:
            cands.append(("file", f))
        for k in sorted(cur["ignores"]):
            cands.append(("ign", k))
            for i in range(len(cur["ignores"][k])):
                if len(cur["ignores"][k]) > 1:
                    cands.append(("line", (k, i)))
        for kind, x in cands:
            if used >= budget:
                break
            t = {"dirs": list(cur["dirs"]), "files": list(cur["files"]), "ignores": dict(cur["ignores"])}
            f2 = list(fl)
            if kind == "dir":
                if x not in t["dirs"]:
                    continue
                t["dirs"] = [d for d in t["dirs"] if not _under(d, x)]
                t["files"] = [f for f in t["files"] if not _under(f, x)]
                t["ignores"] = {k: v for k, v in t["ignores"].items() if not (k[0] and _under(k[0], x))}
                f2 = [f for f in f2 if not _under(f, x)]
            elif kind == "probe":
                if x not in f2:
                    continue
                f2 = [f for f in f2 if f != x]
            elif kind == "file":
                if x not in t["files"] or x in f2:
                    continue
                t["files"] = [f for f in t["files"] if f != x]
            elif kind == "ign":
                if x not in t["ignores"]:
                    continue
                del t["ignores"][x]
            else:
                k, i = x
                if k not in t["ignores"] or i >= len(t["ignores"][k]) or len(t["ignores"][k]) < 2:
                    continue
                t["ignores"][k] = tuple(l for n, l in enumerate(t["ignores"][k]) if n != i)
            r = still(t, f2)
            if r is not None:
                cur, fl, best, changed = t, f2, r, True
    best["shrunk"] = {"evaluations": used, "from": {"directories": len(tree["dirs"]), "files": len(tree["files"]), "ignore files": len(tree["ignores"])},
                      "to": {"directories": len(cur["dirs"]), "files": len(cur["files"]), "ignore files": len(cur["ignores"])}}
    return cur, fl, best


def probe_unregistered(sb, factory, exts=(".sql",)):
    """ignore_paths in setup.cfg / tox.ini / pep8.ini: read by the config loader, not by discovery.  Observation only."""
    out = {}
    for name in UNREGISTERED_CONFIG_FILES:
        tree = {"dirs": ["", "a"], "files": ["a/c.sql", "a/k.sql"], "ignores": {("", name): ("c.sql",)}}
        root, W, top = sb.build(tree)
        try:
            got, _ = call_real(W, "proj", exts)
            out[name] = {"ignore_paths = c.sql honoured": [x[len(top) + 1:] for x in got] == ["a/k.sql"]}
        finally:
            sb.drop(root)
    return out


def probe_symlink(sb, O, tree, target, exts):
    """a symbolic link placed next to the target and pointing at it: same ancestors, other name.  Observation only."""
    root, W, top = sb.build(tree)
    try:
        link = os.path.join(top, _dirname(target), "lnk_c25")
        os.symlink(os.path.join(top, target), link)
        got, _ = call_real(W, os.path.relpath(link, W), exts)
        exp = [os.path.join(link, _relto(f, target)) for f in O.select_dir(target, exts)]
        return got == sorted(exp)
    except OSError:
        return None
    finally:
        sb.drop(root)


def selection_contract(tier, seed):
    from sqlfluff.core.linter import discovery
    t0 = time.time()
    n_trees = 2000 if tier == "thorough" else 400
    factory = _spec_factory()
    sb = Sandbox()
    lg = logging.getLogger("sqlfluff.linter")
    was_disabled, lg.disabled = lg.disabled, True
    cwd0 = os.getcwd()
    evals = 0
    cases, nontrivial = set(), set()
    stats = {"trees": 0, "ignore file changes the selection": 0, "nested ignore file acts below its directory (repaired defect's trigger)": 0,
             "ignore file above the path acts": 0, "a directory between path and file is ignored": 0, "file dropped only because a directory above it is ignored (pruning observable)": 0,
             "ignore_paths from .sqlfluff / pyproject.toml acts": 0, "exact files probed": 0, "exact files ignored": 0, "upper-case extension selected": 0}
    first = {}       # clause id -> (tree, target, exts, files)
    counts = {k: 0 for k in CLAUSES}
    samples = []
    sym = {"agree": 0, "differ": 0}
    try:
        for i in range(n_trees):
            rng = random.Random(f"C25/{seed}/{i}")
            tree = gen_tree(rng)
            O = Oracle(tree, factory)
            dirs = tree["dirs"]
            # target: the top, or a directory that has ignore files above/below it when there is one
            target = "" if rng.random() < 0.4 or len(dirs) == 1 else rng.choice(dirs[1:])
            exts = rng.choice(EXT_SETS)
            under = [f for f in tree["files"] if _under(f, target)]
            files = rng.sample(under, min(len(under), 2 if tier == "quick" else 3))
            fails, n, seen = check_tree(sb, O, tree, target, exts, files)
            evals += n
            stats["trees"] += 1
            # ---- what this tree exercised (measured on the oracle, not on the code)
            with_ign = O.select_dir(target, exts)
            without = O.select_dir(target, exts, ignore_files=False)
            key = (tree_signature(tree), target, exts)
            cases.add(key)
            if with_ign != without:
                nontrivial.add(key)
                stats["ignore file changes the selection"] += 1
                dropped = [f for f in without if f not in with_ign]
                if any(any(sp.match_file(_relto(f, d)) for sp in O.specs.get(d, ())) for f in dropped
                       for d in _parents(_dirname(f)) if d != target and _under(d, target)):
                    stats["nested ignore file acts below its directory (repaired defect's trigger)"] += 1
                if any(O.matched(f, _parents(target)) for f in dropped):
                    stats["ignore file above the path acts"] += 1
                if any(O.dir_ignored(x) for f in dropped for x in _parents(_dirname(f)) + [_dirname(f)] if x != target and _under(x, target)):
                    stats["a directory between path and file is ignored"] += 1
                if any(not O.file_ignored(f) for f in dropped):
                    stats["file dropped only because a directory above it is ignored (pruning observable)"] += 1
                if any(k != ".sqlfluffignore" and any(_under(f, d) for f in dropped) for (d, k) in tree["ignores"]):
                    stats["ignore_paths from .sqlfluff / pyproject.toml acts"] += 1
            if any(f.endswith(".SQL") for f in with_ign):
                stats["upper-case extension selected"] += 1
            stats["exact files probed"] += len(files)
            stats["exact files ignored"] += sum(1 for f in files if O.has_ext(f, exts) and O.file_ignored(f))
            for f in files:
                k2 = (tree_signature(tree), "file:" + f, exts)
                cases.add(k2)
                if O.has_ext(f, exts) and O.file_ignored(f):
                    nontrivial.add(k2)
            if i % 5 == 0 and target:
                r = probe_symlink(sb, O, tree, target, exts)
                if r is not None:
                    sym["agree" if r else "differ"] += 1
                    evals += 1
            for cid in fails:
                counts[cid] += 1
                cur = first.get(cid)
                size = len(tree["dirs"]) + len(tree["files"]) + sum(len(v) for v in tree["ignores"].values())
                if cur is None or size < cur[0]:
                    first[cid] = (size, tree, target, exts, files, fails[cid])
            if len(samples) < 3 and with_ign != without and len(tree["files"]) <= 16:
                samples.append({"tree": {"directories": tree["dirs"], "files": tree["files"],
                                         "ignore files": {(d + "/" if d else "") + k: list(v) for (d, k), v in sorted(tree["ignores"].items())}},
                                "cases": seen, "selected without ignore files": without})
        unregistered = probe_unregistered(sb, factory)
        failed = []
        for cid, (size, tree, target, exts, files, det) in sorted(first.items()):
            t2, f2, best = shrink(sb, factory, tree, target, exts, files, cid, budget=220 if tier == "quick" else 600)
            det = best or det
            det["clause"] = CLAUSES[cid]
            det["trees failing this clause"] = f"{counts[cid]} of {stats['trees']}"
            failed.append({"name": cid, "id": cid, "kind": "bounded", "status": "failed", "function": FN,
                           "backend": "CPython: real paths_from_path against the selection formula", "detail": det, "reproduced": True})
    finally:
        os.chdir(cwd0)
        lg.disabled = was_disabled
        sb.close()
    bound = (f"{stats['trees']} random directory trees (depth <= 4, <= 3 sub-directories per directory, <= 14 directories, {len(FILE_NAMES)} file names, "
             f"{len(PATTERNS)} patterns, ignore files of {len(set(k.split(':')[0] for k in IGNORE_KINDS))} kinds at random levels), one directory target "
             f"and <= {2 if tier == 'quick' else 3} exact files per tree, 10-14 spellings per directory and 5-6 per file, 6 extension sets")
    return {"name": "paths_from_path selection contract (bounded)", "bound": bound, "rule": RULE, "evaluations": evals,
            "distinct_nontrivial": len(nontrivial), "distinct_cases": len(cases), "samples": samples, "failed": failed,
            "clauses": CLAUSES, "trees_failing_per_clause": counts, "exercised": stats, "matching_oracle": f"pathspec.PathSpec.from_lines({factory!r}, ...)",
            "no ignore files above the sandbox": sb.clean_above,
            "observations (not required by the property, not counted as failures)": {
                "ignore_paths in config files the config loader reads but discovery does not": unregistered,
                "symlink next to the target, pointing at it: selects the same files under the link's name (differences are expected where a pattern names the target directory itself)": sym,
                "registered ignore files": list(discovery.ignore_file_loaders)},
            "wall_s": round(time.time() - t0, 2)}


EXTRA = [static_obligations, path_model_must_fail]
BOUNDED = [selection_contract]

# =====================================================================================================================
# evidence texts
# =====================================================================================================================
RULE = ("one evaluation = one call of the real paths_from_path (working_path = the cwd of the call, as in a fresh process) on a directory tree "
        "materialised in a temp directory, compared as a set of absolute paths with the selection formula computed on relative strings by the "
        "sidecar (pathspec as the pattern matcher). Trees, ignore files, target, extension set and probed files are drawn from random.Random("
        "'C25/<seed>/<i>'); 50% of the trees additionally get one of three motifs (ignore file one level above a directory holding the file it "
        "names; directory pattern + negated file inside; anchored pattern). A case is (tree content hash, target directory or exact file, "
        "extension set); it is non-trivial when ignore files change its outcome: the selection with ignore files differs from the selection "
        "without (directory), or the probed file has a configured extension and is ignored (file). distinct_nontrivial counts distinct such "
        "cases; the spellings of one case are not counted separately.")

EXPLANATION = (
    "C25 is decided by the bounded stand-in; the proved and syntactic layers pin down the one statement whose repair made it true. "
    "Proved (pyvc, z3 native strings, abstract path model with an uninterpreted abs_): the relevance test `x == d or abs(x).startswith(abs(d) + '/')` "
    "is the ancestor relation on absolute forms for names of one os.walk; the pre-repair test `x.startswith(abs(d) + '/')` is that relation only "
    "when x is already absolute and is `x == d` for a relative x; must-fail: a counter-model to 'old test == ancestor' is found and re-run with "
    "os.path. Syntactic (ast of the real source, honest label: pattern checks): the relevance test has exactly that shape with abspath on both "
    "sides; every path given to an ignore spec is os.path.abspath(...) and is matched as relpath(path, directory of the ignore file); ignore "
    "records carry the directory their file was found in; one walk step drops stale specs, loads the directory's own ignore files, prunes "
    "sub-directories in place on a slice copy (top-down walk), then filters files by extension, outer specs and inner specs before the only "
    "yield; outer specs come from iter_intermediate_paths; an exact file goes through extension + outer specs, its own directory included. "
    "Bounded: the selection formula (files under the path, configured extension case-insensitively, not matched by an ignore file in an "
    "ancestor-or-self directory seen relative to that directory, no ignored directory strictly between the path and the file; for an exact "
    "file the first three) against the real function for 10-14 spellings of each target. Clause ids: C25/spelling-independence (plain "
    "spellings disagree), C25/selection-formula (they agree but not with the formula), C25/spelling-independence/parent-segment (`..` "
    "spellings), C25/ancestor-above-working-directory (the process was started below an ancestor that holds an ignore file), "
    "C25/exact-file-path, C25/ignore-files-disabled. Each failing clause is reported once with the smallest tree found (greedy deletion of "
    "directories, files, ignore files and pattern lines).")

TRUSTED = [
    "pathspec (the same factory name the code passes, 'gitignore') is the pattern-matching oracle: what a single pattern list matches is not "
    "checked, only which ignore files are applied to which file, relative to which directory, and what pruning does",
    "OS path functions: os.path.abspath/relpath/join/normpath, pathlib.Path.absolute/resolve, os.path.commonpath behave as documented on POSIX",
    "os.walk(top, topdown=True): yields top first, then join(d, s) for every s left in d's `subdirs` list; each directory once; symlinked "
    "directories not followed; so two yielded names are equal iff they denote the same directory (hypothesis walk_names of the lemmas)",
    "the abstract path model of the lemmas: abs_ is uninterpreted (nothing is assumed about normalisation); '/' is the separator",
    "directories above the temp sandbox hold no ignore file (checked on every run: bounded_stand_ins[0]['no ignore files above the sandbox'])",
]
NOT_COVERED = [
    "Linter.lint_paths / LintedDir: de-duplication and ordering across several path arguments, and the `working_path` default of paths_from_path "
    "(evaluated once at import: the stand-in passes working_path=os.getcwd() as a process started in that directory would see it)",
    "the pattern language itself: pathspec 1.1.1 'gitignore' (GitIgnoreBasicPattern) differs from git and from 'gitwildmatch' (e.g. `sub/*` does not "
    "cover sub/deep/x.sql); blanks after commas in an ini `ignore_paths` value become part of the pattern",
    "ignore_paths in setup.cfg / tox.ini / pep8.ini: read by the config loader, absent from discovery.ignore_file_loaders, hence never honoured "
    "(observed on every run, see bounded_stand_ins[0].observations); the documentation names only .sqlfluffignore, .sqlfluff and pyproject.toml",
    "symbolic links: a link to the target placed next to it is probed (observation); links elsewhere change the ancestor chain and are not a "
    "spelling of the same path; iter_intermediate_paths resolves links in the outer directories while file paths are only made absolute",
    "a file re-included by a negated pattern inside an ignored directory is selected when given directly (or when the path starts inside that "
    "directory) and not when discovered from above: this is the formula's 'no ignored directory between the path and the file', as in git",
    "non-existent paths, check_non_existent_file (stdin file names), Windows drives and separators, case-insensitive file systems",
    "unparsable ignore files / config files (SQLFluffUserError) and permission errors during the walk",
]

MUTANTS = [
    ("revert the repair: relevance test compares the walk's spelling with an absolute prefix", "sqlfluff/core/linter/discovery.py",
     "os.path.abspath(dirname).startswith(", "dirname.startswith("),
    ("inner specs not consulted for files", "sqlfluff/core/linter/discovery.py",
     "if _check_ignore_specs(absolute_path, inner_ignore_specs):\n                continue", "if False:\n                continue"),
    ("outer specs not consulted for files", "sqlfluff/core/linter/discovery.py",
     "if _check_ignore_specs(absolute_path, outer_ignore_specs):\n                continue", "if False:\n                continue"),
    ("extension match made case-sensitive", "sqlfluff/core/linter/discovery.py",
     "    filepath = filepath.lower()\n", "    filepath = filepath\n"),
    ("patterns matched against the absolute path instead of the path relative to the ignore file's directory", "sqlfluff/core/linter/discovery.py",
     "spec.match_file(os.path.relpath(absolute_filepath, dirname))", "spec.match_file(absolute_filepath)"),
    ("ignored sub-directories not pruned", "sqlfluff/core/linter/discovery.py",
     "                subdirs.remove(subdir)\n", "                pass\n"),
    ("iter_intermediate_paths stops one level early (the parent of the path is skipped)", "sqlfluff/core/helpers/file.py",
     "while path_to_visit != inner_path:", "while path_to_visit != inner_path and path_to_visit != inner_path.parent:"),
    ("iter_intermediate_paths does not yield the innermost directory (an exact file's own directory)", "sqlfluff/core/helpers/file.py",
     "    yield inner_path.resolve()\n", "    return\n"),
    ("ignore files found during the walk are parsed but never recorded", "sqlfluff/core/linter/discovery.py",
     "                    inner_ignore_specs.append(ignore_spec)\n", "                    pass\n"),
    ("ignore_files=False still loads inner ignore files", "sqlfluff/core/linter/discovery.py",
     "        if ignore_files:\n            for ignore_file in set(filenames)", "        if True:\n            for ignore_file in set(filenames)"),
    ("os.walk bottom-up", "sqlfluff/core/linter/discovery.py", "os.walk(path, topdown=True)", "os.walk(path, topdown=False)"),
]
