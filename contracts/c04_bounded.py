"""C04 -- parse, lint and fix never crash.   STAND-INS for everything the proved kernel (contracts/c04.py) leaves out.
Nothing in this module is a proof.

EXTRA   exception_funnels          syntactic exception-flow obligations over the real AST of the funnels named by the
                                   property (Linter._parse_tokens, Linter.render_string, BaseRule.crawl, the runners,
                                   ParseContext limits, api.simple), ids "C04/static/<name>", plus one dynamic confirmation
                                   of the rule funnel ("C04/dynamic/crawl-converts-exception").  The facts about
                                   _parse_tokens, render_string, the runners and the class raised by the limits are now DECIDED by
                                   pyvc contracts (contracts/c04_funnels.py, contracts/c04.py) from the same source; the syntactic
                                   obligations for them are kept as a second, independent reading.  BaseRule.crawl and api.simple
                                   are covered only here.
EXTRA   funnel_scenarios           the real funnel functions RUN with stubbed callees (a parser / templater / lint task that raises):
                                   the CPython side of the region contracts, ids "C04/dynamic/<funnel>/<clause>".
BOUNDED python_templater_errors    str.format replacement-field fragments through the python templater: every templating problem must
                                   come back as TMP, ids "C04/render/python/raised[<Class>]".
BOUNDED limits_return_violations   max_parse_depth x max_parse_nodes x nested / long / ordinary SQL x dialects x 4 entry points:
                                   the call returns, and a limit that was hit is reported as a PRS violation naming it.
BOUNDED fuzz_no_crash              seeded character / fragment soup through Linter.lint_string(fix=True), 6 dialects x 3 templaters.

Sources are located with inspect on the imported objects, so `--src <mutated copy>` is honoured.
"""
from __future__ import annotations

import ast
import inspect
import os
import random
import sys
import time
import traceback

PROP = "C04"
_POOL = 6


# =============================================================================================== helpers
class _Timeout(BaseException):
    """raised by the alarm below; a BaseException so that `except Exception` handlers inside sqlfluff do not swallow it"""


class _deadline:
    """with _deadline(seconds): ...   -- SIGALRM based, main thread of the (worker) process only; no-op elsewhere"""

    def __init__(self, seconds):
        self.seconds = int(seconds)
        self.armed = False

    def __enter__(self):
        import signal
        import threading
        if threading.current_thread() is threading.main_thread():
            def handler(signum, frame):
                raise _Timeout()
            self.old = signal.signal(signal.SIGALRM, handler)
            signal.alarm(self.seconds)
            self.armed = True
        return self

    def __exit__(self, *exc):
        if self.armed:
            import signal
            signal.alarm(0)
            signal.signal(signal.SIGALRM, self.old)
        return False


def _failed(id_, function, detail, kind="bounded", name=None):
    return {"name": name or id_, "id": id_, "kind": kind, "status": "failed", "function": function, "detail": detail,
            "reproduced": True, "backend": "CPython (bounded run of the real code)" if kind == "bounded" else "ast"}


def _fn_ast(obj):
    """(FunctionDef node, file) of a function / staticmethod / classmethod / contextmanager-wrapped function."""
    f = inspect.unwrap(getattr(obj, "__func__", obj))
    path = inspect.getsourcefile(f)
    with open(path, encoding="utf-8") as fh:
        tree = ast.parse(fh.read())
    first = f.__code__.co_firstlineno
    for node in ast.walk(tree):
        if isinstance(node, (ast.FunctionDef, ast.AsyncFunctionDef)) and node.name == f.__name__:
            if min([node.lineno] + [d.lineno for d in node.decorator_list]) == first:
                return node, path
    raise LookupError(f"{f.__qualname__} not found in {path}")


def _names_of_type(t):
    """exception class names named by an `except <t>` clause"""
    if t is None:
        return ["BaseException"]
    if isinstance(t, ast.Tuple):
        return [n for e in t.elts for n in _names_of_type(e)]
    if isinstance(t, ast.Name):
        return [t.id]
    if isinstance(t, ast.Attribute):
        return [t.attr]
    return ["?"]


def _calls(node):
    for n in ast.walk(node):
        if isinstance(n, ast.Call):
            yield n


def _call_name(c):
    f = c.func
    if isinstance(f, ast.Attribute):
        return f.attr
    if isinstance(f, ast.Name):
        return f.id
    return "?"


def _has_raise(stmts):
    return any(isinstance(n, ast.Raise) for s in stmts for n in ast.walk(s))


def _try_containing(fn, pred):
    """innermost Try nodes of `fn` whose *body* (not handlers) contains a node satisfying pred"""
    out = []
    for t in ast.walk(fn):
        if isinstance(t, ast.Try) and any(pred(n) for s in t.body for n in ast.walk(s)):
            out.append(t)
    # innermost first
    out.sort(key=lambda t: sum(1 for _ in ast.walk(t)))
    return out


def _catches(handler_names, cls, module_globals):
    """does a handler naming `handler_names` catch exceptions of class `cls`? (resolved in the defining module)"""
    import builtins
    for n in handler_names:
        k = module_globals.get(n, getattr(builtins, n, None))
        if n == "BdbQuit":
            import bdb
            k = bdb.BdbQuit
        if isinstance(k, type) and issubclass(cls, k):
            return True
    return False


class _Obl:
    def __init__(self):
        self.n = 0
        self.failed, self.undecided, self.samples = [], [], []

    def check(self, name, function, ok, detail=None):
        """ok: True discharged / False failed / None undecided (anchor missing)"""
        self.n += 1
        id_ = f"C04/static/{name}"
        if ok is None:
            self.undecided.append({"function": function, "obligation": id_, "reason": f"anchor missing: {detail}"})
        elif not ok:
            self.failed.append(_failed(id_, function, detail, kind="exception-flow"))
        elif len(self.samples) < 40:
            self.samples.append({"obligation": id_, "backend": "ast", "note": detail if isinstance(detail, str) else None})


# =============================================================================================== EXTRA: exception funnels
def exception_funnels(tier="quick", seed=0):
    _no_tqdm_monitor()
    import sqlfluff.core.errors as E
    from sqlfluff.core.linter import linter as LM
    from sqlfluff.core.linter import runner as RM
    from sqlfluff.core.rules import base as BM
    from sqlfluff.core.parser import context as CM
    from sqlfluff.api import simple as AM
    ob = _Obl()
    info = {}

    # ---------------------------------------------------------------- (a) Linter._parse_tokens
    F = "sqlfluff.core.linter.linter:Linter._parse_tokens"
    try:
        fn, _ = _fn_ast(LM.Linter._parse_tokens)
    except Exception as e:
        fn = None
        ob.check("parse_tokens/source", F, None, repr(e))
    if fn is not None:
        G = vars(LM)
        parse_calls = [c for c in _calls(fn) if _call_name(c) == "parse" and isinstance(c.func, ast.Attribute)
                       and isinstance(c.func.value, ast.Name) and c.func.value.id == "parser"]
        ctor_calls = [c for c in _calls(fn) if _call_name(c) in ("Parser", "RustParser")]
        if not parse_calls:
            ob.check("parse_tokens/parse-call-in-try", F, None, "no `parser.parse(...)` call")
        # the over-limit branch: a top-level `if` whose test mentions max_parse_nodes and len(tokens)
        limit_ifs = [s for s in fn.body if isinstance(s, ast.If)
                     and any(isinstance(n, ast.Name) and n.id == "max_parse_nodes" for n in ast.walk(s.test))
                     and any(isinstance(n, ast.Call) and _call_name(n) == "len" for n in ast.walk(s.test))]
        if not limit_ifs:
            ob.check("parse_tokens/over-limit-returns-prs", F, False if parse_calls else None,
                     "no top-level `if max_parse_nodes ... len(tokens) ...` branch before the parser call")
        else:
            li = limit_ifs[0]
            last = li.body[-1]
            ret_ok = (isinstance(last, ast.Return) and isinstance(last.value, ast.Tuple) and len(last.value.elts) == 2
                      and isinstance(last.value.elts[0], ast.Constant) and last.value.elts[0].value is None
                      and isinstance(last.value.elts[1], ast.List) and len(last.value.elts[1].elts) == 1
                      and isinstance(last.value.elts[1].elts[0], ast.Name))
            errname = last.value.elts[1].elts[0].id if ret_ok else None
            built = [s for s in li.body if isinstance(s, ast.Assign) and isinstance(s.value, ast.Call)
                     and _call_name(s.value) == "SQLParseError"
                     and any(isinstance(t, ast.Name) and t.id == errname for t in s.targets)]
            ob.check("parse_tokens/over-limit-returns-prs", F,
                     bool(ret_ok and built and G.get("SQLParseError") is E.SQLParseError and not _has_raise(li.body)),
                     "over-limit branch ends in `return None, [SQLParseError(...)]` and raises nothing")
            msg_ok = any(isinstance(n, ast.Constant) and isinstance(n.value, str) and "Maximum parse node count exceeded" in n.value
                         for s in built for n in ast.walk(s))
            ob.check("parse_tokens/over-limit-message-names-limit", F, msg_ok,
                     "the PRS description says `Maximum parse node count exceeded (limit N)`")
            # test is `max_parse_nodes > 0 and len(tokens) > max_parse_nodes`
            t = li.test
            shape = (isinstance(t, ast.BoolOp) and isinstance(t.op, ast.And) and len(t.values) == 2
                     and ast.unparse(t.values[0]) == "max_parse_nodes > 0"
                     and ast.unparse(t.values[1]) == "len(tokens) > max_parse_nodes")
            ob.check("parse_tokens/over-limit-test", F, shape, {"test": ast.unparse(t),
                                                                "expected": "max_parse_nodes > 0 and len(tokens) > max_parse_nodes"})
            before = all(c.lineno > li.end_lineno for c in parse_calls + ctor_calls) and bool(parse_calls + ctor_calls)
            inside = [c for c in _calls(li) if _call_name(c) in ("Parser", "RustParser", "parse")]
            ob.check("parse_tokens/over-limit-before-parser", F, before and not inside,
                     "every Parser()/RustParser()/parser.parse() call comes after the over-limit branch")
        if parse_calls:
            tries = _try_containing(fn, lambda n: n in parse_calls)
            in_try = all(any(c in list(ast.walk(ast.Module(body=t.body, type_ignores=[]))) for t in tries) for c in parse_calls)
            ob.check("parse_tokens/parse-call-in-try", F, bool(tries) and in_try, "parser.parse(...) sits in a try body")
            if tries:
                t = tries[0]
                hs = [h for h in t.handlers if _catches(_names_of_type(h.type), E.SQLParseError, G)]
                ob.check("parse_tokens/handler-catches-SQLParseError", F, bool(hs),
                         {"handlers": [_names_of_type(h.type) for h in t.handlers]})
                if hs:
                    h = hs[0]
                    ob.check("parse_tokens/handler-no-reraise", F, not _has_raise(h.body), "no `raise` in the handler")
                    appended = any(isinstance(c.func, ast.Attribute) and c.func.attr == "append"
                                   and isinstance(c.func.value, ast.Name) and c.func.value.id == "violations"
                                   for s in h.body for c in _calls(s))
                    last = h.body[-1]
                    returns = (isinstance(last, ast.Return) and isinstance(last.value, ast.Tuple)
                               and isinstance(last.value.elts[0], ast.Constant) and last.value.elts[0].value is None
                               and isinstance(last.value.elts[1], ast.Name) and last.value.elts[1].id == "violations")
                    ob.check("parse_tokens/handler-appends-and-returns", F, appended and returns,
                             "handler appends the error to `violations` and returns (None, violations)")
                info["parse_tokens_other_classes"] = ("exceptions of classes other than SQLParseError raised by parser.parse "
                                                      "(RecursionError, RuntimeError from a dangling grammar reference, "
                                                      "AssertionError ...) are NOT caught here")

    # ---------------------------------------------------------------- (b) Linter.render_string
    F = "sqlfluff.core.linter.linter:Linter.render_string"
    try:
        fn, _ = _fn_ast(LM.Linter.render_string)
    except Exception as e:
        fn = None
        ob.check("render_string/source", F, None, repr(e))
    if fn is not None:
        G = vars(LM)
        is_pwv = lambda n: isinstance(n, ast.Call) and _call_name(n) == "process_with_variants"
        pwv = [n for n in ast.walk(fn) if is_pwv(n)]
        if not pwv:
            ob.check("render_string/variants-loop-in-try", F, None, "no process_with_variants call")
        else:
            tries = _try_containing(fn, is_pwv)
            loops_in_try = [s for t in tries for s in t.body if isinstance(s, ast.For) and any(is_pwv(n) for n in ast.walk(s.iter))]
            ob.check("render_string/variants-loop-in-try", F, bool(loops_in_try),
                     "the `for ... in self.templater.process_with_variants(...)` loop is the body of a try")
            if tries:
                t = tries[0]
                hs = [h for h in t.handlers if _catches(_names_of_type(h.type), E.SQLTemplaterError, G)]
                ob.check("render_string/handler-catches-SQLTemplaterError", F, bool(hs),
                         {"handlers": [_names_of_type(h.type) for h in t.handlers]})
                if hs:
                    h = hs[0]
                    ob.check("render_string/handler-no-reraise", F, not _has_raise(h.body), "no `raise` in the handler")
                    appended = any(isinstance(c.func, ast.Attribute) and c.func.attr == "append"
                                   and isinstance(c.func.value, ast.Name) and c.func.value.id == "templater_violations"
                                   for s in h.body for c in _calls(s))
                    ob.check("render_string/handler-appends", F, appended, "handler appends to templater_violations")
                # the collected list is what the RenderedFile carries
                rets = [n for n in ast.walk(fn) if isinstance(n, ast.Return) and isinstance(n.value, ast.Call)
                        and _call_name(n.value) == "RenderedFile"]
                carried = any(any(isinstance(a, ast.Name) and a.id == "templater_violations" for a in r.value.args) for r in rets)
                ob.check("render_string/violations-returned", F, carried, "RenderedFile(..., templater_violations, ...) is returned")

    # ---------------------------------------------------------------- (c) BaseRule.crawl
    F = "sqlfluff.core.rules.base:BaseRule.crawl"
    excluded_by_crawl = None
    try:
        fn, _ = _fn_ast(BM.BaseRule.crawl)
    except Exception as e:
        fn = None
        ob.check("crawl/source", F, None, repr(e))
    if fn is not None:
        G = vars(BM)
        is_eval = lambda n: isinstance(n, ast.Call) and _call_name(n) == "_eval"
        evals = [n for n in ast.walk(fn) if is_eval(n)]
        if not evals:
            ob.check("crawl/eval-in-try", F, None, "no self._eval(...) call")
        else:
            tries = _try_containing(fn, is_eval)
            ob.check("crawl/eval-in-try", F, bool(tries), "self._eval(context=...) sits in a try body")
            if tries:
                t = tries[0]
                rer = [h for h in t.handlers if len(h.body) == 1 and isinstance(h.body[0], ast.Raise) and h.body[0].exc is None]
                excluded_by_crawl = sorted({n for h in rer for n in _names_of_type(h.type)})
                broad = [h for h in t.handlers if h not in rer and _catches(_names_of_type(h.type), Exception, G)]
                ob.check("crawl/handler-catches-Exception", F, bool(broad),
                         {"handlers": [_names_of_type(h.type) for h in t.handlers]})
                # the re-raising handlers listed before it name only debugger / interrupt classes
                ob.check("crawl/reraised-classes", F, set(excluded_by_crawl) <= {"BdbQuit", "KeyboardInterrupt"},
                         {"re-raised": excluded_by_crawl, "allowed": ["BdbQuit", "KeyboardInterrupt"]})
                if broad:
                    h = broad[0]
                    ob.check("crawl/handler-no-reraise", F, not _has_raise(h.body), "no `raise` in the broad handler")
                    mk = [c for s in h.body for c in _calls(s) if _call_name(c) == "SQLLintError"]
                    unexpected = any(isinstance(n, ast.Constant) and isinstance(n.value, str) and n.value.startswith("Unexpected exception")
                                     for c in mk for n in ast.walk(c))
                    app = any(isinstance(c.func, ast.Attribute) and c.func.attr == "append" and isinstance(c.func.value, ast.Name)
                              and c.func.value.id == "vs" and c.args and isinstance(c.args[0], ast.Call)
                              and _call_name(c.args[0]) == "SQLLintError" for s in h.body for c in _calls(s))
                    ob.check("crawl/handler-makes-unexpected-exception-violation", F, bool(mk) and unexpected and app,
                             "handler appends SQLLintError(description='Unexpected exception: ...') to the returned list")
                    last = h.body[-1]
                    ob.check("crawl/handler-returns-result", F, isinstance(last, ast.Return) and isinstance(last.value, ast.Tuple)
                             and isinstance(last.value.elts[0], ast.Name) and last.value.elts[0].id == "vs",
                             "handler returns (vs, raw_stack, fixes, memory)")
        info["crawl_excluded_classes"] = {
            "re-raised explicitly": excluded_by_crawl,
            "not under Exception (pass through by class)": ["KeyboardInterrupt", "SystemExit", "GeneratorExit"],
            "note": "exceptions raised by crawl_behaviour.crawl(), _process_lint_result, _adjust_anchors_for_fixes or "
                    "Linter.lint_fix_parsed's own code (apply_fixes, IgnoreMask.from_tree) are outside this try"}
        # dynamic confirmation on the real code: a rule whose _eval raises yields one "Unexpected exception" violation
        ob.n += 1
        try:
            from sqlfluff.core import Linter, FluffConfig
            cfg = FluffConfig(overrides={"dialect": "ansi", "rules": "LT01"})
            lnt = Linter(config=cfg)
            parsed = lnt.parse_string("SELECT 1\n")
            rule = lnt.get_rulepack(config=cfg).rules[0]

            class _Boom(RuntimeError):
                pass

            def _boom(context):
                raise _Boom("c04-probe")
            rule._eval = _boom
            import logging
            lg = logging.getLogger("sqlfluff.rules")
            old = lg.level
            lg.setLevel(logging.CRITICAL + 1)
            try:
                vs, _, fixes, _ = rule.crawl(parsed.tree, dialect=cfg.get("dialect_obj"), fix=False,
                                             templated_file=parsed.root_variant().templated_file, ignore_mask=None,
                                             fname=None, config=cfg)
            finally:
                lg.setLevel(old)
            ok = len(vs) == 1 and vs[0].desc().startswith("Unexpected exception: c04-probe") and not fixes
            if ok:
                ob.samples.append({"obligation": "C04/dynamic/crawl-converts-exception", "backend": "CPython",
                                   "note": "RuntimeError in _eval -> 1 violation 'Unexpected exception: ...'"})
            else:
                ob.failed.append(_failed("C04/dynamic/crawl-converts-exception", F, {"violations": [v.desc()[:80] for v in vs]},
                                         kind="exception-flow"))
        except Exception as e:
            ob.failed.append(_failed("C04/dynamic/crawl-converts-exception", F,
                                     {"raised": f"{type(e).__name__}: {e}"[:300],
                                      "what": "an exception raised by a rule's _eval escaped BaseRule.crawl"}, kind="exception-flow"))

    # ---------------------------------------------------------------- (d) runners
    F = "sqlfluff.core.linter.runner:SequentialRunner.run"
    try:
        fn, _ = _fn_ast(RM.SequentialRunner.run)
        G = vars(RM)
        is_lint = lambda n: isinstance(n, ast.Call) and _call_name(n) in ("partial", "lint_rendered")
        if not any(is_lint(n) for n in ast.walk(fn)):
            ob.check("sequential-run/lint-in-try", F, None, "no partial()/lint_rendered(...) call")
        else:
            tries = _try_containing(fn, is_lint)
            calls_outside = [n for n in ast.walk(fn) if is_lint(n)
                             and not any(n in list(ast.walk(ast.Module(body=t.body, type_ignores=[]))) for t in tries)]
            ob.check("sequential-run/lint-in-try", F, bool(tries) and not calls_outside, "every partial()/lint_rendered() call is in a try body")
            if tries:
                t = tries[-1]
                rer = [h for h in t.handlers if len(h.body) == 1 and isinstance(h.body[0], ast.Raise) and h.body[0].exc is None]
                names = sorted({n for h in rer for n in _names_of_type(h.type)})
                ob.check("sequential-run/reraised-classes", F, set(names) <= {"BdbQuit", "KeyboardInterrupt"}, {"re-raised": names})
                broad = [h for h in t.handlers if h not in rer and _catches(_names_of_type(h.type), Exception, G)]
                ob.check("sequential-run/handler-catches-Exception", F, bool(broad), {"handlers": [_names_of_type(h.type) for h in t.handlers]})
                if broad:
                    h = broad[0]
                    delegated = (len(h.body) == 1 and isinstance(h.body[0], ast.Expr) and isinstance(h.body[0].value, ast.Call)
                                 and _call_name(h.body[0].value) == "_handle_lint_path_exception")
                    ob.check("sequential-run/handler-delegates", F, delegated and not _has_raise(h.body),
                             "handler body is exactly self._handle_lint_path_exception(fname, e)")
    except Exception as e:
        ob.check("sequential-run/source", F, None, repr(e))

    F = "sqlfluff.core.linter.runner:BaseRunner._handle_lint_path_exception"
    try:
        fn, _ = _fn_ast(RM.BaseRunner._handle_lint_path_exception)
        raises = [n for n in ast.walk(fn) if isinstance(n, ast.Raise)]
        guarded = []
        for s in fn.body:
            if isinstance(s, ast.If) and any(isinstance(n, ast.Raise) for n in ast.walk(s)):
                guarded.append(ast.unparse(s.test))
        only_io = len(raises) == len(guarded) == 1 and guarded[0] in ("isinstance(e, IOError)", "isinstance(e, OSError)")
        ob.check("handle-lint-path-exception/only-IOError-propagates", F, only_io, {"raise guarded by": guarded, "raises": len(raises)})
        warns = any(_call_name(c) == "warning" for c in _calls(fn))
        ob.check("handle-lint-path-exception/reports", F, warns, "everything else is reported with linter_logger.warning(...)")
    except Exception as e:
        ob.check("handle-lint-path-exception/source", F, None, repr(e))

    F = "sqlfluff.core.linter.runner:ParallelRunner._apply"
    try:
        fn, _ = _fn_ast(RM.ParallelRunner._apply)
        G = vars(RM)
        is_lint = lambda n: isinstance(n, ast.Call) and _call_name(n) in ("task", "lint_rendered", "render_file")
        if not any(is_lint(n) for n in ast.walk(fn)):
            ob.check("parallel-apply/work-in-try", F, None, "no task()/lint_rendered()/render_file() call")
        else:
            tries = _try_containing(fn, is_lint)
            outside = [n for n in ast.walk(fn) if is_lint(n)
                       and not any(n in list(ast.walk(ast.Module(body=t.body, type_ignores=[]))) for t in tries)]
            ob.check("parallel-apply/work-in-try", F, bool(tries) and not outside, "render + lint of the worker are in a try body")
            if tries:
                t = tries[-1]
                broad = [h for h in t.handlers if _catches(_names_of_type(h.type), Exception, G)]
                ob.check("parallel-apply/handler-catches-Exception", F, bool(broad), {"handlers": [_names_of_type(h.type) for h in t.handlers]})
                if broad:
                    h = broad[0]
                    ret = (len(h.body) == 1 and isinstance(h.body[0], ast.Return) and isinstance(h.body[0].value, ast.Call)
                           and _call_name(h.body[0].value) == "DelayedException")
                    ob.check("parallel-apply/handler-returns-DelayedException", F, ret, "handler returns DelayedException(e, fname=fname)")
    except Exception as e:
        ob.check("parallel-apply/source", F, None, repr(e))

    F = "sqlfluff.core.linter.runner:ParallelRunner.run"
    try:
        fn, _ = _fn_ast(RM.ParallelRunner.run)
        G = vars(RM)
        is_rr = lambda n: isinstance(n, ast.Call) and _call_name(n) == "reraise"
        if not any(is_rr(n) for n in ast.walk(fn)):
            ob.check("parallel-run/reraise-in-try", F, None, "no lint_result.reraise() call")
        else:
            tries = _try_containing(fn, is_rr)
            t = tries[0] if tries else None
            ok = bool(t) and len(t.body) == 1
            ob.check("parallel-run/reraise-in-try", F, ok, "lint_result.reraise() is the whole body of a try")
            if t:
                broad = [h for h in t.handlers if _catches(_names_of_type(h.type), Exception, G)]
                delegated = bool(broad) and len(broad[0].body) == 1 and isinstance(broad[0].body[0], ast.Expr) \
                    and isinstance(broad[0].body[0].value, ast.Call) and _call_name(broad[0].body[0].value) == "_handle_lint_path_exception"
                ob.check("parallel-run/handler-delegates", F, delegated, "except Exception -> self._handle_lint_path_exception(fname, e)")
            # the SQLFluffSkipFile branch reports and counts, does not raise
            skip = [n for n in ast.walk(fn) if isinstance(n, ast.If) and "SQLFluffSkipFile" in ast.unparse(n.test)]
            if not skip:
                ob.check("parallel-run/skipfile-counted", F, None, "no isinstance(..., SQLFluffSkipFile) branch")
            else:
                s = skip[0]
                counted = any(isinstance(n, ast.AugAssign) and "skipped_file_count" in ast.unparse(n.target) for b in s.body for n in ast.walk(b))
                ob.check("parallel-run/skipfile-counted", F, counted and not _has_raise(s.body), "skip is logged and counted, nothing raised")
    except Exception as e:
        ob.check("parallel-run/source", F, None, repr(e))

    F = "sqlfluff.core.linter.runner:BaseRunner.iter_rendered"
    try:
        fn, _ = _fn_ast(RM.BaseRunner.iter_rendered)
        is_rf = lambda n: isinstance(n, ast.Call) and _call_name(n) == "render_file"
        tries = _try_containing(fn, is_rf)
        if not tries:
            ob.check("iter-rendered/skipfile-caught", F, None if not any(is_rf(n) for n in ast.walk(fn)) else False, "render_file not in a try")
        else:
            hs = [h for h in tries[0].handlers if "SQLFluffSkipFile" in _names_of_type(h.type)]
            ob.check("iter-rendered/skipfile-caught", F, bool(hs) and not _has_raise(hs[0].body) if hs else False,
                     "SQLFluffSkipFile from render_file is logged and counted")
        info["sequential_runner_gap"] = ("SequentialRunner.run: the `for ... in self.iter_partials(...)` header (render_file: loading, "
                                         "templating) is outside the try; only SQLFluffSkipFile is handled there (iter_rendered)")
    except Exception as e:
        ob.check("iter-rendered/source", F, None, repr(e))

    # ---------------------------------------------------------------- (e) the limits raise SQLParseError (class check only)
    for meth in ("increment_parse_nodes", "deeper_match"):
        F = f"sqlfluff.core.parser.context:ParseContext.{meth}"
        try:
            fn, _ = _fn_ast(getattr(CM.ParseContext, meth))
            raises = [n for n in ast.walk(fn) if isinstance(n, ast.Raise)]
            if not raises:
                ob.check(f"context/{meth}-raises-SQLParseError", F, False, "no raise statement: the limit is not enforced")
                continue
            cls_ok = all(isinstance(r.exc, ast.Call) and _call_name(r.exc) == "SQLParseError" for r in raises)
            same = vars(CM).get("SQLParseError") is E.SQLParseError and vars(LM).get("SQLParseError") is E.SQLParseError
            ob.check(f"context/{meth}-raises-SQLParseError", F, cls_ok and same,
                     {"raised": [ast.unparse(r.exc)[:60] if r.exc else "re-raise" for r in raises],
                      "same class object as the one Linter._parse_tokens catches": same})
        except Exception as e:
            ob.check(f"context/{meth}-raises-SQLParseError", F, None, repr(e))

    # ---------------------------------------------------------------- (f) api.simple (informational)
    F = "sqlfluff.api.simple"
    try:
        per = {}
        for nm in ("lint", "fix", "parse"):
            fn, _ = _fn_ast(getattr(AM, nm))
            per[nm] = {"raise": [ast.unparse(n.exc)[:60] if n.exc else "re-raise" for n in ast.walk(fn) if isinstance(n, ast.Raise)],
                       "assert": sum(isinstance(n, ast.Assert) for n in ast.walk(fn)),
                       "try": sum(isinstance(n, ast.Try) for n in ast.walk(fn))}
        ok = (per["lint"]["raise"] == [] and per["fix"]["raise"] == []
              and all(r.startswith("APIParsingError(") for r in per["parse"]["raise"]) and len(per["parse"]["raise"]) == 1
              and issubclass(AM.APIParsingError, ValueError))
        ob.check("api/raises-by-design", F, ok, {"per function": per,
                                                 "expected": "lint/fix raise nothing themselves; parse raises APIParsingError(violations) only"})
        info["api_by_design"] = {"parse": "raises APIParsingError (a ValueError) whenever there is any TMP/LXR/PRS violation -- by design, "
                                          "the violations travel inside the exception", "per function": per,
                                 "get_simple_config": "raises SQLFluffUserError for an unknown dialect / bad config"}
    except Exception as e:
        ob.check("api/raises-by-design", F, None, repr(e))

    nf, nu = len(ob.failed), len(ob.undecided)
    return {"name": "C04-exception-funnels", "obligations": ob.n, "discharged": ob.n - nf - nu, "failed": ob.failed,
            "undecided": ob.undecided, "samples": ob.samples[:6], "info": info,
            "trusted": ["exception-flow obligations are syntactic: `handler does not re-raise` means no raise statement in the handler body; "
                        "calls made inside handlers (logging, SQLParseError(...), PositionMarker.source_position) are assumed not to raise "
                        "(for Linter._parse_tokens, Linter.render_string and the runners the same facts are decided semantically by the "
                        "pyvc contracts of contracts/c04_funnels.py; only BaseRule.crawl and api.simple rest on this reading alone)",
                        "exceptions raised outside the guarded calls of each funnel (e.g. in Linter.lint_fix_parsed's own code, apply_fixes, "
                        "lexing other than SQLLexError, any class other than SQLParseError from the parser) reach the caller: not examined"],
            "backend": "ast pattern check on inspect.getsource of the imported functions"}


# =============================================================================================== BOUNDED: limits
_DEPTHS = (1, 2, 5, 10)
_NODES = (1, 5, 50)
_LIMIT_DIALECTS = ("ansi", "postgres", "tsql", "bigquery")


def _limit_inputs():
    xs = []
    for k in (3, 10, 30, 60):
        xs.append((f"paren{k}", "SELECT " + "(" * k + "1" + ")" * k + "\n"))
        xs.append((f"case{k}", "SELECT " + "CASE WHEN a THEN " * k + "1" + " END" * k + " FROM t\n"))
        xs.append((f"subq{k}", "SELECT * FROM (" * k + "SELECT 1" + ") AS s" * k + "\n"))
    for k in (5, 60):
        xs.append((f"func{k}", "SELECT " + "coalesce(" * k + "1" + ", 0)" * k + "\n"))
        xs.append((f"open{k}", "SELECT " + "(" * k + "1\n"))
    for k in (5, 50, 500):
        xs.append((f"in{k}", "SELECT a FROM t WHERE a IN (" + ", ".join(str(i) for i in range(k)) + ")\n"))
    # far beyond Python's own recursion limit: whatever walks the brackets must be stopped by max_parse_depth, not by the interpreter
    xs.append(("paren1200", "SELECT " + "(" * 1200 + "1" + ")" * 1200 + "\n"))
    xs.append(("open1200", "SELECT " + "(" * 1200 + "1\n"))
    xs.append(("in_nested1200", "SELECT a FROM t WHERE x IN " + "(" * 1200 + "1" + ")" * 1200 + "\n"))
    xs.append(("cols200", "SELECT " + ", ".join(f"c{i}" for i in range(200)) + " FROM t\n"))
    xs.append(("close1", "SELECT 1)\n"))
    xs.append(("union40", "\nUNION ALL\n".join(f"SELECT {i} AS a" for i in range(40)) + "\n"))
    ordinary = ["", " \n", "-- just a comment\n", ";", "SELECT 1\n", "SELECT a, b FROM t WHERE x = 1 ORDER BY a\n",
                "select a,b from t\n", "INSERT INTO t (a, b) VALUES (1, 'x')\n", "UPDATE t SET a = 1 WHERE b = 2\n",
                "DELETE FROM t WHERE a IS NULL\n", "CREATE TABLE t (a INT, b VARCHAR(10))\n",
                "WITH c AS (SELECT 1 AS a) SELECT a FROM c\n", "SELECT a FROM t1 JOIN t2 ON t1.id = t2.id\n",
                "SELECT sum(a) OVER (PARTITION BY b ORDER BY c) FROM t\n", "SELECT 1; SELECT 2;\n", "SELECT 'it''s' AS s, \"q\" FROM t\n",
                "SELEC 1 FRM t\n", "DROP TABLE IF EXISTS t\n"]
    xs += [(f"ordinary{i}", s) for i, s in enumerate(ordinary)]
    return xs


_LIM_STATE = {}
_CALL_LIMIT_S = 90       # a single lint / parse / fix of these inputs takes well under 10 s


def _install_limit_probes():
    """read-only observers on the real ParseContext: was a configured limit reached during this call?"""
    if _LIM_STATE.get("installed"):
        return
    from sqlfluff.core.parser.context import ParseContext
    from sqlfluff.core.linter.linter import Linter
    st = _LIM_STATE
    st.update(installed=True, hits=[], ntokens=[])
    orig_dm = ParseContext.deeper_match
    orig_inc = ParseContext.increment_parse_nodes
    orig_pt = Linter._parse_tokens

    def deeper_match(self, *a, **k):
        if self.max_parse_depth > 0 and self.match_depth + 1 > self.max_parse_depth:
            st["hits"].append("depth")
        return orig_dm(self, *a, **k)

    def increment_parse_nodes(self, count=1):
        if self.max_parse_nodes > 0 and count >= 0 and self.current_parse_nodes + count > self.max_parse_nodes:
            st["hits"].append("nodes")
        return orig_inc(self, count)

    def _parse_tokens(tokens, config, *a, **k):
        st["ntokens"].append(len(tokens))
        return orig_pt(tokens, config, *a, **k)
    ParseContext.deeper_match = deeper_match
    ParseContext.increment_parse_nodes = increment_parse_nodes
    Linter._parse_tokens = staticmethod(_parse_tokens)


def _limit_task(task):
    """one (input, dialect, depth, nodes, api) evaluation in a worker; returns a small record"""
    label, sql, dialect, depth, nodes, api = task
    import logging
    logging.disable(logging.CRITICAL)
    import sqlfluff
    from sqlfluff.core import Linter, FluffConfig
    _install_limit_probes()
    st = _LIM_STATE
    st["hits"], st["ntokens"] = [], []
    rec = {"label": label, "dialect": dialect, "depth": depth, "nodes": nodes, "api": api}
    t0 = time.time()
    try:
        with _deadline(_CALL_LIMIT_S):
            if depth is None:
                # the shipped defaults (no override at all): what a user gets
                cfg = FluffConfig(overrides={"dialect": dialect})
                depth, nodes = int(cfg.get("max_parse_depth")), int(cfg.get("max_parse_nodes"))
                rec["depth"], rec["nodes"], rec["shipped_defaults"] = depth, nodes, True
            else:
                cfg = FluffConfig(overrides={"dialect": dialect, "max_parse_depth": depth, "max_parse_nodes": nodes})
            if api == "lint_string":
                lf = Linter(config=cfg).lint_string(sql, fix=True)
                vs = [(v.rule_code(), v.desc()) for v in lf.get_violations(filter_ignore=False, filter_warning=False)]
                rec["tree_none"] = lf.tree is None
            elif api == "parse_string":
                ps = Linter(config=cfg).parse_string(sql)
                vs = [(v.rule_code(), v.desc()) for v in ps.violations]
                rec["tree_none"] = ps.root_variant() is None
            elif api == "api_lint":
                out = sqlfluff.lint(sql, config=cfg)
                vs = [(d["code"], d["description"]) for d in out]
                rec["type_ok"] = isinstance(out, list)
            elif api == "api_fix":
                out = sqlfluff.fix(sql, config=cfg)
                vs = None
                rec["type_ok"] = isinstance(out, str)
                rec["unchanged"] = out == sql
            else:
                raise AssertionError(api)
            rec["violations"] = vs
    except _Timeout:
        rec["raised"] = {"class": "timeout", "message": f"no result within {_CALL_LIMIT_S} s", "site": "?"}
    except BaseException as e:     # noqa -- the observable of C04
        tb = traceback.extract_tb(e.__traceback__)
        site = next((f"{os.path.basename(f.filename)}:{f.name}" for f in reversed(tb) if "sqlfluff" in f.filename), "?")
        rec["raised"] = {"class": type(e).__name__, "message": str(e)[:200], "site": site}
        if isinstance(e, (KeyboardInterrupt, SystemExit)):
            raise
    rec["hits"] = list(st["hits"])
    rec["ntokens"] = list(st["ntokens"])
    rec["time"] = round(time.time() - t0, 3)
    return rec


def _limit_verdicts(rec):
    """clauses violated by one record: list of (which, detail)"""
    d, n = rec["depth"], rec["nodes"]
    bad = []
    if "raised" in rec:
        return [(f"raised[{rec['raised']['class']}]", rec["raised"])]
    pre = n > 0 and any(k > n for k in rec["ntokens"][:1])
    first = "nodes" if pre else (rec["hits"][0] if rec["hits"] else None)
    msg = {"depth": f"Maximum parse depth exceeded (limit {d})", "nodes": f"Maximum parse node count exceeded (limit {n})"}
    if rec["api"] == "api_fix":
        if not rec.get("type_ok"):
            bad.append(("type", "sqlfluff.fix did not return a str"))
        if first and not rec.get("unchanged"):
            bad.append((first, "limit reached but sqlfluff.fix returned edited SQL (a PRS error must suppress fixing)"))
        return bad
    vs = rec["violations"]
    lim_prs = [desc for code, desc in vs if code == "PRS" and desc.startswith("Maximum parse ")]
    if first:
        if not any(desc.startswith(msg[first]) for desc in lim_prs):
            bad.append((first, {"expected a PRS violation starting with": msg[first], "violations": vs[:5]}))
        if rec["api"] in ("lint_string", "parse_string") and not rec.get("tree_none"):
            bad.append((first, "limit reached but a parse tree was returned"))
    elif lim_prs:
        bad.append(("spurious", {"no limit was reached but reported": lim_prs[:2], "ntokens": rec["ntokens"]}))
    return bad


def _no_tqdm_monitor():
    """sqlfluff's parser opens a tqdm progress bar; the first bar starts tqdm's monitor THREAD, which takes tqdm's (multiprocessing)
    lock every few seconds.  Forking worker processes while that thread holds the lock leaves the lock taken for ever in the children
    (observed: all workers blocked in tqdm.__new__, the check never returned).  No monitor thread, no race."""
    try:
        import tqdm
        tqdm.tqdm.monitor_interval = 0
        mon = getattr(tqdm.tqdm, "monitor", None)
        if mon is not None:
            mon.exit()
            tqdm.tqdm.monitor = None
    except Exception:      # noqa -- tqdm absent or of another vintage: nothing to switch off
        pass


def _pool(n=_POOL):
    import concurrent.futures as cf
    import multiprocessing as mp
    _no_tqdm_monitor()
    return cf.ProcessPoolExecutor(max_workers=n, mp_context=mp.get_context("fork"))


def limits_return_violations(tier="quick", seed=0):
    rng = random.Random(f"c04-limits-{seed}")
    inputs = _limit_inputs()
    apis = ("lint_string", "parse_string", "api_lint", "api_fix")
    grid = [(lab, sql, dia, d, n, api) for lab, sql in inputs for dia in _LIMIT_DIALECTS for d in _DEPTHS for n in _NODES for api in apis]
    want = 1500 if tier == "thorough" else 150
    # stratified: every input, dialect, limit value and entry point appears; the rest is a seeded sample
    rng.shuffle(grid)
    tasks, seen = [], set()
    for t in grid:
        keys = {("in", t[0]), ("dia", t[2]), ("d", t[3]), ("n", t[4]), ("api", t[5]), ("in-api", t[0], t[5])}
        if not keys <= seen:
            tasks.append(t)
            seen |= keys
    rest = [t for t in grid if t not in set(tasks)]
    tasks += rest[:max(0, want - len(tasks))]
    # controls: limits switched off (0 = disabled, documented) and the shipped defaults (absent from overrides -> here 600 / 100000)
    controls = []
    for lab, sql in inputs:
        if lab in ("paren60", "case60", "subq60", "func60", "in500", "ordinary5", "ordinary4"):
            controls.append((lab, sql, "ansi", 600, 100000, "parse_string" if lab == "in500" else "lint_string"))
            controls.append((lab, sql, "ansi", 0, 0, "parse_string"))
    if tier != "thorough":
        controls = [c for c in controls if c[0] in ("paren60", "case60", "ordinary5", "in500")]
    for lab, sql in inputs:
        if lab.endswith("1200"):
            for api in (("lint_string", "api_fix", "parse_string") if tier == "thorough" or lab == "paren1200" else ("lint_string",)):
                controls.append((lab, sql, "ansi", None, None, api))
    t0 = time.time()
    with _pool() as pool:
        futs = [pool.submit(_limit_task, t) for t in controls + tasks]      # the long-running controls first
        recs = [f.result() for f in futs]
    failed, samples, by = [], [], {}
    nontrivial = set()
    for rec in recs:
        is_control = (rec["depth"], rec["nodes"]) in ((600, 100000), (0, 0)) or rec.get("shipped_defaults")
        if rec["hits"] or (rec["nodes"] and any(k > rec["nodes"] for k in rec["ntokens"][:1])):
            nontrivial.add((rec["label"], rec["dialect"], rec["depth"], rec["nodes"], rec["api"]))
        for which, detail in _limit_verdicts(rec):
            id_ = f"C04/limit/{rec['api']}/{which}" + ("/limits-disabled" if is_control and rec["depth"] == 0 else "")
            size = len(next(s for lab, s in inputs if lab == rec["label"]))
            by.setdefault(id_, []).append((size, rec, detail))
        if len(samples) < 3 and rec["hits"] and "raised" not in rec and rec["violations"]:
            samples.append({"input": rec["label"], "dialect": rec["dialect"], "max_parse_depth": rec["depth"], "max_parse_nodes": rec["nodes"],
                            "api": rec["api"], "first_limit_hit": rec["hits"][0], "violation": rec["violations"][0][1][:70]})
    for id_, lst in sorted(by.items()):
        lst.sort(key=lambda x: x[0])
        size, rec, detail = lst[0]
        sql = next(s for lab, s in inputs if lab == rec["label"])
        failed.append(_failed(id_, {"lint_string": "sqlfluff.core.linter.linter:Linter.lint_string",
                                    "parse_string": "sqlfluff.core.linter.linter:Linter.parse_string",
                                    "api_lint": "sqlfluff.api.simple:lint", "api_fix": "sqlfluff.api.simple:fix"}[rec["api"]],
                              {"input": rec["label"], "sql": sql if len(sql) < 400 else sql[:200] + " ... " + sql[-100:],
                               "dialect": rec["dialect"], "max_parse_depth": rec["depth"], "max_parse_nodes": rec["nodes"],
                               "limits_hit_in_order": rec["hits"][:3], "ntokens": rec["ntokens"][:1], "problem": detail,
                               "occurrences": len(lst)}))
    return {"name": "limits-return-violations",
            "bound": f"{len(inputs)} SQL strings (nesting <= 60, IN list <= 500) x {len(_LIMIT_DIALECTS)} dialects x depth {list(_DEPTHS)} x nodes {list(_NODES)} "
                     f"x 4 entry points: seeded stratified sample of {len(tasks)} of {len(grid)} + {len(controls)} controls (limits off / defaults)",
            "rule": "non-trivial = a configured limit was reached during the call (observed on the live ParseContext)",
            "evaluations": len(recs), "distinct_nontrivial": len(nontrivial), "samples": samples, "failed": failed,
            "wall_s": round(time.time() - t0, 1)}


# =============================================================================================== BOUNDED: fuzz
_FUZZ_DIALECTS = ("ansi", "postgres", "tsql", "bigquery", "snowflake", "databricks")
_FUZZ_TEMPLATERS = ("raw", "jinja", "placeholder")
_CHARS = list("abzAZ019 _\t\n\r'\"`-/*#$@:;,.()[]{}<>=!+%\\~^|&?") + ["é", "€", "ß", "\u00a0", "\u200b", "\u2028", "\u0301", "\ufeff",
                                                                    "\U0001F600", "\x00", "\x0b", "\x7f", "\ud800", "\udfff"]
_FRAGS = ["{{", "}}", "{%", "%}", "{#", "#}", "{{ x }}", "{% if x %}", "{% endif %}", "{% for i in x %}", "{% endfor %}", "-- noqa", "--", "/*", "*/",
          "SELECT", "FROM", "WHERE", "select", "from", "(", ")", "((", "))", "[", "]", "'", "''", '"', "$$", ":x", ":1", "${", "?", ";", ";;", ",",
          " ", "  ", "\n", "1", "a", "a.b", "*", "CASE", "WHEN", "END", "AS", "JOIN", "ON", "=", "IN", "NULL", "CREATE", "TABLE", "-- sqlfluff:",
          # template expressions / tags that parse but fail when RENDERED (ZeroDivisionError, undefined callable, attribute of an undefined
          # value, unpacking a non-iterable): must come back as TMP
          "{{ 1/0 }}", "{{ 5 % 0 }}", "{{ undefined_fn() }}", "{{ x.y.z }}", "{% for a, b in [1] %}{% endfor %}", "{{ x[9] }}", "{{ 1 // 0 }}",
          "{{ x | nofilter }}", "{{ 'a' + 1 }}", "{% set q = 1/0 %}", "{{ x.pop.pop }}", "{% include 'nofile' %}",
          # ... with exception classes outside TemplateError / TypeError / ValueError / ArithmeticError (LookupError family, RuntimeError)
          "{{ [].pop() }}", "{{ {}.popitem() }}", "{{ 'a'.encode('nocodec') }}", "{{ cycler() }}"]


# inputs that made other stand-ins fail (C01 token positions: whitespace made of templated + literal + templated pieces)
_SEEDS = ['SELECT 1{{ " " }} {{ " " }}FROM t\n', "SELECT a  {% if true %}  {% endif %}  , b FROM t\n"]


def _fuzz_inputs(rng, n):
    out = []
    for i in range(n):
        mode = rng.random()
        L = rng.randint(0, 40)
        s = ""
        while len(s) < L:
            if mode < 0.35:
                s += rng.choice(_CHARS)
            elif mode < 0.7:
                s += rng.choice(_FRAGS) + rng.choice(["", " ", " ", "\n"])
            else:
                s += rng.choice(_CHARS) if rng.random() < 0.4 else rng.choice(_FRAGS)
        out.append(s[:40])
    return out


_LINTERS = {}
_FUZZ_LIMIT_S = 45       # inputs are at most 40 characters long: typical 0.03-0.3 s


def _fuzz_linter(dialect, templater):
    key = (dialect, templater)
    if key not in _LINTERS:
        from sqlfluff.core import Linter, FluffConfig
        ov = {"dialect": dialect, "templater": templater}
        cfgs = {"core": ov}
        if templater == "placeholder":
            cfgs["templater"] = {"placeholder": {"param_style": "colon", "x": "1"}}
        if templater == "jinja":
            cfgs["templater"] = {"jinja": {"context": {"x": [1, 2]}}}
        _LINTERS[key] = Linter(config=FluffConfig(configs=cfgs))
    return _LINTERS[key]


def _fuzz_one(s, dialect, templater):
    """outcome of one lint_string(fix=True): None if every clause holds, else (clause, site, detail)"""
    import logging
    logging.disable(logging.CRITICAL)
    lnt = _fuzz_linter(dialect, templater)
    captured = []
    orig = type(lnt).parse_string

    def parse_string(*a, **k):
        ps = orig(lnt, *a, **k)
        captured.append(ps)
        return ps
    lnt.parse_string = parse_string
    try:
        try:
            with _deadline(_FUZZ_LIMIT_S):
                lf = lnt.lint_string(s, fix=True)
        finally:
            del lnt.parse_string
    except _Timeout:
        return ("timeout", "lint_string", {"message": f"no result within {_FUZZ_LIMIT_S} s for an input of {len(s)} characters"})
    except BaseException as e:     # noqa -- the observable of C04
        if isinstance(e, (KeyboardInterrupt, SystemExit)):
            raise
        tb = traceback.extract_tb(e.__traceback__)
        site = next((f"{f.filename.split('sqlfluff' + os.sep)[-1]}:{f.name}" for f in reversed(tb)
                     if os.sep + "sqlfluff" + os.sep in f.filename), "?")
        return (f"raised[{type(e).__name__}]", site, {"message": str(e)[:200]})
    vs = lf.get_violations(filter_ignore=False, filter_warning=False)
    for v in vs:
        if v.desc().startswith("Unexpected exception"):
            return ("unexpected-exception-violation", v.rule_code(), {"description": v.desc()[:160]})
    sig = {(v.rule_code(), v.line_no, v.line_pos) for v in vs}
    codes = {v.rule_code() for v in vs}
    if captured:
        ps = captured[0]
        for p in ps.violations:
            if (p.rule_code(), p.line_no, p.line_pos) not in sig:
                return ("problem-not-reported", p.rule_code(), {"lost": [p.rule_code(), p.line_no, p.line_pos, p.desc()[:80]]})
        if not ps.parsed_variants and "TMP" not in codes:
            return ("problem-not-reported", "TMP", {"what": "templating produced no variant and no TMP violation"})
        rv = ps.root_variant()
        if ps.parsed_variants and rv is None and not codes & {"PRS", "LXR", "TMP"}:
            return ("problem-not-reported", "PRS", {"what": "no parse tree and no TMP/LXR/PRS violation"})
        if rv is not None:
            if any(seg.is_type("unlexable") for seg in rv.tree.raw_segments) and "LXR" not in codes:
                return ("problem-not-reported", "LXR", {"what": "unlexable token without an LXR violation"})
            if next(rv.tree.iter_unparsables(), None) is not None and "PRS" not in codes:
                return ("problem-not-reported", "PRS", {"what": "unparsable section without a PRS violation"})
    if lf.tree is None and not codes & {"PRS", "LXR", "TMP"}:
        return ("problem-not-reported", "PRS", {"what": "LintedFile without tree and without TMP/LXR/PRS violation"})
    return None


def _fuzz_task(task):
    s, dialect, templater = task
    t0 = time.time()
    r = _fuzz_one(s, dialect, templater)
    return (s, dialect, templater, r, time.time() - t0)


def _shrink(s, dialect, templater, key, budget=120):
    """greedy deletion of chunks while the same (clause, site) is observed"""
    def same(x):
        r = _fuzz_one(x, dialect, templater)
        return r is not None and (r[0], r[1]) == key
    n = 0
    chunk = max(1, len(s) // 2)
    while chunk >= 1 and n < budget:
        i, changed = 0, False
        while i < len(s) and n < budget:
            cand = s[:i] + s[i + chunk:]
            n += 1
            if cand != s and same(cand):
                s, changed = cand, True
            else:
                i += chunk
        if not changed:
            chunk //= 2
    return s


def _shrink_task(task):
    s, dialect, templater, key = task
    small = _shrink(s, dialect, templater, key)
    return small, _fuzz_one(small, dialect, templater)


def fuzz_no_crash(tier="quick", seed=0):
    rng = random.Random(f"c04-fuzz-{seed}")
    n = 10000 if tier == "thorough" else 400
    inputs = _fuzz_inputs(rng, n)
    combos = [(d, t) for d in _FUZZ_DIALECTS for t in _FUZZ_TEMPLATERS]
    tasks = [(s, *combos[i % len(combos)]) for i, s in enumerate(inputs)]
    # systematic part (same in both tiers): every character and fragment alone, and every ordered pair of the bracket / quote / tag
    # openers and closers, each through all three templaters (dialects in rotation)
    pairs = ["(", ")", "[", "]", "'", '"', "`", "{{", "}}", "{%", "%}", "{#", "#}", "--", "/*"]
    systematic = list(dict.fromkeys(_CHARS + _FRAGS + [a + b for a in pairs for b in pairs]))
    systematic += [x for x in _SEEDS if x not in systematic]
    for i, s in enumerate(systematic):
        for j, t in enumerate(_FUZZ_TEMPLATERS):
            tasks.append((s, _FUZZ_DIALECTS[(i + j) % len(_FUZZ_DIALECTS)], t))
    t0 = time.time()
    with _pool() as pool:
        res = list(pool.map(_fuzz_task, tasks, chunksize=8))
        groups = {}
        for s, d, t, r, dt in res:
            if r is not None:
                groups.setdefault((r[0], r[1]), []).append((len(s), s, d, t, r))
        todo = []
        for key, lst in sorted(groups.items()):
            lst.sort(key=lambda x: (x[0], x[1]))
            _, s, d, t, r = lst[0]
            todo.append((s, d, t, key))
        shrunk = list(pool.map(_shrink_task, todo)) if todo else []
    failed = []
    for (s, d, t, key), (small, r2) in zip(todo, shrunk):
        clause, site = key
        lst = groups[key]
        id_ = f"C04/fuzz/{clause}"
        failed.append(_failed(id_, "sqlfluff.core.linter.linter:Linter.lint_string",
                              {"input": small, "input_repr": ascii(small), "dialect": d, "templater": t, "site": site,
                               "observed": (r2 or lst[0][4])[2], "occurrences": len(lst), "unshrunk_repr": ascii(s),
                               "call": f"Linter(dialect={d!r}, templater={t!r}).lint_string(<input>, fix=True)"},
                              name=f"{id_} at {site}"))
    slow = sorted(res, key=lambda x: -x[4])[:1]
    nontrivial = len({s for s, d, t, r, dt in res if any(c in s for c in "({['\"") or "{{" in s or "{%" in s})
    samples = [{"input_repr": ascii(s), "dialect": d, "templater": t, "outcome": "returned", "seconds": round(dt, 3)}
               for s, d, t, r, dt in res if r is None and len(s) > 20][:3]
    return {"name": "fuzz-no-crash",
            "bound": f"{len(systematic)} systematic strings (each character / fragment alone, all ordered pairs of {len(pairs)} openers and closers) x 3 templaters + "
                     f"{n} seeded strings of length <= 40 over {len(_CHARS)} characters (printable, odd unicode, NUL, lone surrogates) and "
                     f"{len(_FRAGS)} fragments (brackets, quotes, jinja tags, keywords), each through one of {len(combos)} dialect x templater "
                     f"combinations (round robin), Linter.lint_string(fix=True)",
            "rule": "non-trivial = contains a bracket, quote or template tag",
            "evaluations": len(res), "distinct_nontrivial": nontrivial, "samples": samples, "failed": failed,
            "slowest": [{"input_repr": ascii(s), "dialect": d, "templater": t, "seconds": round(dt, 2)} for s, d, t, r, dt in slow],
            "wall_s": round(time.time() - t0, 1)}


# =============================================================================================== EXTRA: the funnels, run
def funnel_scenarios(tier="quick", seed=0):
    """The real functions around the region contracts of contracts/c04_funnels.py, RUN with stubbed callees that behave as the
    assumed callee contracts allow (a parser / templater / lint task that raises).  A region contract has no native reading; these
    fixed scenarios are the CPython side of that model (ids C04/dynamic/<funnel>/<clause>)."""
    import logging
    logging.disable(logging.CRITICAL)
    _no_tqdm_monitor()
    failed, samples = [], []
    n = 0

    def scenario(name, function, fn):
        nonlocal n
        n += 1
        id_ = f"C04/dynamic/{name}"
        try:
            problem = fn()
        except BaseException as e:     # noqa -- an exception leaving the funnel is the observable
            if isinstance(e, (KeyboardInterrupt, SystemExit)):
                raise
            problem = {"raised": f"{type(e).__name__}: {e}"[:300], "what": "an exception left the funnel"}
        if problem:
            failed.append(_failed(id_, function, problem, kind="exception-flow"))
        elif len(samples) < 4:
            samples.append({"obligation": id_, "backend": "CPython (real function, stubbed callee)"})

    try:
        from sqlfluff.core import Linter, FluffConfig
        from sqlfluff.core.errors import SQLParseError, SQLTemplaterError, SQLFluffSkipFile
        from sqlfluff.core.parser import parser as PM
        from sqlfluff.core.linter import runner as RM
        from sqlfluff.core.templaters.base import RawTemplater

        # ---------------------------------------------------------------- Linter._parse_tokens
        F = "sqlfluff.core.linter.linter:Linter._parse_tokens"
        cfg = FluffConfig(overrides={"dialect": "ansi"})
        tokens, _ = Linter(config=cfg)._lex_templated_file(
            Linter(config=cfg).render_string("SELECT a, b FROM t\n", "<s>", cfg, "utf-8").templated_variants[0], cfg)
        calls = []
        orig_parse = PM.Parser.parse

        def with_parse(stub, fn):
            PM.Parser.parse = stub
            try:
                return fn()
            finally:
                PM.Parser.parse = orig_parse

        def over_limit():
            c2 = FluffConfig(overrides={"dialect": "ansi", "max_parse_nodes": len(tokens) - 1})

            def stub(self, segments, fname=None, parse_statistics=False):
                calls.append(len(segments))
                return orig_parse(self, segments, fname=fname, parse_statistics=parse_statistics)
            tree, vs = with_parse(stub, lambda: Linter._parse_tokens(tokens, c2))
            if tree is not None or len(vs) != 1 or not isinstance(vs[0], SQLParseError) or calls:
                return {"tree": repr(tree)[:60], "violations": [v.desc()[:80] for v in vs], "parser_calls": len(calls),
                        "expected": "(None, [one SQLParseError]) and no call of Parser.parse"}
        scenario("parse_tokens/over-limit-no-parse", F, over_limit)

        def at_limit():
            c2 = FluffConfig(overrides={"dialect": "ansi", "max_parse_nodes": len(tokens)})
            del calls[:]

            def stub(self, segments, fname=None, parse_statistics=False):
                calls.append(len(segments))
                raise SQLParseError("c04-probe")
            tree, vs = with_parse(stub, lambda: Linter._parse_tokens(tokens, c2))
            if len(calls) != 1 or tree is not None or len(vs) != 1 or "c04-probe" not in vs[0].desc():
                return {"parser_calls": len(calls), "violations": [v.desc()[:80] for v in vs],
                        "expected": "len(tokens) == max_parse_nodes is within the limit: the parser runs, its SQLParseError comes back as the one violation"}
        scenario("parse_tokens/at-limit-parses-and-captures", F, at_limit)

        def limit_disabled():
            c2 = FluffConfig(overrides={"dialect": "ansi", "max_parse_nodes": 0})
            tree, vs = Linter._parse_tokens(tokens, c2)
            if tree is None or vs:
                return {"violations": [v.desc()[:80] for v in vs], "expected": "max_parse_nodes = 0 disables the pre-check"}
        scenario("parse_tokens/limit-zero-disabled", F, limit_disabled)

        # ---------------------------------------------------------------- Linter.render_string
        F = "sqlfluff.core.linter.linter:Linter.render_string"

        class Boom(RawTemplater):
            exc = None

            def process(self, *, in_str, fname, config=None, formatter=None):
                raise self.exc

        def render_with(exc):
            lnt = Linter(config=cfg)
            t = Boom()
            t.exc = exc
            lnt.templater = t
            c2 = cfg.copy()
            c2._configs["core"]["templater_obj"] = t
            return lnt.render_string("SELECT 1\n", "<s>", c2, "utf-8")

        def templater_error():
            err = SQLTemplaterError("c04-probe")
            r = render_with(err)
            if r.templated_variants or len(r.templater_violations) != 1 or r.templater_violations[0] is not err:
                return {"variants": len(r.templated_variants), "violations": [v.desc()[:80] for v in r.templater_violations],
                        "expected": "no variant, the raised SQLTemplaterError as the one templater violation"}
        scenario("render_string/templater-error-recorded", F, templater_error)

        def skip_file():
            r = render_with(SQLFluffSkipFile("c04-probe"))
            if r.templated_variants or r.templater_violations:
                return {"variants": len(r.templated_variants), "violations": len(r.templater_violations)}
        scenario("render_string/skipfile-contained", F, skip_file)

        # ---------------------------------------------------------------- runners
        class Out:
            def __init__(self, path):
                self.path = path

        class Job:
            def __init__(self, path, exc=None):
                self.path, self.exc = path, exc

            def __call__(self):
                if self.exc is not None:
                    raise self.exc
                return Out(self.path)

        class StubLinter:
            formatter = None
            config = cfg

        def parts(*jobs):
            return [(j.path, j) for j in jobs]

        F = "sqlfluff.core.linter.runner:SequentialRunner.run"

        def make(cls, jobs, **kw):
            class R(cls):
                def iter_partials(self, fnames, fix=False):
                    yield from parts(*jobs)
            return R(StubLinter(), cfg, **kw)

        def seq_continues():
            r = make(RM.SequentialRunner, [Job("a"), Job("b", RuntimeError("c04-probe")), Job("c", AssertionError()), Job("d")])
            got = [o.path for o in r.run(["a", "b", "c", "d"], False)]
            if got != ["a", "d"]:
                return {"yielded": got, "expected": ["a", "d"]}
        scenario("sequential-run/continues-after-failure", F, seq_continues)

        def seq_oserror():
            r = make(RM.SequentialRunner, [Job("a"), Job("b", FileNotFoundError("c04-probe")), Job("c")])
            try:
                list(r.run(["a", "b", "c"], False))
            except OSError:
                return None
            return {"what": "an OSError raised while linting a file was swallowed (documented: passed on to the CLI)"}
        scenario("sequential-run/oserror-passed-on", F, seq_oserror)

        F = "sqlfluff.core.linter.runner:ParallelRunner.run"

        def par_continues():
            r = make(RM.MultiThreadRunner, [Job("a"), Job("b", RuntimeError("c04-probe")), Job("c", SQLFluffSkipFile("c04-probe")), Job("d")],
                     processes=2)
            got = sorted(o.path for o in r.run(["a", "b", "c", "d"], False))
            if got != ["a", "d"] or r.skipped_file_count != 1:
                return {"yielded": got, "skipped_file_count": r.skipped_file_count, "expected": {"yielded": ["a", "d"], "skipped_file_count": 1}}
        scenario("parallel-run/continues-after-failure-and-counts-skip", F, par_continues)

        def apply_never_raises():
            bad = []
            for exc in (RuntimeError("x"), KeyError("k"), RecursionError(), OSError("io"), SQLFluffSkipFile("s"), AssertionError()):
                out = RM.ParallelRunner._apply(("f.sql", Job("f.sql", exc)))
                if not (isinstance(out, RM.DelayedException) and out.ee is exc and out.fname == "f.sql"):
                    bad.append(type(exc).__name__)
            if bad:
                return {"not returned as DelayedException(exc, fname)": bad}
        scenario("parallel-apply/returns-delayed-exception", "sqlfluff.core.linter.runner:ParallelRunner._apply", apply_never_raises)
    finally:
        logging.disable(logging.NOTSET)
    return {"name": "C04-funnel-scenarios", "obligations": n, "discharged": n - len(failed), "failed": failed, "undecided": [],
            "samples": samples[:4], "backend": "CPython: real funnel functions, callees stubbed as their assumed contracts allow",
            "trusted": ["funnel scenarios are fixed inputs (no quantifier): they tie the symbolic model of the region contracts to CPython, "
                        "they are not coverage"]}


# =============================================================================================== BOUNDED: python templater
_PY_FORMAT_FRAGS = ["{", "}", "{}", "{0}", "{a}", "{b}", "{a", "a}", "{a[0]}", "{a[}", "{a.b}", "{a.}", "{x[5]}", "{x[0]}", "{x[k]}", "{a!z}",
                    "{a!r}", "{a:zz}", "{a:>5}", "{a:{}}", "{a:{b}}", "{:}", "{!r}", "{[0]}", "{.a}", "{{", "}}", "{{}", "{}}", "{{a}}", "{a}{", "}{",
                    "{ }", "{a b}", "{0.a}", "{s:d}", "{a:s}", "{a:,}", "{a:.2f}", "{s.upper}", "{x.__class__}", "{a:%}", "{\n}", "{a\n}"]


def _py_task(s):
    import logging
    logging.disable(logging.CRITICAL)
    from sqlfluff.core import Linter, FluffConfig
    key = "python"
    if key not in _LINTERS:
        _LINTERS[key] = Linter(config=FluffConfig(configs={"core": {"dialect": "ansi", "templater": "python"},
                                                            "templater": {"python": {"context": {"a": 1, "s": "t", "x": [1, 2]}}}}))
    try:
        with _deadline(_FUZZ_LIMIT_S):
            lf = _LINTERS[key].lint_string(s, fix=True)
        codes = sorted({v.rule_code() for v in lf.get_violations(filter_ignore=False, filter_warning=False)})
        return (s, None, codes)
    except _Timeout:
        return (s, ("timeout", "lint_string", "no result"), None)
    except BaseException as e:     # noqa -- the observable of C04
        if isinstance(e, (KeyboardInterrupt, SystemExit)):
            raise
        tb = traceback.extract_tb(e.__traceback__)
        site = next((f"{f.filename.split('sqlfluff' + os.sep)[-1]}:{f.name}" for f in reversed(tb)
                     if os.sep + "sqlfluff" + os.sep in f.filename), "?")
        return (s, (type(e).__name__, site, str(e)[:200]), None)


def python_templater_errors(tier="quick", seed=0):
    """The python templater (str.format) on malformed / unusual replacement fields: every problem must come back as a TMP
    violation (property: templating problems are reported as TMP), never as an exception out of Linter.lint_string."""
    rng = random.Random(f"c04-pyformat-{seed}")
    wraps = ["{}", "SELECT {} FROM t\n", "SELECT 1 -- {}\n"]
    inputs = [w.replace("{}", f, 1) for f in _PY_FORMAT_FRAGS for w in wraps]
    for _ in range(600 if tier == "thorough" else 60):
        inputs.append("SELECT " + "".join(rng.choice(_PY_FORMAT_FRAGS + [" ", "a", ",", "\n"]) for _ in range(rng.randint(1, 4))) + "\n")
    inputs = list(dict.fromkeys(inputs))
    t0 = time.time()
    with _pool(4) as pool:
        res = list(pool.map(_py_task, inputs, chunksize=8))
    by = {}
    for s, bad, codes in res:
        if bad:
            by.setdefault(bad[0], []).append((len(s), s, bad))
    failed = []
    for cls, lst in sorted(by.items()):
        lst.sort()
        _, s, bad = lst[0]
        id_ = f"C04/render/python/raised[{cls}]"
        failed.append(_failed(id_, "sqlfluff.core.linter.linter:Linter.lint_string",
                              {"input": s, "input_repr": ascii(s), "templater": "python", "context": {"a": 1, "s": "t", "x": [1, 2]},
                               "raised": f"{cls}: {bad[2]}", "site": bad[1], "occurrences": len(lst),
                               "other_inputs": [ascii(x[1]) for x in lst[1:6]],
                               "call": "Linter(config=FluffConfig(configs={'core': {'dialect': 'ansi', 'templater': 'python'}, 'templater': "
                                       "{'python': {'context': {'a': 1, 's': 't', 'x': [1, 2]}}}})).lint_string(<input>)",
                               "what": "a templating problem left lint_string as an exception instead of a TMP violation "
                                       "(PythonTemplater.process converts only KeyError; Linter.render_string catches only SQLTemplaterError)"},
                              name=f"{id_} at {bad[1]}"))
    tmp = sum(1 for s, bad, codes in res if codes and "TMP" in codes)
    return {"name": "python-templater-errors",
            "bound": f"{len(_PY_FORMAT_FRAGS)} str.format replacement-field fragments x {len(wraps)} contexts + seeded combinations "
                     f"({len(inputs)} strings), python templater with context a=1, s='t', x=[1, 2], Linter.lint_string(fix=True)",
            "rule": "non-trivial = the text contains a brace", "evaluations": len(res),
            "distinct_nontrivial": sum(1 for s, _, _ in res if "{" in s or "}" in s),
            "samples": [{"input_repr": ascii(s), "outcome": "TMP violation"} for s, bad, codes in res if codes and "TMP" in codes][:3],
            "reported_as_TMP": tmp, "failed": failed, "wall_s": round(time.time() - t0, 1)}


def near_limit_fix(tier="quick", seed=0):
    """BOUNDED: max_parse_nodes set just above what the first parse needs -- the re-parses done while FIXING (validation of fixed
    segments, the fix loop's own re-lints) run against the same budget and must not raise either (found by a seeding agent:
    lint_string(fix=True) raised SQLParseError out of apply_fixes; repaired in /repo 4cc03f3)."""
    import logging
    logging.disable(logging.CRITICAL)
    from sqlfluff.core import Linter, FluffConfig
    t0 = time.time()
    inputs = [("cols30", "SELECT " + ",".join(f"a{i}" for i in range(30)) + " FROM t\n"),
              ("where12", "select a from t where " + " and ".join(f"c{i}=1" for i in range(12)) + "\n"),
              ("case6", "SELECT CASE WHEN a THEN 1 WHEN b THEN 2 ELSE 3 END AS x,b  from t\n")]
    failed, samples, ev = [], [], 0
    span = 40 if tier == "thorough" else 16
    try:
        for label, sql in inputs:
            # smallest budget with which the plain parse succeeds (bisection on the real parser)
            lo, hi = 1, 5000
            while lo < hi:
                mid = (lo + hi) // 2
                ps = Linter(config=FluffConfig(overrides={"dialect": "ansi", "max_parse_nodes": mid})).parse_string(sql)
                if any(str(v.desc()).startswith("Maximum parse node") for v in ps.violations):
                    lo = mid + 1
                else:
                    hi = mid
            for n in range(lo, lo + span, 2):
                ev += 1
                try:
                    with _deadline(_CALL_LIMIT_S):
                        lf = Linter(config=FluffConfig(overrides={"dialect": "ansi", "max_parse_nodes": n})).lint_string(sql, fix=True)
                        out = lf.fix_string()[0] if lf.tree is not None else sql
                    if len(samples) < 3:
                        samples.append({"input": label, "needed_by_first_parse": lo, "max_parse_nodes": n, "violations": len(lf.get_violations()),
                                        "changed": out != sql})
                except BaseException as e:     # noqa -- the observable of C04
                    if isinstance(e, (KeyboardInterrupt, SystemExit)):
                        raise
                    fid = f"C04/near-limit-fix/raised[{type(e).__name__}]"
                    if not any(f["id"] == fid for f in failed):
                        failed.append(_failed(fid, "sqlfluff.core.linter.linter:Linter.lint_string",
                                              {"input": label, "sql": sql, "needed_by_first_parse": lo, "max_parse_nodes": n, "message": str(e)[:200]}))
    finally:
        logging.disable(logging.NOTSET)
    return {"name": "near-limit-fix", "bound": f"{len(inputs)} statements x max_parse_nodes in [need, need+{span}) step 2, lint_string(fix=True)",
            "rule": "one evaluation = one lint+fix under a node budget just above the first parse's need; all are non-trivial",
            "evaluations": ev, "distinct_nontrivial": ev, "samples": samples, "failed": failed, "wall_s": round(time.time() - t0, 1)}


EXTRA = [exception_funnels, funnel_scenarios]
BOUNDED = [limits_return_violations, fuzz_no_crash, python_templater_errors, near_limit_fix]

TRUSTED = ["limit probes: `a limit was reached` is observed by read-only wrappers around ParseContext.deeper_match / increment_parse_nodes "
           "that evaluate the proved raise-conditions of contracts/c04.py on the live context before delegating to the real method"]
NOT_COVERED = ["exceptions escaping for inputs outside the seeded samples; CLI entry points; file-based linting end to end (the runner "
               "funnels themselves are under pyvc contracts, contracts/c04_funnels.py; Linter.lint_paths around them is not); plugins; "
               "the dbt / sqlmesh templaters"]

MUTANTS = [
    ("fix_revalidation_limit_escapes", "sqlfluff/core/linter/fix.py", "            except SQLParseError as err:\n                # The parse limits were hit while re-parsing", "            except KeyError as err:\n                # The parse limits were hit while re-parsing"),
    ("parse_tokens_catches_lex_only", "sqlfluff/core/linter/linter.py",
     "        except SQLParseError as err:\n            if err.segment is None:", "        except SQLLexError as err:\n            if err.segment is None:"),
    ("parse_tokens_no_early_return", "sqlfluff/core/linter/linter.py",
     "        if max_parse_nodes > 0 and len(tokens) > max_parse_nodes:", "        if False and len(tokens) > max_parse_nodes:"),
    ("parse_tokens_handler_reraises", "sqlfluff/core/linter/linter.py",
     "            linter_logger.info(\"PARSING FAILED! : %s\", err)\n            violations.append(err)\n            return None, violations",
     "            linter_logger.info(\"PARSING FAILED! : %s\", err)\n            raise"),
    ("render_string_templater_error_escapes", "sqlfluff/core/linter/linter.py",
     "        except SQLTemplaterError as templater_err:\n", "        except SQLLexError as templater_err:\n"),
    ("crawl_try_narrowed", "sqlfluff/core/rules/base.py",
     "            # Any exception at this point would halt the linter and\n            # cause the user to get no results\n            except Exception as e:",
     "            # Any exception at this point would halt the linter and\n            # cause the user to get no results\n            except ZeroDivisionError as e:"),
    ("depth_limit_wrong_class", "sqlfluff/core/parser/context.py",
     "            raise SQLParseError(\n                f\"Maximum parse depth exceeded", "            raise RecursionError(\n                f\"Maximum parse depth exceeded"),
    ("sequential_runner_narrowed", "sqlfluff/core/linter/runner.py",
     "            except Exception as e:\n                self._handle_lint_path_exception(fname, e)\n\n\nclass ParallelRunner",
     "            except SQLFluffSkipFile as e:\n                self._handle_lint_path_exception(fname, e)\n\n\nclass ParallelRunner"),
    ("limit_message_lost", "sqlfluff/core/linter/linter.py",
     "            linter_logger.info(\"PARSING FAILED! : %s\", err)\n            violations.append(err)\n            return None, violations",
     "            linter_logger.info(\"PARSING FAILED! : %s\", err)\n            return None, violations"),
]


if __name__ == "__main__":
    import json
    sys.path.insert(0, os.path.dirname(os.path.dirname(os.path.abspath(__file__))))
    which = sys.argv[1:] or ["exception_funnels", "limits_return_violations", "fuzz_no_crash"]
    tier = os.environ.get("VERIF_TIER", "quick")
    seed = int(os.environ.get("VERIF_SEED", "0"))
    for w in which:
        t0 = time.time()
        r = globals()[w](tier, seed)
        print(json.dumps({k: v for k, v in r.items()}, indent=1, default=str)[:6000])
        print(f"== {w}: {time.time() - t0:.1f}s failed={len(r['failed'])}")
