"""C33 -- bounded (dynamic) parts, on real lint runs over generated Jinja templates.   NOT proofs: labelled stand-ins.

Two stand-ins:

* `signature_contract`  -- the contract of SQLLintError.source_signature / SQLBaseError.source_signature taken from the
  property ("the same violation in SOURCE space is reported once, however often loops / variants produce it"):
    R1  two violations that are the same in source space have EQUAL signatures.  "Same in source space" is the finest
        source-level description of a violation: rule code, source line / position, description, and per fix its kind,
        the SOURCE slice of its anchor, its edits as text and its source-level edits (text, source slice).  Using the
        finest description makes this the weakest oracle that still says "the same violation".
    R2  the signature does not depend on templated-space positions, working (fixed-file) positions or object identity:
        a relocated clone of the violation (every segment re-created with a fresh uuid, every templated slice and
        working position shifted, source slices untouched) has the same signature.
    R3  the signature is hashable and deterministic (two calls agree).
  checked on the violations that the rules REALLY produce (before deduplication) for every variant of every generated
  template, in lint and in fix mode.

* `end_to_end`  -- Linter.lint_string (lint and fix mode) over the same templates: no two violations of the LintedFile are
  equal in source space (rule, line, position, description) and they are listed in source order; the same for the
  filtered view get_violations().

Bounds: templates = a SELECT whose select list / WHERE clause contains one Jinja block: a for-loop with 0..3 iterations,
an if/else (both branches become variants), or a loop around an if/else; the block body is one of ~10 snippets that
trigger rules with delete- (LT01 trailing / before comma, AL05), replace- (LT01, CP01, LT02), create-type (AL01, AL02, LT01
operators) and source-only fixes (JJ01).
"""
import functools
import itertools
import random

# ------------------------------------------------------------------ templates
# one select-list line each; `@` stands for the loop variable / branch constant
SNIPPETS = {
    "clean": "    @V AS @V_x,",
    "lt01_trailing": "    @V AS @V_x,  ",              # delete
    "lt01_double_space": "    @V  AS @V_x,",           # replace
    "lt01_before_comma": "    my_col AS @V_x ,",       # delete
    "lt01_operator": "    @V+1 AS @V_x,",              # create
    "cp01_keyword": "    @V as @V_x,",                 # replace
    "al02_implicit": "    @V @V_x,",                   # create_before
    "lt02_indent": "@V AS @V_x,",                      # replace / create (indent)
    "jj01_tag": "    @W AS @V_x,",                     # source-only fix (jinja tag spacing)
    "mixed": "    @V  as @V_x ,  ",                    # several at once
}
WHERE_SNIPPETS = {
    "where_clean": "    AND @V = 1",
    "where_lt01": "    AND @V =1  ",
    "where_cp01": "    and @V  = 1",
}
ITEMS = ["a", "b", "c"]


def _loop_body(snip):
    return snip.replace("@W", "{{c}}").replace("@V", "{{ c }}")


def _const_body(snip, name):
    return snip.replace("@W", "{{'" + name + "'}}").replace("@V", name)


def _wrap(select_block, where_block=None, tail="FROM tbl t"):
    s = "SELECT\n" + select_block + "\n    1 AS one\n" + tail + "\n"
    if where_block is not None:
        s += "WHERE 1 = 1\n" + where_block + "\n"
    return s


def _for(n, body, var="c"):
    lst = "[" + ", ".join("'%s'" % x for x in ITEMS[:n]) + "]"
    return "{% for " + var + " in " + lst + " %}\n" + body + "\n{% endfor %}"


def _if(cond, a, b):
    return "{% if " + cond + " %}\n" + a + "\n{% else %}\n" + b + "\n{% endif %}"


def templates(tier, seed):
    """deterministic list of (name, sql)"""
    out = []
    names = list(SNIPPETS)
    # loops in the select list, 0..3 iterations
    for sn in names:
        for n in ((0, 2, 3) if tier == "quick" and sn not in ("lt01_trailing", "mixed", "jj01_tag") else (0, 1, 2, 3)):
            out.append((f"loop[{sn}]x{n}", _wrap(_for(n, _loop_body(SNIPPETS[sn])))))
    # if / else: both branches become rendering variants
    pairs = [("lt01_trailing", "clean"), ("clean", "lt01_trailing"), ("lt01_trailing", "lt01_trailing"), ("cp01_keyword", "lt01_double_space"),
             ("al02_implicit", "lt02_indent"), ("mixed", "mixed"), ("jj01_tag", "lt01_before_comma"), ("lt01_operator", "cp01_keyword")]
    if tier != "quick":
        pairs = [(a, b) for a in names for b in names]
    for a, b in pairs:
        for cond in (("x",) if tier == "quick" else ("x", "true", "not x")):
            out.append((f"if[{cond}][{a}|{b}]", _wrap(_if(cond, _const_body(SNIPPETS[a], "a"), _const_body(SNIPPETS[b], "b")))))
            # branches of different length before a trailing issue: templated positions after the block differ per variant
            out.append((f"if[{cond}][{a}|{b}]+tail", _wrap(_if(cond, _const_body(SNIPPETS[a], "a"), _const_body(SNIPPETS[b], "bbbbbb")),
                                                          tail="FROM tbl t  ")))
    # loop around an if/else
    nest = [("lt01_trailing", "clean"), ("mixed", "lt01_trailing"), ("cp01_keyword", "al02_implicit")]
    if tier != "quick":
        nest = [(a, b) for a in names for b in names if a != b]
    for a, b in nest:
        for n in (2, 3):
            body = _if("loop.first", _loop_body(SNIPPETS[a]), _loop_body(SNIPPETS[b]))
            out.append((f"loopif[{a}|{b}]x{n}", _wrap(_for(n, body))))
    # loops in the WHERE clause, plus an implicit table alias (create fix outside the loop)
    for sn, sv in WHERE_SNIPPETS.items():
        for n in ((0, 3) if tier == "quick" else (0, 1, 2, 3)):
            out.append((f"where[{sn}]x{n}", _wrap(_for(1, _loop_body(SNIPPETS["clean"])), _for(n, _loop_body(sv)))))
    # two loops + nested loops
    out.append(("twoloops", _wrap(_for(2, _loop_body(SNIPPETS["lt01_trailing"])) + "\n" + _for(3, _loop_body(SNIPPETS["mixed"])))))
    out.append(("nestedloops", _wrap(_for(2, _for(2, "    {{ c }}_{{ d }} as x_{{ c }}{{ d }},  ", var="d")))))
    if tier != "quick":
        rng = random.Random(seed)
        for k in range(150):
            blocks = []
            for _ in range(rng.randint(1, 3)):
                kind = rng.choice(["for", "if", "forif", "plain"])
                a, b = rng.choice(names), rng.choice(names)
                if kind == "for":
                    blocks.append(_for(rng.randint(0, 3), _loop_body(SNIPPETS[a])))
                elif kind == "if":
                    blocks.append(_if(rng.choice(["x", "true", "not x"]), _const_body(SNIPPETS[a], "a"), _const_body(SNIPPETS[b], "b")))
                elif kind == "forif":
                    blocks.append(_for(rng.randint(1, 3), _if(rng.choice(["loop.first", "loop.last", "x"]), _loop_body(SNIPPETS[a]), _loop_body(SNIPPETS[b]))))
                else:
                    blocks.append(_const_body(SNIPPETS[a], "p"))
            wh = None
            if rng.random() < 0.4:
                wh = _for(rng.randint(0, 3), _loop_body(WHERE_SNIPPETS[rng.choice(list(WHERE_SNIPPETS))]))
            out.append((f"random#{seed}.{k}", _wrap("\n".join(blocks), wh, tail=rng.choice(["FROM tbl t", "FROM tbl AS t", "FROM tbl", "from tbl t  "]))))
    return out


def broken_templates(tier, seed):
    """files WITHOUT a lintable root variant (fatal templating failure) that also carry malformed / unused noqa comments
    before or after the failure, and files with non-fatal templating problems inside loops: the paths of
    Linter.lint_parsed that do not go through the rules"""
    heads = ["SELECT a -- noqa L001", "SELECT a --noqa:", "SELECT a -- noqa: LT01,", "SELECT a"]
    mids = ["    , b --noqa:", "    , b", "    , b -- noqa L002"]
    fatal = {"unclosed_if": "{% if x %}\nWHERE a > 1", "bad_expression": "WHERE a > {{ 1 + }}", "unknown_tag": "{% foo %}",
             "unclosed_for": "{% for c in [1] %}\nWHERE a > 1", "stray_endif": "WHERE a > 1\n{% endif %}"}
    out = []
    for hi, h in enumerate(heads):
        for mi, m in enumerate(mids):
            for fk, f in fatal.items():
                out.append((f"fatal[{fk}]after[{hi}.{mi}]", h + "\n" + m + "\nFROM tbl\n" + f + "\n"))
    for fk, f in fatal.items():
        out.append((f"fatal[{fk}]before", f + "\nSELECT a -- noqa L001\n    , b --noqa:\nFROM tbl\n"))
    # non-fatal: undefined variables / unparsable text repeated by a loop or present in both branches
    out.append(("undefined_in_loop", _wrap(_for(3, "    {{ foo.bar }} AS x_{{ c }},  "))))
    out.append(("undefined_twice", "SELECT {{ foo }}  AS a, {{ foo }} AS b -- noqa L001\nFROM tbl\n"))
    out.append(("unparsable_in_loop", _wrap(_for(2, "    a b c d e,"))))
    out.append(("unparsable_in_branches", _wrap(_if("x", "    a b c d e,", "  f g h i ,"))))
    return out


# ------------------------------------------------------------------ source-space description of a violation
def fix_key(fix):
    """a fix purely in terms of the source file"""
    pm = fix.anchor.pos_marker
    anchor_src = (pm.source_slice.start, pm.source_slice.stop) if pm else None
    edits = tuple(e.raw for e in (fix.edit or []))
    source_fixes = tuple((sf.edit, sf.source_slice.start, sf.source_slice.stop) for e in (fix.edit or []) for sf in e.source_fixes)
    return (fix.edit_type, anchor_src, edits, source_fixes)


def source_key(v):
    """the finest description of a violation in source space"""
    return (type(v).__name__, v.rule_code(), v.line_no, v.line_pos, v.desc(), tuple(fix_key(f) for f in getattr(v, "fixes", [])))


def report_key(v):
    """what a user sees of a violation: rule, source line, source position, description"""
    return (v.rule_code(), v.line_no, v.line_pos, v.desc())


# ------------------------------------------------------------------ relocated clones (same source, other templated place / identity)
def _cached_names(cls):
    names = set()
    for k in cls.__mro__:
        for n, a in vars(k).items():
            if isinstance(a, functools.cached_property):
                names.add(n)
    return names


def relocate_segment(seg, dt, dl):
    from sqlfluff.core.parser.markers import PositionMarker
    from sqlfluff.core.parser.segments.base import SourceFix
    cls = seg.__class__
    new = cls.__new__(cls)
    d = dict(seg.__dict__)
    for n in _cached_names(cls):
        d.pop(n, None)
    d.pop("_rstoken", None)
    d.pop("_rs_tree", None)
    if "uuid" in d:
        d["uuid"] = d["uuid"] + (1 << 70) + dt        # a fresh identity
    if "_parent" in d:
        d["_parent"] = None
    pm = d.get("pos_marker")
    if pm is not None:
        d["pos_marker"] = PositionMarker(pm.source_slice, slice(pm.templated_slice.start + dt, pm.templated_slice.stop + dt),
                                         pm.templated_file, pm.working_line_no + dl, pm.working_line_pos + dt)
    if d.get("_source_fixes"):
        d["_source_fixes"] = [SourceFix(sf.edit, sf.source_slice, slice(sf.templated_slice.start + dt, sf.templated_slice.stop + dt))
                              for sf in d["_source_fixes"]]
    if d.get("segments"):
        d["segments"] = tuple(relocate_segment(c, dt, dl) for c in d["segments"])
    new.__dict__.update(d)
    return new


def relocate_violation(v, dt=1000, dl=37):
    """the same violation in source space as a different object at a different templated place"""
    import copy
    from sqlfluff.core.errors import SQLLintError
    if not isinstance(v, SQLLintError):
        return copy.copy(v)
    fixes = []
    for f in v.fixes:
        g = copy.copy(f)
        g.anchor = relocate_segment(f.anchor, dt, dl)
        g.edit = [relocate_segment(e, dt, dl) for e in f.edit] if f.edit is not None else None
        g.source = [relocate_segment(e, dt, dl) for e in (f.source or [])]
        fixes.append(g)
    return SQLLintError(description=v.description, segment=relocate_segment(v.segment, dt, dl) if v.segment else v.segment,
                        rule=v.rule, fixes=fixes, ignore=v.ignore, fatal=v.fatal, warning=v.warning)


# ------------------------------------------------------------------ running the real linter
def _linter():
    import logging
    from sqlfluff.core import FluffConfig, Linter
    logging.getLogger("sqlfluff").setLevel(logging.CRITICAL + 1)      # rule crashes are logged by sqlfluff; not our subject
    return Linter(config=FluffConfig(overrides={"dialect": "ansi", "templater": "jinja"}))


def raw_violations(lnt, sql, fix):
    """every violation produced for every variant of the file, BEFORE deduplication"""
    parsed = lnt.parse_string(sql, fname="c33.sql")
    rule_pack = lnt.get_rulepack(config=parsed.config)
    out = list(parsed.templating_violations)
    for variant in parsed.parsed_variants:
        out += variant.violations()
        if variant.tree:
            _, errs, _, _ = lnt.lint_fix_parsed(variant.tree, config=parsed.config, rule_pack=rule_pack, fix=fix, fname="c33.sql",
                                                templated_file=variant.templated_file)
            out += errs
    return out, len(parsed.parsed_variants)


def _fail(fid, fn, detail):
    return {"name": fid, "id": fid, "kind": "bounded", "status": "failed", "function": fn, "detail": detail, "reproduced": True}


def _sig_job(args):
    name, sql, fix = args
    lnt = _linter()
    fails, n_pairs, n_viol, rules, nvar, n_reloc = [], 0, 0, set(), 0, 0
    try:
        vs, nvar = raw_violations(lnt, sql, fix)
    except Exception as e:        # a crash of the linter is not this property's business; record it as not evaluated
        return {"name": name, "fix": fix, "error": repr(e)[:200], "fails": [], "pairs": 0, "violations": 0, "rules": [], "variants": 0, "dup_groups": 0,
                "relocated": 0}
    sigs = []
    for v in vs:
        n_viol += 1
        rules.add(v.rule_code())
        try:
            s1, s2 = v.source_signature(), v.source_signature()
            hash(s1)
            if s1 != s2:
                fails.append(("R3-deterministic", {"violation": repr(source_key(v))[:300]}))
        except Exception as e:
            fails.append(("R3-hashable", {"violation": repr(source_key(v))[:300], "error": repr(e)[:200]}))
            s1 = ("<unhashable>", id(v))
        sigs.append(s1)
        try:
            w = relocate_violation(v)
            ok = source_key(w) == source_key(v)      # the clone really is the same violation in source space
            n_reloc += int(ok)
            if ok and w.source_signature() != s1:
                fails.append(("R2-templated-space-independent", {"violation": repr(source_key(v))[:400], "signature": repr(s1)[:300],
                                                                   "signature_of_relocated_clone": repr(w.source_signature())[:300]}))
        except Exception as e:
            fails.append(("R2-clone-error", {"violation": repr(source_key(v))[:300], "error": repr(e)[:300]}))
    groups = {}
    for i, v in enumerate(vs):
        groups.setdefault(source_key(v), []).append(i)
    dup_groups = 0
    for k, idxs in groups.items():
        if len(idxs) > 1:
            dup_groups += 1
        for a, b in itertools.combinations(idxs, 2):
            n_pairs += 1
            if sigs[a] != sigs[b]:
                fails.append(("R1-source-equal-implies-signature-equal", {"violation": repr(k)[:400], "signature_1": repr(sigs[a])[:300],
                                                                          "signature_2": repr(sigs[b])[:300]}))
                break
    return {"name": name, "fix": fix, "fails": fails, "pairs": n_pairs, "violations": n_viol, "rules": sorted(rules), "variants": nvar,
            "dup_groups": dup_groups, "relocated": n_reloc}


def _e2e_job(args):
    name, sql, fix = args
    lnt = _linter()
    fails = []
    try:
        lf = lnt.lint_string(sql, fname="c33.sql", fix=fix)
    except Exception as e:
        return {"name": name, "fix": fix, "error": repr(e)[:200], "fails": [], "violations": 0, "rules": []}
    views = (("LintedFile.violations", lf.violations), ("get_violations()", lf.get_violations()))
    for label, vs in views:
        listing = [(v.rule_code(), v.line_no, v.line_pos) for v in vs]
        seen = {}
        for i, v in enumerate(vs):
            k = report_key(v)
            if k in seen:
                fails.append(("reported-once", {"view": label, "violation": repr(k)[:300], "indices": [seen[k], i], "listing": listing[:40]}))
                break
            seen[k] = i
        pos = [(v.line_no, v.line_pos) for v in vs]
        if pos != sorted(pos):
            fails.append(("source-order", {"view": label, "listing": listing[:40]}))
    return {"name": name, "fix": fix, "fails": fails, "violations": len(lf.violations), "rules": sorted({v.rule_code() for v in lf.violations})}


def _run(job, tasks):
    if len(tasks) <= 8:
        return [job(t) for t in tasks]
    import multiprocessing as mp
    with mp.get_context("fork").Pool(4) as pool:
        return pool.map(job, tasks, chunksize=4)


SIG_FN = "sqlfluff.core.errors:SQLLintError.source_signature"
E2E_FN = "sqlfluff.core.linter.linter:Linter.lint_string"
_CACHE = {}


def _templates(tier, seed):
    k = (tier, seed)
    if k not in _CACHE:
        _CACHE[k] = templates(tier, seed) + broken_templates(tier, seed)
    return _CACHE[k]


def signature_contract(tier, seed):
    tpls = _templates(tier, seed)
    tasks = [(n, s, fx) for n, s in tpls for fx in (False, True)]
    res = _run(_sig_job, tasks)
    failed, samples = [], []
    by_clause = {}
    for r, (n, s, fx) in zip(res, tasks):
        for clause, detail in r["fails"]:
            by_clause.setdefault(clause, []).append(dict(detail, template=n, fix=fx, sql=s))
    for clause, items in sorted(by_clause.items()):
        failed.append(_fail(f"C33/source_signature/{clause}", SIG_FN, dict(items[0], failing_templates=len({i["template"] for i in items}))))
    pairs = sum(r["pairs"] for r in res)
    viol = sum(r["violations"] for r in res)
    rules = sorted({c for r in res for c in r["rules"]})
    errors = [r for r in res if r.get("error")]
    reloc = sum(r["relocated"] for r in res)
    for r in res[:3]:
        samples.append({k: r[k] for k in ("name", "fix", "violations", "pairs", "variants", "rules")})
    if pairs == 0 or viol == 0 or reloc * 10 < viol * 9:
        failed.append(_fail("C33/source_signature/vacuous", SIG_FN, {"note": "no source-equal pair of violations was produced, or fewer than 90% of the violations could be "
                                                                              "cloned to another templated place: the stand-in tests (next to) nothing",
                                                                      "violations": viol, "pairs": pairs, "relocated_clones": reloc}))
    return {"name": "source_signature contract on real violations (pre-deduplication)",
            "bound": f"{len(tpls)} generated Jinja templates x (lint, fix); loops of 0-3 iterations, if/else variants, loop around if/else, "
                     "files with fatal templating failures + malformed noqa comments",
            "rule": "R1 same in source space => equal signatures; R2 signature of a relocated clone (other templated slices, working "
                    "positions, identities) unchanged; R3 hashable + deterministic",
            "evaluations": viol + pairs, "distinct_nontrivial": pairs, "violations_checked": viol, "source_equal_pairs": pairs, "relocated_clones_checked": reloc,
            "files_with_repeated_violations": sum(1 for r in res if r["dup_groups"]), "rules_seen": rules,
            "linter_errors": len(errors), "samples": samples, "failed": failed}


def end_to_end(tier, seed):
    tpls = _templates(tier, seed)
    tasks = [(n, s, fx) for n, s in tpls for fx in (False, True)]
    res = _run(_e2e_job, tasks)
    failed, samples = [], []
    by_clause = {}
    for r, (n, s, fx) in zip(res, tasks):
        for clause, detail in r["fails"]:
            by_clause.setdefault(clause, []).append(dict(detail, template=n, fix=fx, sql=s))
    for clause, items in sorted(by_clause.items()):
        failed.append(_fail(f"C33/end-to-end/{clause}", E2E_FN, dict(items[0], failing_templates=len({i["template"] for i in items}))))
    viol = sum(r["violations"] for r in res)
    for r in res[:3]:
        samples.append({k: r[k] for k in ("name", "fix", "violations", "rules")})
    if viol == 0:
        failed.append(_fail("C33/end-to-end/vacuous", E2E_FN, {"note": "no violation reported at all"}))
    return {"name": "reported once and in source order, end to end (Linter.lint_string)",
            "bound": f"{len(tpls)} generated Jinja templates x (lint, fix): loops of 0-3 iterations, if/else variants, loop around if/else, "
                     "files with fatal templating failures + malformed noqa comments (no lintable root variant)",
            "rule": "no two violations of a LintedFile agree on (rule, line, position, description); listed in (line, position) order; "
                    "same for get_violations()",
            "evaluations": len(tasks), "distinct_nontrivial": sum(1 for r in res if r["violations"]), "violations_reported": viol,
            "rules_seen": sorted({c for r in res for c in r["rules"]}), "linter_errors": sum(1 for r in res if r.get("error")),
            "samples": samples, "failed": failed}


if __name__ == "__main__":
    import json
    import sys
    import time
    tier = sys.argv[1] if len(sys.argv) > 1 else "quick"
    for fn in (signature_contract, end_to_end):
        t0 = time.time()
        r = fn(tier, 0)
        print(json.dumps({k: v for k, v in r.items() if k not in ("samples",)}, indent=1, default=str)[:3000])
        print(f"== {fn.__name__}: {time.time() - t0:.1f}s failed={[f['id'] for f in r['failed']]}")
